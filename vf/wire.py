"""Independent table-driven Kafka protocol codec (never imports aiokafka).

Serves (a) the simulated brokers (decode client requests, encode responses) and
(b) the C11 check (library bytes vs. these bytes).

Values are plain Python: int, str/None, bytes/None, bool, float, list, and dict
keyed by field name for structs.  Field names are documented in
``vf.wire_tables`` (Kafka JSON message spec names in snake_case).

Concrete schema representation (what ``vf.wire_tables`` compiles its tables to)
-------------------------------------------------------------------------------
  schema  := tuple of fields
  field   := (name: str, type, default)
  type    := primitive name (str, see PRIMITIVES)
           | ("array", elem_type, nullable: bool, compact: bool)
           | ("struct", schema)
  elem_type := primitive name | ("struct", schema)

In flexible versions every struct ends with the pseudo-field
``("_tagged_fields", "tagged_fields", {})`` whose value is a raw
``{tag:int -> bytes}`` dict (tags are written in ascending order).

Public API
----------
  SCHEMAS[(api_key, version)] -> {"name", "flexible", "request", "response"}
  AUX[name] -> schema            (headers, consumer protocol, sticky user data)
  is_flexible(api_key, version) -> bool
  request_header_version(api_key, version) -> 1|2
  response_header_version(api_key, version) -> 0|1
  encode_request_header / decode_request_header
  encode_response_header / decode_response_header
  encode_request_body / decode_request_body
  encode_response_body / decode_response_body
  encode_request / encode_response   (header + body, without the int32 size prefix)
  encode_struct(schema, value) -> bytes
  decode_struct(schema, buf, offset=0) -> (value, new_offset)
  default_value(schema) -> dict    (all defaults filled in)
  WireError                        (every codec failure)
"""
from __future__ import annotations

import struct as _struct

__all__ = [
    "SCHEMAS", "AUX", "WireError", "PRIMITIVES",
    "is_flexible", "request_header_version", "response_header_version",
    "encode_request_header", "decode_request_header",
    "encode_response_header", "decode_response_header",
    "encode_request_body", "decode_request_body",
    "encode_response_body", "decode_response_body",
    "encode_request", "encode_response",
    "encode_struct", "decode_struct", "default_value",
    "encode_uvarint", "decode_uvarint", "encode_varint", "decode_varint",
    "encode_varlong", "decode_varlong", "encode_tagged_fields", "decode_tagged_fields",
]


class WireError(ValueError):
    """Raised for every encode/decode failure (range, null, underrun, ...)."""


# ---------------------------------------------------------------------------
# varints (own implementation)
# ---------------------------------------------------------------------------

def encode_uvarint(value: int) -> bytes:
    """Unsigned LEB128-style varint of a 32-bit unsigned quantity (1..5 bytes)."""
    if not isinstance(value, int):
        raise WireError(f"uvarint needs int, got {value!r}")
    if value < 0 or value > 0xFFFFFFFF:
        raise WireError(f"uvarint out of range: {value!r}")
    out = bytearray()
    while value >= 0x80:
        out.append((value & 0x7F) | 0x80)
        value >>= 7
    out.append(value)
    return bytes(out)


def decode_uvarint(buf, offset: int = 0):
    """-> (value, new_offset); at most 5 bytes, result must fit 32 bits."""
    result = 0
    shift = 0
    n = len(buf)
    for i in range(5):
        if offset >= n:
            raise WireError("buffer underrun in uvarint")
        b = buf[offset]
        offset += 1
        result |= (b & 0x7F) << shift
        if not b & 0x80:
            if result > 0xFFFFFFFF:
                raise WireError("uvarint exceeds 32 bits")
            return result, offset
        shift += 7
    raise WireError("uvarint longer than 5 bytes")


def _zigzag(value: int, bits: int) -> int:
    lo, hi = -(1 << (bits - 1)), (1 << (bits - 1)) - 1
    if not lo <= value <= hi:
        raise WireError(f"varint out of {bits}-bit range: {value!r}")
    return (value << 1) ^ (value >> (bits - 1)) if value >= 0 else ((-value) << 1) - 1


def _unzigzag(u: int) -> int:
    return (u >> 1) if not u & 1 else -((u + 1) >> 1)


def _enc_uv_any(u: int) -> bytes:
    out = bytearray()
    while u >= 0x80:
        out.append((u & 0x7F) | 0x80)
        u >>= 7
    out.append(u)
    return bytes(out)


def _dec_uv_any(buf, offset, maxbytes, bits):
    result = 0
    shift = 0
    n = len(buf)
    for i in range(maxbytes):
        if offset >= n:
            raise WireError("buffer underrun in varint")
        b = buf[offset]
        offset += 1
        result |= (b & 0x7F) << shift
        if not b & 0x80:
            if result >> bits:
                raise WireError("varint exceeds width")
            return result, offset
        shift += 7
    raise WireError("varint too long")


def encode_varint(value: int) -> bytes:
    """Signed zig-zag varint, 32-bit."""
    return _enc_uv_any(_zigzag(value, 32))


def decode_varint(buf, offset: int = 0):
    u, offset = _dec_uv_any(buf, offset, 5, 32)
    return _unzigzag(u), offset


def encode_varlong(value: int) -> bytes:
    """Signed zig-zag varint, 64-bit."""
    return _enc_uv_any(_zigzag(value, 64))


def decode_varlong(buf, offset: int = 0):
    u, offset = _dec_uv_any(buf, offset, 10, 64)
    return _unzigzag(u), offset


# ---------------------------------------------------------------------------
# tagged fields:  uvarint count, then per tag (ascending): uvarint tag,
# uvarint size, <size> bytes
# ---------------------------------------------------------------------------

def encode_tagged_fields(value) -> bytes:
    if value is None:
        value = {}
    if not isinstance(value, dict):
        raise WireError(f"tagged fields need a dict, got {value!r}")
    out = [encode_uvarint(len(value))]
    for tag in sorted(value):
        data = value[tag]
        if not isinstance(tag, int) or isinstance(tag, bool) or tag < 0:
            raise WireError(f"bad tag {tag!r}")
        if not isinstance(data, (bytes, bytearray)):
            raise WireError(f"tag {tag} data must be bytes, got {data!r}")
        out.append(encode_uvarint(tag))
        out.append(encode_uvarint(len(data)))
        out.append(bytes(data))
    return b"".join(out)


def decode_tagged_fields(buf, offset: int = 0):
    count, offset = decode_uvarint(buf, offset)
    out = {}
    prev = -1
    for _ in range(count):
        tag, offset = decode_uvarint(buf, offset)
        if tag <= prev:
            raise WireError(f"tag {tag} out of order / duplicate")
        prev = tag
        size, offset = decode_uvarint(buf, offset)
        if offset + size > len(buf):
            raise WireError("buffer underrun in tagged field")
        out[tag] = bytes(buf[offset:offset + size])
        offset += size
    return out, offset


# ---------------------------------------------------------------------------
# primitives
# ---------------------------------------------------------------------------

_INT_FMT = {
    "int8": (">b", 1), "int16": (">h", 2), "int32": (">i", 4), "int64": (">q", 8),
    "uint8": (">B", 1), "uint16": (">H", 2), "uint32": (">I", 4),
}


def _enc_int(fmt):
    pack = _struct.Struct(fmt).pack

    def enc(v):
        if isinstance(v, bool):
            v = int(v)
        if not isinstance(v, int):
            raise WireError(f"integer expected for {fmt}, got {v!r}")
        try:
            return pack(v)
        except _struct.error as e:
            raise WireError(f"{v!r} out of range for {fmt}: {e}") from None
    return enc


def _dec_fixed(fmt, size):
    unpack_from = _struct.Struct(fmt).unpack_from

    def dec(buf, offset):
        if offset + size > len(buf):
            raise WireError(f"buffer underrun reading {fmt}")
        return unpack_from(buf, offset)[0], offset + size
    return dec


def _enc_float64(v):
    if isinstance(v, bool) or not isinstance(v, (int, float)):
        raise WireError(f"float expected, got {v!r}")
    try:
        return _struct.pack(">d", v)
    except (_struct.error, OverflowError) as e:
        raise WireError(str(e)) from None


def _enc_bool(v):
    if v not in (True, False, 0, 1):
        raise WireError(f"bool expected, got {v!r}")
    return b"\x01" if v else b"\x00"


def _dec_bool(buf, offset):
    if offset + 1 > len(buf):
        raise WireError("buffer underrun reading bool")
    return buf[offset] != 0, offset + 1


def _utf8(v):
    if not isinstance(v, str):
        raise WireError(f"str expected, got {v!r}")
    try:
        return v.encode("utf-8")
    except UnicodeEncodeError as e:
        raise WireError(str(e)) from None


def _mk_string(nullable, compact):
    def enc(v):
        if v is None:
            if not nullable:
                raise WireError("null for non-nullable string")
            return b"\x00" if compact else b"\xff\xff"
        raw = _utf8(v)
        if compact:
            return encode_uvarint(len(raw) + 1) + raw
        if len(raw) > 0x7FFF:
            raise WireError("string longer than 32767 bytes")
        return _struct.pack(">h", len(raw)) + raw

    def dec(buf, offset):
        if compact:
            n, offset = decode_uvarint(buf, offset)
            n -= 1
        else:
            if offset + 2 > len(buf):
                raise WireError("buffer underrun reading string length")
            n = _struct.unpack_from(">h", buf, offset)[0]
            offset += 2
        if n < 0:
            if not compact and n != -1:
                raise WireError(f"string length {n}")
            if not nullable and not _LENIENT[0]:
                raise WireError("null in non-nullable string")
            return None, offset
        if offset + n > len(buf):
            raise WireError("buffer underrun reading string")
        try:
            return bytes(buf[offset:offset + n]).decode("utf-8"), offset + n
        except UnicodeDecodeError as e:
            raise WireError(str(e)) from None
    return enc, dec


def _mk_bytes(nullable, compact):
    def enc(v):
        if v is None:
            if not nullable:
                raise WireError("null for non-nullable bytes")
            return b"\x00" if compact else b"\xff\xff\xff\xff"
        if not isinstance(v, (bytes, bytearray, memoryview)):
            raise WireError(f"bytes expected, got {v!r}")
        v = bytes(v)
        if compact:
            return encode_uvarint(len(v) + 1) + v
        if len(v) > 0x7FFFFFFF:
            raise WireError("bytes too long")
        return _struct.pack(">i", len(v)) + v

    def dec(buf, offset):
        if compact:
            n, offset = decode_uvarint(buf, offset)
            n -= 1
        else:
            if offset + 4 > len(buf):
                raise WireError("buffer underrun reading bytes length")
            n = _struct.unpack_from(">i", buf, offset)[0]
            offset += 4
        if n < 0:
            if not compact and n != -1:
                raise WireError(f"bytes length {n}")
            if not nullable and not _LENIENT[0]:
                raise WireError("null in non-nullable bytes")
            return None, offset
        if offset + n > len(buf):
            raise WireError("buffer underrun reading bytes")
        return bytes(buf[offset:offset + n]), offset + n
    return enc, dec


def _enc_uuid(v):
    if not isinstance(v, (bytes, bytearray)) or len(v) != 16:
        raise WireError("uuid must be 16 bytes")
    return bytes(v)


def _dec_uuid(buf, offset):
    if offset + 16 > len(buf):
        raise WireError("buffer underrun reading uuid")
    return bytes(buf[offset:offset + 16]), offset + 16


# set through decode_struct(..., lenient_null=True): a null read for a
# non-nullable string/bytes/array yields None instead of raising.
_LENIENT = [False]

# name -> (encode(value)->bytes, decode(buf, offset)->(value, offset), default)
PRIMITIVES: dict = {}
for _name, (_fmt, _size) in _INT_FMT.items():
    PRIMITIVES[_name] = (_enc_int(_fmt), _dec_fixed(_fmt, _size), 0)
PRIMITIVES["float64"] = (_enc_float64, _dec_fixed(">d", 8), 0.0)
PRIMITIVES["bool"] = (_enc_bool, _dec_bool, False)
PRIMITIVES["uuid"] = (_enc_uuid, _dec_uuid, b"\x00" * 16)
PRIMITIVES["uvarint"] = (encode_uvarint, decode_uvarint, 0)
PRIMITIVES["varint"] = (encode_varint, decode_varint, 0)
PRIMITIVES["varlong"] = (encode_varlong, decode_varlong, 0)
PRIMITIVES["tagged_fields"] = (encode_tagged_fields, decode_tagged_fields, None)  # default {} made fresh
for _n, _nullable, _compact, _dflt in (
    ("string", False, False, ""), ("nullable_string", True, False, None),
    ("compact_string", False, True, ""), ("compact_nullable_string", True, True, None),
):
    PRIMITIVES[_n] = (*_mk_string(_nullable, _compact), _dflt)
for _n, _nullable, _compact, _dflt in (
    ("bytes", False, False, b""), ("nullable_bytes", True, False, None),
    ("compact_bytes", False, True, b""), ("compact_nullable_bytes", True, True, None),
    # 'records' = nullable bytes (a record set is opaque here; vf.refrecords parses it)
    ("records", True, False, None), ("compact_records", True, True, None),
):
    PRIMITIVES[_n] = (*_mk_bytes(_nullable, _compact), _dflt)


# ---------------------------------------------------------------------------
# schema-driven struct codec
# ---------------------------------------------------------------------------

def default_value(schema) -> dict:
    """A dict with every field of ``schema`` set to its default."""
    out = {}
    for name, t, dflt in schema:
        out[name] = _field_default(t, dflt)
    return out


def _field_default(t, dflt):
    """Tables carry the resolved default of every field; only nested structs
    (default None, type struct) and containers need a fresh object."""
    if isinstance(t, tuple) and t[0] == "struct":
        return default_value(t[1])
    if t == "tagged_fields":
        return {}
    if isinstance(dflt, (list, dict)):
        return type(dflt)(dflt)
    return dflt


def _encode_type(t, v, out, path):
    if isinstance(t, str):
        try:
            out.append(PRIMITIVES[t][0](v))
        except WireError as e:
            raise WireError(f"{path}: {e}") from None
        return
    kind = t[0]
    if kind == "struct":
        _encode_struct(t[1], v, out, path)
        return
    if kind == "array":
        _, elem, nullable, compact = t
        if v is None:
            if not nullable:
                raise WireError(f"{path}: null for non-nullable array")
            out.append(b"\x00" if compact else b"\xff\xff\xff\xff")
            return
        if not isinstance(v, (list, tuple)):
            raise WireError(f"{path}: list expected, got {v!r}")
        out.append(encode_uvarint(len(v) + 1) if compact else _struct.pack(">i", len(v)))
        for i, item in enumerate(v):
            _encode_type(elem, item, out, f"{path}[{i}]")
        return
    raise WireError(f"{path}: bad type {t!r}")


def _encode_struct(schema, value, out, path):
    if value is None:
        value = {}
    if not isinstance(value, dict):
        raise WireError(f"{path}: dict expected for struct, got {value!r}")
    known = 0
    for name, t, dflt in schema:
        if name in value:
            v = value[name]
            known += 1
        else:
            v = _field_default(t, dflt)
        _encode_type(t, v, out, f"{path}.{name}" if path else name)
    if known != len(value):
        names = {f[0] for f in schema}
        extra = sorted(k for k in value if k not in names)
        raise WireError(f"{path or '<top>'}: unknown field(s) {extra}; schema has {sorted(names)}")


def encode_struct(schema, value) -> bytes:
    """Encode dict ``value`` by ``schema``.  Missing keys take the field default
    (0, "", None for nullable string/bytes, [] for arrays, {} tagged fields, or
    the table's explicit default such as -1).  Unknown keys raise WireError."""
    out: list = []
    _encode_struct(schema, value, out, "")
    return b"".join(out)


def _decode_type(t, buf, offset, path):
    if isinstance(t, str):
        try:
            return PRIMITIVES[t][1](buf, offset)
        except WireError as e:
            raise WireError(f"{path}: {e}") from None
    kind = t[0]
    if kind == "struct":
        return _decode_struct(t[1], buf, offset, path)
    if kind == "array":
        _, elem, nullable, compact = t
        if compact:
            try:
                n, offset = decode_uvarint(buf, offset)
            except WireError as e:
                raise WireError(f"{path}: {e}") from None
            n -= 1
        else:
            if offset + 4 > len(buf):
                raise WireError(f"{path}: buffer underrun reading array length")
            n = _struct.unpack_from(">i", buf, offset)[0]
            offset += 4
        if n < 0:
            if n != -1:
                raise WireError(f"{path}: array length {n}")
            if not nullable and not _LENIENT[0]:
                raise WireError(f"{path}: null in non-nullable array")
            return None, offset
        if n > len(buf) - offset:
            # every element takes at least one byte (empty structs do not occur in arrays)
            raise WireError(f"{path}: array length {n} exceeds remaining bytes")
        items = []
        for i in range(n):
            item, offset = _decode_type(elem, buf, offset, f"{path}[{i}]")
            items.append(item)
        return items, offset
    raise WireError(f"{path}: bad type {t!r}")


def _decode_struct(schema, buf, offset, path):
    out = {}
    for name, t, _dflt in schema:
        out[name], offset = _decode_type(t, buf, offset, f"{path}.{name}" if path else name)
    return out, offset


def decode_struct(schema, buf, offset: int = 0, lenient_null: bool = False):
    """-> (value dict, new_offset).  Strict by default: null where the table says
    non-nullable raises WireError (as the Java broker would); with
    ``lenient_null=True`` it yields None instead."""
    if isinstance(buf, memoryview):
        buf = bytes(buf)
    old = _LENIENT[0]
    _LENIENT[0] = lenient_null
    try:
        return _decode_struct(schema, buf, offset, "")
    finally:
        _LENIENT[0] = old


# ---------------------------------------------------------------------------
# tables
# ---------------------------------------------------------------------------

from . import wire_tables as _tables  # noqa: E402

SCHEMAS: dict = _tables.build_schemas()
AUX: dict = _tables.build_aux()
FLEXIBLE_SINCE: dict = _tables.FLEXIBLE_SINCE
API_NAMES: dict = _tables.API_NAMES


def is_flexible(api_key: int, version: int) -> bool:
    """Flexible-version flag from the table; for (key, version) pairs outside
    SCHEMAS it falls back to the Kafka 'first flexible version' list."""
    e = SCHEMAS.get((api_key, version))
    if e is not None:
        return e["flexible"]
    first = FLEXIBLE_SINCE.get(api_key)
    return first is not None and version >= first


def request_header_version(api_key: int, version: int) -> int:
    """1 for non-flexible, 2 for flexible request versions.
    (ControlledShutdown v0 uses header v0 in Kafka; no client sends it.)"""
    return 2 if is_flexible(api_key, version) else 1


def response_header_version(api_key: int, version: int) -> int:
    """0 for non-flexible, 1 for flexible; ApiVersions responses always use 0
    (the client must be able to read the reply before it knows the version)."""
    if api_key == 18:
        return 0
    return 1 if is_flexible(api_key, version) else 0


def _schema(api_key, version, side):
    try:
        return SCHEMAS[(api_key, version)][side]
    except KeyError:
        raise WireError(f"no table for api_key={api_key} version={version}") from None


def encode_request_header(api_key: int, version: int, correlation_id: int,
                          client_id, tagged_fields=None) -> bytes:
    """Header v1: api_key int16, api_version int16, correlation_id int32,
    client_id nullable string (int16 length, never compact).  Header v2
    (flexible versions) appends tagged fields."""
    hv = request_header_version(api_key, version)
    value = {"request_api_key": api_key, "request_api_version": version,
             "correlation_id": correlation_id, "client_id": client_id}
    if hv == 2:
        value["_tagged_fields"] = tagged_fields or {}
    return encode_struct(AUX[f"request_header_v{hv}"], value)


def decode_request_header(buf, offset: int = 0):
    """-> (api_key, version, correlation_id, client_id, body_offset).
    The header form is decided by (api_key, version) exactly as the broker does."""
    fixed, off = decode_struct(AUX["request_header_v0"], buf, offset)
    api_key, version = fixed["request_api_key"], fixed["request_api_version"]
    hv = request_header_version(api_key, version)
    value, off = decode_struct(AUX[f"request_header_v{hv}"], buf, offset)
    return api_key, version, value["correlation_id"], value["client_id"], off


def encode_response_header(api_key: int, version: int, correlation_id: int,
                           tagged_fields=None) -> bytes:
    hv = response_header_version(api_key, version)
    value = {"correlation_id": correlation_id}
    if hv == 1:
        value["_tagged_fields"] = tagged_fields or {}
    return encode_struct(AUX[f"response_header_v{hv}"], value)


def decode_response_header(api_key: int, version: int, buf, offset: int = 0):
    """-> (correlation_id, body_offset)"""
    hv = response_header_version(api_key, version)
    value, off = decode_struct(AUX[f"response_header_v{hv}"], buf, offset)
    return value["correlation_id"], off


def encode_request_body(api_key: int, version: int, value: dict) -> bytes:
    return encode_struct(_schema(api_key, version, "request"), value)


def decode_request_body(api_key: int, version: int, buf, offset: int = 0,
                        lenient_null: bool = False) -> dict:
    return decode_struct(_schema(api_key, version, "request"), buf, offset, lenient_null)[0]


def encode_response_body(api_key: int, version: int, value: dict) -> bytes:
    return encode_struct(_schema(api_key, version, "response"), value)


def decode_response_body(api_key: int, version: int, buf, offset: int = 0,
                         lenient_null: bool = False) -> dict:
    return decode_struct(_schema(api_key, version, "response"), buf, offset, lenient_null)[0]


def encode_request(api_key, version, correlation_id, client_id, value) -> bytes:
    """header + body (no int32 size prefix)."""
    return (encode_request_header(api_key, version, correlation_id, client_id)
            + encode_request_body(api_key, version, value))


def encode_response(api_key, version, correlation_id, value) -> bytes:
    """header + body (no int32 size prefix)."""
    return (encode_response_header(api_key, version, correlation_id)
            + encode_response_body(api_key, version, value))
