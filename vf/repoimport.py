"""Select which checkout of aiokafka the checks import.

Default is /repo (through /venv's editable finder, so any edit to the working tree is live).
VERIF_REPO_ROOT=<dir> (a scratch copy/worktree that contains aiokafka/) is used by the mutation
self-tests only; registered commands never set it.
"""
import os
import sys

REPO_ROOT = os.environ.get("VERIF_REPO_ROOT", "/repo")


def use_repo() -> str:
    root = os.path.abspath(REPO_ROOT)
    if root != "/repo":
        if "aiokafka" in sys.modules:
            mod = sys.modules["aiokafka"]
            if not os.path.abspath(mod.__file__).startswith(root + os.sep):
                raise RuntimeError("aiokafka already imported from " + mod.__file__)
        if sys.path[0] != root:
            sys.path.insert(0, root)
    import aiokafka

    got = os.path.abspath(aiokafka.__file__)
    if not got.startswith(root + os.sep):
        raise RuntimeError(f"aiokafka imported from {got}, expected under {root}")
    return root
