"""SimCluster: in-process simulated Kafka cluster speaking the real wire protocol.

Decoding/encoding uses vf.wire (hand-written tables) and vf.refrecords (independent record codec),
never aiokafka's own structs.  The cluster keeps ground truth (partition logs, group ledger,
transaction table) and an event log that the per-property monitors check offline.

Principle (DESIGN Appendix A): enforce what real brokers enforce, record what they do not check.
"""
from __future__ import annotations

import random
import struct

from vf import refrecords as rr
from vf import wire

# ---- Kafka error codes ----------------------------------------------------------------------------
NONE = 0
OFFSET_OUT_OF_RANGE = 1
CORRUPT_MESSAGE = 2
UNKNOWN_TOPIC_OR_PARTITION = 3
LEADER_NOT_AVAILABLE = 5
NOT_LEADER_FOR_PARTITION = 6
REQUEST_TIMED_OUT = 7
COORDINATOR_LOAD_IN_PROGRESS = 14
COORDINATOR_NOT_AVAILABLE = 15
NOT_COORDINATOR = 16
NOT_ENOUGH_REPLICAS = 19
NOT_ENOUGH_REPLICAS_AFTER_APPEND = 20
ILLEGAL_GENERATION = 22
INCONSISTENT_GROUP_PROTOCOL = 23
UNKNOWN_MEMBER_ID = 25
INVALID_SESSION_TIMEOUT = 26
REBALANCE_IN_PROGRESS = 27
TOPIC_AUTHORIZATION_FAILED = 29
GROUP_AUTHORIZATION_FAILED = 30
UNSUPPORTED_VERSION = 35
OUT_OF_ORDER_SEQUENCE_NUMBER = 45
DUPLICATE_SEQUENCE_NUMBER = 46
INVALID_PRODUCER_EPOCH = 47
INVALID_TXN_STATE = 48
INVALID_PRODUCER_ID_MAPPING = 49
CONCURRENT_TRANSACTIONS = 51
TRANSACTIONAL_ID_AUTHORIZATION_FAILED = 53
MEMBER_ID_REQUIRED = 79

API = {0: "Produce", 1: "Fetch", 2: "ListOffsets", 3: "Metadata", 8: "OffsetCommit", 9: "OffsetFetch",
       10: "FindCoordinator", 11: "JoinGroup", 12: "Heartbeat", 13: "LeaveGroup", 14: "SyncGroup",
       17: "SaslHandshake", 18: "ApiVersions", 22: "InitProducerId", 24: "AddPartitionsToTxn",
       25: "AddOffsetsToTxn", 26: "EndTxn", 28: "TxnOffsetCommit", 36: "SaslAuthenticate"}

DEFAULT_VERSIONS = {0: (0, 7), 1: (0, 11), 2: (0, 3), 3: (0, 5), 8: (0, 3), 9: (0, 3), 10: (0, 1), 11: (0, 5),
                    12: (0, 1), 13: (0, 1), 14: (0, 3), 17: (0, 1), 18: (0, 2), 22: (0, 0), 24: (0, 0), 25: (0, 0),
                    26: (0, 0), 28: (0, 0), 36: (0, 1)}

INT32_MAX = 2**31 - 1
PARKED = object()


def seq_add(seq, n):
    """Kafka's DefaultRecordBatch.incrementSequence: wraps Int.MaxValue -> 0."""
    if seq > INT32_MAX - n:
        return n - (INT32_MAX - seq) - 1
    return seq + n


class StoredBatch:
    __slots__ = ("view", "raw", "base", "last", "append_time", "arrival")

    def __init__(self, view, raw, append_time, arrival=None):
        self.view = view
        self.raw = raw
        self.base = view.base_offset
        self.last = view.last_offset
        self.append_time = append_time
        self.arrival = arrival


class ProducerState:
    def __init__(self):
        self.epoch = -1
        self.last_seq = -1
        self.cache = []   # last 5 (base_seq, last_seq, base_offset, last_offset)


class PLog:
    def __init__(self, topic, partition, ts_type=0):
        self.topic = topic
        self.partition = partition
        self.ts_type = ts_type     # 0 CreateTime, 1 LogAppendTime
        self.batches = []
        self.log_start = 0
        self.leo = 0
        self.producers = {}        # pid -> ProducerState
        self.open_txns = {}        # pid -> first offset
        self.aborted = []          # (pid, first_offset, marker_offset)
        self.committed_ranges = []  # (pid, first_offset, marker_offset)
        self.waiters = []          # parked fetches (callables)

    @property
    def hw(self):
        return self.leo

    @property
    def lso(self):
        # the first unstable offset never lies below the log start (trimming truncates it)
        return max(self.log_start, min(self.open_txns.values())) if self.open_txns else self.leo

    def append_raw(self, raw, append_time, arrival=None):
        """raw = ONE or more top-level batches with offsets already assigned."""
        views = rr.parse_batches(raw)
        for v in views:
            sb = StoredBatch(v, bytes(v.raw), append_time, arrival)
            self.batches.append(sb)
            self.leo = max(self.leo, v.last_offset + 1)
            if v.magic == 2 and v.is_transactional and not v.is_control and v.pid >= 0:
                self.open_txns.setdefault(v.pid, v.base_offset)
            if v.magic == 2 and v.is_control:
                ct = v.control_type()
                first = self.open_txns.pop(v.pid, None)
                if first is not None and ct is not None:
                    (self.aborted if ct[1] == 0 else self.committed_ranges).append((v.pid, first, v.base_offset))
        self.wake()
        return views

    def wake(self):
        ws, self.waiters = self.waiters, []
        for w in ws:
            w()

    def visible_records(self, isolation=0):
        """Ground truth: [(offset, RecordView, StoredBatch)] a consumer at this level may ever see."""
        bound = self.lso if isolation == 1 else self.hw
        out = []
        aborted_rng = [(p, f, m) for (p, f, m) in self.aborted]
        for sb in self.batches:
            v = sb.view
            if v.is_control:
                continue
            for r in v.records:
                if r.offset >= bound or r.offset < self.log_start:
                    continue
                if isolation == 1 and v.magic == 2 and v.is_transactional:
                    if any(p == v.pid and f <= r.offset <= m for (p, f, m) in aborted_rng):
                        continue
                out.append((r.offset, r, sb))
        out.sort(key=lambda x: x[0])
        return out


class Fate:
    def __init__(self, kind="ok", code=0, delay=0.0):
        self.kind = kind   # ok | drop_before | reset_after | lose_reply | lose_request | error | delay
        self.code = code
        self.delay = delay

    def __repr__(self):
        return f"Fate({self.kind},{self.code},{self.delay:.3f})"


class FaultPlan:
    """Seeded per-request fates. p[api_name] = probability of a fault; kinds[api_name] = allowed fates
    (each item either a kind string or ("error", code)). Quiet after `quiet_at` (virtual time)."""

    def __init__(self, rng, p=None, kinds=None, quiet_at=None, default_p=0.0, default_kinds=()):
        self.rng = rng
        self.p = p or {}
        self.kinds = kinds or {}
        self.default_p = default_p
        self.default_kinds = list(default_kinds)
        self.quiet_at = quiet_at
        self.scripted = []     # [(predicate(ctx) -> bool, Fate, once)]
        self.hits = {}         # (api, kind/code) -> n
        self.enabled = True

    def script(self, pred, fate, once=True):
        self.scripted.append([pred, fate, once])

    def fate(self, ctx):
        now = ctx["time"]
        for item in list(self.scripted):
            pred, fate, once = item
            if pred(ctx):
                if once:
                    self.scripted.remove(item)
                self._hit(ctx, fate)
                return fate
        if not self.enabled or (self.quiet_at is not None and now >= self.quiet_at):
            return Fate()
        api = ctx["api"]
        p = self.p.get(api, self.default_p)
        if p <= 0 or self.rng.random() >= p:
            return Fate()
        kinds = self.kinds.get(api, self.default_kinds)
        if not kinds:
            return Fate()
        k = self.rng.choice(kinds)
        if isinstance(k, (tuple, list)):
            f = Fate(k[0], k[1])
        elif k == "delay":
            f = Fate("delay", delay=self.rng.uniform(0.05, 1.5))
        else:
            f = Fate(k)
        self._hit(ctx, f)
        return f

    def _hit(self, ctx, f):
        key = f"{ctx['api']}:{f.kind}" + (f":{f.code}" if f.kind in ("error", "error_after") else "")
        self.hits[key] = self.hits.get(key, 0) + 1


class Broker:
    def __init__(self, cluster, node_id):
        self.cluster = cluster
        self.node_id = node_id
        self.host = f"broker{node_id}"
        self.port = 9092
        self.up = True
        self.links = []
        self.stale_md = None   # frozen metadata view (lagging broker) or None
        self.listed_while_down = False   # unreachable, but the controller has not noticed: metadata still lists it as leader

    # listener protocol
    def accept(self, link):
        if not self.up:
            raise ConnectionRefusedError("broker down")
        link.state["node"] = self.node_id
        self.links.append(link)
        return self

    def on_disconnect(self, link):
        if link in self.links:
            self.links.remove(link)
        self.cluster.on_link_closed(self, link)

    def on_frame(self, link, frame):
        self.cluster.handle(self, link, frame)

    def on_frame_queued(self, link, frame):
        self.cluster.frame_queued(self, link, frame)

    def go_down(self):
        self.up = False
        self.incarnation = getattr(self, "incarnation", 0) + 1     # requests still queued inside the broker die with it
        for l in list(self.links):
            l.reset()
        self.links = []

    def come_up(self):
        self.up = True
        self.listed_while_down = False


class SimCluster:
    def __init__(self, net, seed=0, n_brokers=3, versions=None, faults=None):
        self.net = net
        self.rng = random.Random(seed ^ 0x5EED)
        self.brokers = {i: Broker(self, i) for i in range(n_brokers)}
        for b in self.brokers.values():
            net.listen(b.host, b.port, b)
        self.versions = dict(DEFAULT_VERSIONS)
        if versions:
            self.versions.update(versions)
        self.topics = {}       # name -> [PLog]
        self.leaders = {}      # (topic, p) -> node_id
        self.controller = 0
        self.faults = faults or FaultPlan(self.rng)
        self.events = []       # ground-truth event log (dicts)
        self.partial_tail = False     # fetch responses may end with a truncated batch
        self.fetch_one_batch = False  # serve at most one batch per partition per response
        self.md_changes = []   # (time, what)
        self.groups = {}
        self.group_home = {}   # group_id -> node
        self.txn_home = {}     # txn id -> node
        self.txns = {}
        self.next_pid = 1000
        self.pid_table = {}    # pid -> txn_id or None
        self.unauthorized_topics = set()
        self.unauthorized_groups = set()
        self.unauthorized_txn_ids = set()
        self.sasl = None       # optional dict(mechanism=..., users={user: password})
        self.heartbeat_during_sync_ok = True
        self.initial_rebalance_delay = 0.0
        from vf import groupcoord, txncoord  # late import (same package)
        self.gc = groupcoord.GroupCoordinator(self)
        self.tc = txncoord.TxnCoordinator(self)

    # ---------------------------------------------------------------- helpers
    @property
    def loop(self):
        return self.net.loop

    def now(self):
        return self.net.loop.time()

    def bootstrap(self):
        return [f"{b.host}:{b.port}" for b in self.brokers.values()]

    def log(self, kind, **kw):
        kw["kind"] = kind
        kw["t"] = self.now()
        kw["n"] = len(self.events)
        kw["ev"] = getattr(self.net.loop, "events", None)     # index of the loop event during which this happened
        self.events.append(kw)
        return kw

    def create_topic(self, name, partitions=1, ts_type=0, leaders=None):
        self.topics[name] = [PLog(name, p, ts_type) for p in range(partitions)]
        ids = sorted(self.brokers)
        for p in range(partitions):
            self.leaders[(name, p)] = leaders[p] if leaders else ids[(hash_str(name) + p) % len(ids)]
        self.md_changes.append((self.now() if self.net.loop else 0.0, f"create {name}"))

    def add_partitions(self, name, total):
        logs = self.topics[name]
        ids = sorted(self.brokers)
        for p in range(len(logs), total):
            logs.append(PLog(name, p, logs[0].ts_type))
            self.leaders[(name, p)] = ids[(hash_str(name) + p) % len(ids)]
        self.md_changes.append((self.now(), f"add_partitions {name} {total}"))

    def plog(self, topic, p):
        logs = self.topics.get(topic)
        if logs is None or p < 0 or p >= len(logs):
            return None
        return logs[p]

    def move_leader(self, topic, p, node=None):
        cur = self.leaders[(topic, p)]
        if node is None:
            others = [n for n in self.brokers if n != cur and self.brokers[n].up]
            if not others:
                return cur
            node = self.rng.choice(others)
        self.leaders[(topic, p)] = node
        self.md_changes.append((self.now(), f"leader {topic}-{p} {cur}->{node}"))
        self.log("leader_move", topic=topic, partition=p, frm=cur, to=node)
        # parked fetches on the old leader must notice
        self.plog(topic, p).wake()
        return node

    def metadata_view(self):
        return {"leaders": dict(self.leaders), "topics": {t: len(l) for t, l in self.topics.items()},
                "up": {n: (b.up or b.listed_while_down) for n, b in self.brokers.items()}}

    # ---------------------------------------------------------------- connection-level in-flight tap
    def frame_queued(self, broker, link, frame):
        """A frame reached the broker on a connection whose previous request is still unanswered (delayed, or its
        reply will never come).  Two Produce requests carrying the same partition outstanding on ONE open connection
        are two batches of that partition in flight, whatever the client-side bookkeeping says."""
        cur = link.state.get("current")
        if cur is None or cur.get("api") != "Produce" or cur["req"].get("acks") == 0:
            return
        try:
            api_key, version, corr, client_id, off = wire.decode_request_header(frame)
            if api_key != 0:
                return
            req = wire.decode_request_body(api_key, version, frame, off)
        except Exception:  # noqa: BLE001 - judged when the frame is handled
            return
        def parts(r):
            return {(t["name"], p["index"]) for t in r["topic_data"] for p in t["partition_data"]}
        self.stats_queued_produce = getattr(self, "stats_queued_produce", 0) + 1
        both = parts(cur["req"]) & parts(req)
        if both:
            self.log("produce_behind_unanswered_produce", node=broker.node_id, link=link.id, partitions=sorted(both),
                     first_corr=cur["corr"], first_fate=repr(cur["fate"]), first_t=cur["time"], second_corr=corr)

    # ---------------------------------------------------------------- request entry
    def handle(self, broker, link, frame):
        try:
            api_key, version, corr, client_id, off = wire.decode_request_header(frame)
        except Exception as e:
            self.log("bad_header", node=broker.node_id, error=repr(e), frame=frame[:32].hex())
            link.close()
            return
        name = API.get(api_key)
        lo, hi = self.versions.get(api_key, (0, -1))
        if name is None or not (lo <= version <= hi):
            if api_key == 18:
                # ApiVersions with an unsupported version: real brokers answer v0 with UNSUPPORTED_VERSION
                body = wire.encode_response_body(18, 0, {"error_code": UNSUPPORTED_VERSION, "api_keys": self._api_keys()})
                link.send_frame(struct.pack(">i", corr) + body)
                link.done_request()
                return
            self.log("unsupported_request", node=broker.node_id, api_key=api_key, version=version)
            link.close()
            return
        try:
            req = wire.decode_request_body(api_key, version, frame, off)
        except Exception as e:
            self.log("undecodable_request", node=broker.node_id, api=name, version=version, error=repr(e),
                     frame=frame[:64].hex())
            link.close()
            return
        ctx = {"api": name, "api_key": api_key, "version": version, "corr": corr, "client_id": client_id,
               "node": broker.node_id, "link": link, "req": req, "time": self.now(), "broker": broker}
        if link.state.get("sasl_required") and not link.state.get("authenticated") and api_key not in (17, 18, 36):
            self.log("request_before_auth", api=name, node=broker.node_id)
            link.close()
            return
        fate = self.faults.fate(ctx)
        ctx["fate"] = fate
        link.state["current"] = ctx
        ev = self.log("request", api=name, version=version, node=broker.node_id, client_id=client_id,
                      fate=repr(fate) if fate.kind != "ok" else "ok", link=link.id)
        ctx["ev"] = ev
        if fate.kind == "drop_before":
            link.reset()
            return
        if fate.kind == "lose_request":
            return   # connection stays busy: nothing further is answered on it
        if fate.kind == "error":
            resp = self.error_response(ctx, fate.code)
            if resp is not None:
                self.reply(ctx, resp)
                return
        if fate.kind == "delay":
            ctx["incarnation"] = getattr(broker, "incarnation", 0)
            self.net.call_later(fate.delay, self._dispatch, ctx)
            return
        self._dispatch(ctx)

    def _dispatch(self, ctx):
        if ctx["link"].server_gone or ctx["link"].severed:
            # connection vanished while the request was delayed: a real broker would still apply it
            pass
        if "incarnation" in ctx and (ctx["incarnation"] != getattr(ctx["broker"], "incarnation", 0) or not ctx["broker"].up):
            # ... but not one that went down in the meantime: its request queue is gone
            ctx["ev"]["dropped_by_broker_restart"] = True
            return
        h = getattr(self, "h_" + ctx["api"])
        resp = h(ctx)
        if ctx["fate"].kind == "error_after" and resp is not PARKED and resp is not None:
            resp = self.error_response(ctx, ctx["fate"].code)   # applied, but reported as failed
        if resp is PARKED:
            return
        if resp is None:      # no response by protocol (acks=0)
            ctx["link"].done_request()
            return
        self.reply(ctx, resp)

    def reply(self, ctx, resp):
        link = ctx["link"]
        fate = ctx["fate"]
        ctx["ev"]["replied_at"] = self.now()
        ctx["ev"]["resp"] = summarize(ctx["api"], resp)
        if fate.kind == "reset_after":
            link.reset()
            return
        if fate.kind == "lose_reply":
            return
        try:
            schema = wire.SCHEMAS[(ctx["api_key"], ctx["version"])]["response"]
            data = wire.encode_response(ctx["api_key"], ctx["version"], ctx["corr"], prune(schema, resp))
        except Exception as e:  # simulator bug: make it loud
            self.log("SIM_ENCODE_ERROR", api=ctx["api"], error=repr(e))
            raise
        link.send_frame(data)
        link.done_request()

    def on_link_closed(self, broker, link):
        self.gc.on_link_closed(link)

    # ---------------------------------------------------------------- error replies
    def error_response(self, ctx, code):
        api, req = ctx["api"], ctx["req"]
        if api == "Produce":
            if req["acks"] == 0:
                return None
            return {"responses": [{"name": t["name"], "partition_responses": [
                {"index": p["index"], "error_code": code, "base_offset": -1} for p in t["partition_data"]]}
                for t in req["topic_data"]]}
        if api == "Fetch":
            return {"responses": [{"topic": t["topic"], "partitions": [
                {"partition_index": p["partition"], "error_code": code, "high_watermark": -1, "records": None}
                for p in t["partitions"]]} for t in req["topics"]]}
        if api == "ListOffsets":
            return {"topics": [{"name": t["name"], "partitions": [
                {"partition_index": p["partition_index"], "error_code": code, "old_style_offsets": []}
                for p in t["partitions"]]} for t in req["topics"]]}
        if api == "Metadata":
            md = self.h_Metadata(ctx)
            for t in md["topics"]:
                t["error_code"] = code
                t["partitions"] = []
            return md
        if api == "FindCoordinator":
            return {"error_code": code, "node_id": -1, "host": "", "port": -1}
        if api == "JoinGroup":
            return {"error_code": code, "generation_id": -1, "protocol_name": "", "leader": "",
                    "member_id": req["member_id"] if code != MEMBER_ID_REQUIRED else "", "members": []}
        if api == "SyncGroup":
            return {"error_code": code, "assignment": b""}
        if api in ("Heartbeat", "LeaveGroup", "AddOffsetsToTxn", "EndTxn"):
            return {"error_code": code}
        if api in ("OffsetCommit", "TxnOffsetCommit"):
            return {"topics": [{"name": t["name"], "partitions": [
                {"partition_index": p["partition_index"], "error_code": code} for p in t["partitions"]]}
                for t in req["topics"]]}
        if api == "OffsetFetch":
            if ctx["version"] >= 2:
                return {"topics": [], "error_code": code}
            return {"topics": [{"name": t["name"], "partitions": [
                {"partition_index": p, "committed_offset": -1, "metadata": "", "error_code": code}
                for p in t["partition_indexes"]]} for t in (req["topics"] or [])]}
        if api == "InitProducerId":
            return {"error_code": code, "producer_id": -1, "producer_epoch": -1}
        if api == "AddPartitionsToTxn":
            return {"results": [{"name": t["name"], "results": [
                {"partition_index": p, "error_code": code} for p in t["partitions"]]} for t in req["topics"]]}
        return None

    # ---------------------------------------------------------------- ApiVersions / SASL / Metadata
    def _api_keys(self):
        return [{"api_key": k, "min_version": lo, "max_version": hi} for k, (lo, hi) in sorted(self.versions.items())]

    def h_ApiVersions(self, ctx):
        return {"error_code": 0, "api_keys": self._api_keys()}

    def h_SaslHandshake(self, ctx):
        mech = ctx["req"]["mechanism"]
        enabled = [self.sasl["mechanism"]] if self.sasl else []
        if mech not in enabled:
            return {"error_code": 33, "mechanisms": enabled}
        ctx["link"].state["sasl_mech"] = mech
        return {"error_code": 0, "mechanisms": enabled}

    def h_SaslAuthenticate(self, ctx):
        from vf import saslserver
        return saslserver.authenticate(self, ctx)

    def h_Metadata(self, ctx):
        req, v = ctx["req"], ctx["version"]
        broker = ctx["broker"]
        view = broker.stale_md or self.metadata_view()
        names = req.get("topics")
        if names is None or (v == 0 and not names):
            wanted = sorted(view["topics"])
        else:
            wanted = [t["name"] for t in names]
        topics = []
        for name in wanted:
            if name in self.unauthorized_topics:
                topics.append({"error_code": TOPIC_AUTHORIZATION_FAILED, "name": name, "partitions": []})
                continue
            n = view["topics"].get(name)
            if n is None:
                topics.append({"error_code": UNKNOWN_TOPIC_OR_PARTITION, "name": name, "partitions": []})
                continue
            parts = []
            for p in range(n):
                leader = view["leaders"][(name, p)]
                err = 0
                if not view["up"].get(leader, False):
                    leader, err = -1, LEADER_NOT_AVAILABLE
                parts.append({"error_code": err, "partition_index": p, "leader_id": leader,
                              "replica_nodes": sorted(self.brokers), "isr_nodes": sorted(self.brokers),
                              "offline_replicas": []})
            topics.append({"error_code": 0, "name": name, "is_internal": False, "partitions": parts})
        brokers = [{"node_id": b.node_id, "host": b.host, "port": b.port, "rack": None}
                   for b in self.brokers.values() if view["up"].get(b.node_id, False)]
        return {"brokers": brokers, "cluster_id": "simcluster", "controller_id": self.controller, "topics": topics}

    # ---------------------------------------------------------------- Produce
    def h_Produce(self, ctx):
        req, v = ctx["req"], ctx["version"]
        acks = req["acks"]
        out = []
        for t in req["topic_data"]:
            prs = []
            for pd in t["partition_data"]:
                prs.append(self._produce_one(ctx, t["name"], pd["index"], pd["records"], req.get("transactional_id")))
            out.append({"name": t["name"], "partition_responses": prs})
        if acks == 0:
            return None
        return {"responses": out}

    def _produce_one(self, ctx, topic, p, payload, txn_id):
        node = ctx["node"]
        arrival = self.log("produce_arrival", node=node, topic=topic, partition=p, version=ctx["version"],
                           acks=ctx["req"]["acks"], txn_id=txn_id, link=ctx["link"].id)

        def done(code, base=-1, lat=-1, note=None):
            arrival["error"] = code
            arrival["base_offset"] = base
            if note:
                arrival["note"] = note
            pl = self.plog(topic, p)
            return {"index": p, "error_code": code, "base_offset": base, "log_append_time_ms": lat,
                    "log_start_offset": pl.log_start if pl and code == 0 else -1}

        if topic in self.unauthorized_topics:
            return done(TOPIC_AUTHORIZATION_FAILED)
        pl = self.plog(topic, p)
        if pl is None:
            return done(UNKNOWN_TOPIC_OR_PARTITION)
        if self.leaders[(topic, p)] != node:
            return done(NOT_LEADER_FOR_PARTITION)
        if payload is None:
            return done(CORRUPT_MESSAGE, note="null records")
        try:
            views = rr.parse_batches(payload)
            problems = rr.validate_buffer(payload)
        except Exception as e:
            arrival["parse_error"] = repr(e)
            return done(CORRUPT_MESSAGE, note="unparsable")
        arrival["batches"] = [{"magic": b.magic, "pid": b.pid, "epoch": b.epoch, "base_seq": b.base_seq,
                               "count": len(b.records), "transactional": b.is_transactional, "control": b.is_control,
                               "codec": b.codec, "crc_ok": b.crc_ok,
                               "uids": [uid_of(r.value) for r in b.records]} for b in views]
        if problems or not views:
            arrival["problems"] = problems[:5]
            return done(CORRUPT_MESSAGE, note="invalid batch")
        # idempotence / transactional checks on v2 batches (one batch per partition per request in practice)
        b0 = views[0]
        total = sum(len(b.records) for b in views)
        if b0.magic == 2 and b0.pid >= 0:
            st = pl.producers.get(b0.pid)
            last_seq = seq_add(b0.base_seq, (b0.last_offset_delta if b0.last_offset_delta is not None else total - 1))
            arrival["expected_seq"] = None if st is None else seq_add(st.last_seq, 1) if st.last_seq >= 0 else 0
            if st is None:
                st = ProducerState()
                st.epoch = b0.epoch
                if b0.base_seq != 0:
                    arrival["seq_verdict"] = "gap_unknown_producer"
                    return done(OUT_OF_ORDER_SEQUENCE_NUMBER)
                pl.producers[b0.pid] = st
            if b0.epoch < st.epoch:
                arrival["seq_verdict"] = "stale_epoch"
                return done(INVALID_PRODUCER_EPOCH)
            if b0.epoch > st.epoch:
                if b0.base_seq != 0:
                    arrival["seq_verdict"] = "gap_new_epoch"
                    return done(OUT_OF_ORDER_SEQUENCE_NUMBER)
                st.epoch = b0.epoch
                st.last_seq = -1
                st.cache = []
            else:
                for (bs, ls, bo, lo_, lat_) in st.cache:
                    if bs == b0.base_seq and ls == last_seq:
                        arrival["seq_verdict"] = "duplicate_cached"
                        return done(0, bo, lat_)
                expected = 0 if st.last_seq < 0 else seq_add(st.last_seq, 1)
                if b0.base_seq != expected:
                    older = any(c[0] == b0.base_seq for c in st.cache) or self._seq_older(b0.base_seq, st)
                    arrival["seq_verdict"] = "duplicate_old" if older else "gap"
                    return done(DUPLICATE_SEQUENCE_NUMBER if older else OUT_OF_ORDER_SEQUENCE_NUMBER)
            arrival["seq_verdict"] = "in_sequence"
        if b0.magic == 2 and b0.is_transactional:
            arrival["txn_ongoing_for_partition"] = self.tc.partition_in_ongoing_txn(b0.pid, b0.epoch, topic, p)
        lat = int((self.now() + self.net.loop.clock.wall_offset) * 1000) if pl.ts_type == 1 else None
        new_raw, nxt, n = rr.assign_offsets(payload, pl.leo, lat)
        base = pl.leo
        pl.append_raw(new_raw, self.now(), arrival["n"])
        if b0.magic == 2 and b0.pid >= 0:
            st = pl.producers[b0.pid]
            st.last_seq = last_seq
            st.cache.append((b0.base_seq, last_seq, base, nxt - 1, lat if lat is not None else -1))
            st.cache = st.cache[-5:]
        arrival["appended"] = True
        return done(0, base, lat if lat is not None else -1)

    @staticmethod
    def _seq_older(seq, st):
        # "older" = within the window of sequences already consumed (no wrap handling needed for the verdict text)
        return st.last_seq >= 0 and 0 <= seq <= st.last_seq

    # ---------------------------------------------------------------- Fetch
    def h_Fetch(self, ctx):
        req = ctx["req"]
        resp = self._fetch_build(ctx)
        has_data = any(p["records"] for t in resp["responses"] for p in t["partitions"])
        has_err = any(p["error_code"] for t in resp["responses"] for p in t["partitions"])
        if has_data or has_err or req["max_wait_ms"] <= 0 or req.get("min_bytes", 1) <= 0:
            return self._fetch_log(ctx, resp)
        # long poll
        state = {"done": False}
        link = ctx["link"]

        def finish():
            if state["done"]:
                return
            state["done"] = True
            timer.cancel()
            for pl in parked_on:
                if wakeup in pl.waiters:
                    pl.waiters.remove(wakeup)
            if link.server_gone or link.severed:
                return
            self.reply(ctx, self._fetch_log(ctx, self._fetch_build(ctx)))

        def wakeup():
            self.net.call_later(0.0, finish)

        parked_on = []
        for t in req["topics"]:
            for p in t["partitions"]:
                pl = self.plog(t["topic"], p["partition"])
                if pl is not None:
                    pl.waiters.append(wakeup)
                    parked_on.append(pl)
        timer = self.net.call_later(req["max_wait_ms"] / 1000.0, finish)
        return PARKED

    def _fetch_log(self, ctx, resp):
        for t in resp["responses"]:
            for p in t["partitions"]:
                self.log("fetch_reply", node=ctx["node"], topic=t["topic"], partition=p["partition_index"],
                         error=p["error_code"], fetch_offset=p.pop("_fetch_offset", None),
                         n_bytes=len(p["records"] or b""), batches=p.pop("_batches", []), hw=p["high_watermark"],
                         lso=p.get("last_stable_offset"), isolation=ctx["req"].get("isolation_level", 0),
                         client_id=ctx["client_id"], req_n=ctx["ev"]["n"])
        return resp

    def _fetch_build(self, ctx):
        req = ctx["req"]
        iso = req.get("isolation_level", 0)
        budget = req.get("max_bytes", 0x7FFFFFFF)
        out = []
        first = True
        for t in req["topics"]:
            parts = []
            for p in t["partitions"]:
                r = self._fetch_one(ctx, t["topic"], p["partition"], p["fetch_offset"], p["partition_max_bytes"], iso,
                                    budget, first)
                if r["records"]:
                    budget -= len(r["records"])
                    first = False
                parts.append(r)
            out.append({"topic": t["topic"], "partitions": parts})
        return {"error_code": 0, "session_id": 0, "responses": out}

    def _fetch_one(self, ctx, topic, p, offset, pmax, iso, budget, first):
        def res(code, pl=None, records=None, aborted=None, batches=()):
            return {"partition_index": p, "error_code": code, "high_watermark": pl.hw if pl else -1,
                    "last_stable_offset": pl.lso if pl else -1, "log_start_offset": pl.log_start if pl else -1,
                    "aborted_transactions": aborted, "records": records, "_fetch_offset": offset,
                    "_batches": list(batches)}
        if topic in self.unauthorized_topics:
            return res(TOPIC_AUTHORIZATION_FAILED)
        pl = self.plog(topic, p)
        if pl is None:
            return res(UNKNOWN_TOPIC_OR_PARTITION)
        if self.leaders[(topic, p)] != ctx["node"]:
            return res(NOT_LEADER_FOR_PARTITION)
        if offset < pl.log_start or offset > pl.leo:
            return res(OFFSET_OUT_OF_RANGE, pl)
        bound = pl.lso if iso == 1 else pl.hw
        chosen, size = [], 0
        limit = min(pmax, max(budget, 0))
        tail = None
        for sb in pl.batches:
            if sb.last < offset or sb.last < pl.log_start:
                continue
            if sb.last >= bound:
                break
            n = len(sb.raw)
            if chosen and (size + n > limit or self.fetch_one_batch):
                if self.partial_tail and size < limit and not self.fetch_one_batch:
                    tail = sb.raw[: max(1, min(n - 1, limit - size))]
                break
            if not chosen and n > limit and not first and budget <= 0:
                break
            chosen.append(sb)
            size += n
        if not chosen:
            return res(0, pl, b"", [] if iso == 1 else None)
        data = b"".join(sb.raw for sb in chosen) + (tail or b"")
        aborted = None
        if iso == 1:
            lo, hi = offset, chosen[-1].last
            aborted = [{"producer_id": pid, "first_offset": f} for (pid, f, m) in pl.aborted if m >= lo and f <= hi]
        return res(0, pl, data, aborted, [(sb.base, sb.last) for sb in chosen])

    # ---------------------------------------------------------------- ListOffsets
    def h_ListOffsets(self, ctx):
        req, v = ctx["req"], ctx["version"]
        iso = req.get("isolation_level", 0)
        out = []
        for t in req["topics"]:
            parts = []
            for p in t["partitions"]:
                idx, ts = p["partition_index"], p["timestamp"]
                pl = self.plog(t["name"], idx)
                code, off, rts = 0, -1, -1
                if t["name"] in self.unauthorized_topics:
                    code = TOPIC_AUTHORIZATION_FAILED
                elif pl is None:
                    code = UNKNOWN_TOPIC_OR_PARTITION
                elif self.leaders[(t["name"], idx)] != ctx["node"]:
                    code = NOT_LEADER_FOR_PARTITION
                elif ts == -2:
                    off = pl.log_start
                elif ts == -1:
                    off = pl.lso if iso == 1 else pl.hw
                else:
                    bound = pl.lso if iso == 1 else pl.hw
                    for sb in pl.batches:
                        for r in sb.view.records:
                            rt = r.timestamp if r.timestamp is not None else -1
                            if not sb.view.is_control and pl.log_start <= r.offset < bound and rt >= ts:
                                off, rts = r.offset, rt
                                break
                        if off >= 0:
                            break
                self.log("list_offsets_reply", node=ctx["node"], topic=t["name"], partition=idx, timestamp=ts,
                         isolation=iso, version=v, error=code, offset=off, client_id=ctx["client_id"],
                         hw=pl.hw if pl else None, lso=pl.lso if pl else None, log_start=pl.log_start if pl else None)
                parts.append({"partition_index": idx, "error_code": code,
                              "old_style_offsets": [off] if (code == 0 and off >= 0) else [],
                              "timestamp": rts, "offset": off})
            out.append({"name": t["name"], "partitions": parts})
        return {"topics": out}

    # ---------------------------------------------------------------- coordinators (delegated)
    def coordinator_for(self, key, key_type):
        table = self.group_home if key_type == 0 else self.txn_home
        if key not in table:
            ids = sorted(self.brokers)
            table[key] = ids[hash_str(key) % len(ids)]
        return table[key]

    def h_FindCoordinator(self, ctx):
        req = ctx["req"]
        kt = req.get("key_type", 0)
        key = req["key"]
        if kt == 0 and key in self.unauthorized_groups:
            return {"error_code": GROUP_AUTHORIZATION_FAILED, "node_id": -1, "host": "", "port": -1}
        if kt == 1 and key in self.unauthorized_txn_ids:
            return {"error_code": TRANSACTIONAL_ID_AUTHORIZATION_FAILED, "node_id": -1, "host": "", "port": -1}
        node = self.coordinator_for(key, kt)
        b = self.brokers[node]
        if not b.up:
            return {"error_code": COORDINATOR_NOT_AVAILABLE, "node_id": -1, "host": "", "port": -1}
        return {"error_code": 0, "node_id": node, "host": b.host, "port": b.port}

    def move_coordinator(self, key, key_type=0, node=None, with_state=True):
        cur = self.coordinator_for(key, key_type)
        if node is None:
            others = [n for n in self.brokers if n != cur and self.brokers[n].up]
            if not others:
                return cur
            node = self.rng.choice(others)
        (self.group_home if key_type == 0 else self.txn_home)[key] = node
        self.log("coordinator_move", key=key, key_type=key_type, frm=cur, to=node, with_state=with_state)
        if key_type == 0:
            self.gc.on_moved(key, with_state)
        return node

    def h_JoinGroup(self, ctx):
        return self.gc.join(ctx)

    def h_SyncGroup(self, ctx):
        return self.gc.sync(ctx)

    def h_Heartbeat(self, ctx):
        return self.gc.heartbeat(ctx)

    def h_LeaveGroup(self, ctx):
        return self.gc.leave(ctx)

    def h_OffsetCommit(self, ctx):
        return self.gc.offset_commit(ctx)

    def h_OffsetFetch(self, ctx):
        return self.gc.offset_fetch(ctx)

    def h_InitProducerId(self, ctx):
        return self.tc.init_pid(ctx)

    def h_AddPartitionsToTxn(self, ctx):
        return self.tc.add_partitions(ctx)

    def h_AddOffsetsToTxn(self, ctx):
        return self.tc.add_offsets(ctx)

    def h_EndTxn(self, ctx):
        return self.tc.end_txn(ctx)

    def h_TxnOffsetCommit(self, ctx):
        return self.gc.txn_offset_commit(ctx)


def prune(schema, value):
    """Drop dict keys the schema of this version does not have (handlers write version-agnostic dicts)."""
    if not isinstance(value, dict):
        return value
    out = {}
    for name, t, _d in schema:
        if name not in value:
            continue
        v = value[name]
        if isinstance(t, tuple) and t[0] == "struct":
            v = prune(t[1], v)
        elif isinstance(t, tuple) and t[0] == "array" and v is not None:
            et = t[1]
            if isinstance(et, tuple) and et[0] == "struct":
                v = [prune(et[1], x) for x in v]
        out[name] = v
    return out


def hash_str(s):
    h = 0
    for ch in s.encode():
        h = (h * 31 + ch) & 0x7FFFFFFF
    return h


def uid_of(value):
    """Harness convention: record values start with b'uid:<id>|'."""
    if value is None or not value.startswith(b"uid:"):
        return None
    end = value.find(b"|")
    return value[4:end if end >= 0 else None].decode("latin1")


def summarize(api, resp):
    try:
        if api == "Produce":
            return [(t["name"], p["index"], p["error_code"], p["base_offset"]) for t in resp["responses"]
                    for p in t["partition_responses"]]
        if api == "Fetch":
            return [(t["topic"], p["partition_index"], p["error_code"], len(p["records"] or b"")) for t in resp["responses"]
                    for p in t["partitions"]]
        if "error_code" in resp:
            d = {k: v for k, v in resp.items() if k in ("error_code", "generation_id", "member_id", "leader",
                                                          "protocol_name", "node_id", "producer_id", "producer_epoch")}
            return d
        if api in ("OffsetCommit", "TxnOffsetCommit"):
            return [(t["name"], p["partition_index"], p["error_code"]) for t in resp["topics"] for p in t["partitions"]]
        if api == "AddPartitionsToTxn":
            return [(t["name"], p["partition_index"], p["error_code"]) for t in resp["results"] for p in t["results"]]
    except Exception:
        pass
    return None
