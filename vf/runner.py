"""Tier runner: shards -> subprocess workers -> merged verdict -> evidence file.

Property modules live in vf/props/cXX.py and define:

  PROPERTY_ID   "C01"
  LEVEL         one of the evidence levels ("exploration", "fault_enumeration", ...)
  RULE          text: how cases are generated and what makes one distinct/non-trivial
  ASSUMPTIONS   list[str]
  REQUIRED_COUNTERS  list[str]: counters that must be > 0 for a "held" verdict
  def shards(tier: str, seed: int) -> list[dict]       JSON-able shard parameters
  def run_shard(params: dict) -> dict                  runs in a fresh interpreter (vf.worker)
  optional: def prepare(tier, seed, scratch_dir) -> dict   merged into every shard's params
  optional: def replay(witness: dict) -> dict              re-run one case; same result shape
  optional: def finalize(merged: dict, tier: str) -> None  may add coverage keys / inconclusive

run_shard result shape (all keys optional except evaluations):
  evaluations: int
  nontrivial: [str]      signatures of the non-trivial cases (distinct ones are counted)
  violations: [{"mechanism": str, "what": str, "witness": {...}}]
  inconclusive: [str]
  counters: {name: int}  summed over shards
  sets: {name: [str]}    unioned over shards
  samples: [...]         a few cases written out
"""
from __future__ import annotations

import argparse
import concurrent.futures
import hashlib
import importlib
import json
import os
import shutil
import subprocess
import sys
import tempfile
import time

HERE = os.path.dirname(os.path.dirname(os.path.abspath(__file__)))
# mutation self-tests (tools/seeded_matrix.py) point this elsewhere so that they never touch the real evidence
EVIDENCE_DIR = os.environ.get("VERIF_EVIDENCE_DIR") or os.path.join(HERE, "evidence")
REPLAY_DIR = os.path.join(EVIDENCE_DIR, "replays")
KNOWN_FILE = os.path.join(HERE, "known_findings.json")
PY = "/venv/bin/python"
MAX_WORKERS = int(os.environ.get("VERIF_JOBS", "16"))


def ensure_deps() -> None:
    if not os.path.isdir(os.path.join(HERE, ".deps", "icontract")):
        subprocess.run([os.path.join(HERE, "setup.sh")], check=False)


def sig(obj) -> str:
    return hashlib.sha1(json.dumps(obj, sort_keys=True, default=str).encode()).hexdigest()[:16]


def load_known(prop_id: str):
    try:
        with open(KNOWN_FILE) as f:
            data = json.load(f)
    except FileNotFoundError:
        return {}
    return {e["mechanism"]: e for e in data.get("known", []) if e["property"] == prop_id}


def worker_env(extra=None):
    env = dict(os.environ)
    env["PYTHONHASHSEED"] = "0"
    env["PYTHONPATH"] = HERE + os.pathsep + os.path.join(HERE, ".deps")
    env.setdefault("PYTHONDONTWRITEBYTECODE", "1")
    if extra:
        env.update(extra)
    return env


def _run_one(prop_id, idx, params, scratch):
    pfile = os.path.join(scratch, f"shard{idx}.in.json")
    ofile = os.path.join(scratch, f"shard{idx}.out.json")
    with open(pfile, "w") as f:
        json.dump(params, f)
    timeout = params.get("timeout_s", 3600)
    t0 = time.time()
    try:
        cp = subprocess.run(
            [PY, "-m", "vf.worker", prop_id, pfile, ofile],
            cwd=HERE, env=worker_env(params.get("env")), timeout=timeout,
            stdout=subprocess.PIPE, stderr=subprocess.STDOUT,
        )
        out = cp.stdout.decode(errors="replace")
        rc = cp.returncode
    except subprocess.TimeoutExpired as e:
        out = (e.stdout or b"").decode(errors="replace")
        rc = "timeout"
    res = None
    if os.path.exists(ofile):
        try:
            with open(ofile) as f:
                res = json.load(f)
        except Exception:
            res = None
    if res is None:
        res = {"evaluations": 0,
               "inconclusive": [f"shard {idx} produced no result (rc={rc}); output tail: {out[-1500:]}"]}
    res["_wall"] = time.time() - t0
    res["_idx"] = idx
    return res


def merge(results):
    m = {"evaluations": 0, "nontrivial": set(), "violations": [], "inconclusive": [],
         "counters": {}, "sets": {}, "samples": []}
    for r in sorted(results, key=lambda r: r.get("_idx", 0)):
        m["evaluations"] += int(r.get("evaluations", 0))
        m["nontrivial"].update(r.get("nontrivial", []))
        m["violations"].extend(r.get("violations", []))
        m["inconclusive"].extend(r.get("inconclusive", []))
        for k, v in r.get("counters", {}).items():
            if k.startswith("max_"):
                m["counters"][k] = max(m["counters"].get(k, 0), v)
            else:
                m["counters"][k] = m["counters"].get(k, 0) + v
        for k, v in r.get("sets", {}).items():
            m["sets"].setdefault(k, set()).update(v)
        if len(m["samples"]) < 6:
            m["samples"].extend(r.get("samples", [])[: 6 - len(m["samples"])])
    return m


def write_evidence(mod, tier, seed, merged, wall, verdict, known_hits, new_viol):
    os.makedirs(EVIDENCE_DIR, exist_ok=True)
    cov = {
        "evaluations": merged["evaluations"],
        "distinct_nontrivial": len(merged["nontrivial"]),
        "rule": mod.RULE,
        "samples": merged["samples"] or ["(no sample recorded)"],
        "counters": dict(sorted(merged["counters"].items())),
        "sets": {k: sorted(v) for k, v in sorted(merged["sets"].items())},
        "verdict": verdict,
        "inconclusive_reasons": merged["inconclusive"][:20],
        "known_findings_observed": known_hits,
        "violation_mechanisms": sorted({v["mechanism"] for v in new_viol}),
    }
    for k, v in merged.get("extra_coverage", {}).items():
        cov[k] = v
    ev = {
        "property_id": mod.PROPERTY_ID,
        "tier": tier,
        "seed": seed,
        "level": mod.LEVEL,
        "coverage": cov,
        "assumptions": list(getattr(mod, "ASSUMPTIONS", [])),
        "wall_s": round(wall, 2),
        "violations": len(new_viol),
    }
    path = os.path.join(EVIDENCE_DIR, f"{mod.PROPERTY_ID}.json")
    tmp = path + ".tmp"
    with open(tmp, "w") as f:
        json.dump(ev, f, indent=1, sort_keys=True, default=str)
        f.write("\n")
    os.replace(tmp, path)
    return path


def conclude(mod, tier, seed, merged, t0):
    prop_id = mod.PROPERTY_ID
    known = load_known(prop_id)
    known_hits = {}
    new_viol = []
    for v in merged["violations"]:
        if v["mechanism"] in known:
            known_hits[v["mechanism"]] = known_hits.get(v["mechanism"], 0) + 1
        else:
            new_viol.append(v)
    for req in getattr(mod, "REQUIRED_COUNTERS", []):
        if merged["counters"].get(req, 0) <= 0:
            merged["inconclusive"].append(f"required counter {req!r} is 0: deciding monitor/mechanism never reached")
    if hasattr(mod, "finalize"):
        mod.finalize(merged, tier)
    if new_viol:
        verdict = "violated"
    elif merged["inconclusive"]:
        verdict = "inconclusive"
    else:
        verdict = "held"
    wall = time.time() - t0
    write_evidence(mod, tier, seed, merged, wall, verdict, known_hits, new_viol)
    for mech, n in sorted(known_hits.items()):
        print(f"KNOWN-FINDING: property={prop_id} {known[mech]['what']} [mechanism={mech}, observed {n}x]")
    if new_viol:
        os.makedirs(REPLAY_DIR, exist_ok=True)
        seen = set()
        n = 0
        for v in new_viol:
            if v["mechanism"] in seen and n >= 5:
                continue
            seen.add(v["mechanism"])
            path = os.path.join(REPLAY_DIR, f"{prop_id}-{seed}-{n}.json")
            with open(path, "w") as f:
                json.dump(v, f, indent=1, default=str)
            print(f"VIOLATION property={prop_id} replay={path}")
            print(f"  mechanism={v['mechanism']} what={v['what'][:400]}")
            n += 1
            if n >= 12:
                break
        print(f"{prop_id}: VIOLATED ({len(new_viol)} violating cases, "
              f"{len({v['mechanism'] for v in new_viol})} mechanisms) in {wall:.1f}s")
        return 1
    if verdict == "inconclusive":
        for r in merged["inconclusive"][:10]:
            print(f"INCONCLUSIVE property={prop_id} {r[:600]}")
        return 2
    print(f"{prop_id}: held on {merged['evaluations']} evaluations "
          f"({len(merged['nontrivial'])} distinct non-trivial) tier={tier} seed={seed} in {wall:.1f}s")
    return 0


def main(argv=None):
    ap = argparse.ArgumentParser()
    ap.add_argument("prop")
    ap.add_argument("--tier", default=os.environ.get("VERIF_TIER", "quick"), choices=["quick", "thorough"])
    ap.add_argument("--replay")
    ap.add_argument("--seed", type=int, default=None)
    ap.add_argument("--inline", action="store_true", help="run shards in-process (debugging)")
    args = ap.parse_args(argv)
    seed = args.seed if args.seed is not None else int(os.environ.get("VERIF_SEED", "0") or 0)
    ensure_deps()
    sys.path.insert(0, os.path.join(HERE, ".deps"))
    prop_id = args.prop.upper()
    mod = importlib.import_module(f"vf.props.{prop_id.lower()}")
    t0 = time.time()
    if args.replay:
        with open(args.replay) as f:
            v = json.load(f)
        res = mod.replay(v["witness"]) if hasattr(mod, "replay") else mod.run_shard(v["witness"]["shard"])
        viol = res.get("violations", [])
        for x in viol:
            print(f"VIOLATION property={prop_id} replay={args.replay}")
            print(f"  mechanism={x['mechanism']} what={x['what'][:2000]}")
        if not viol:
            print(f"{prop_id}: replay produced no violation")
        return 1 if viol else 0
    scratch = tempfile.mkdtemp(prefix=f"vf-{prop_id}-")
    try:
        common = mod.prepare(args.tier, seed, scratch) if hasattr(mod, "prepare") else {}
        shard_params = mod.shards(args.tier, seed)
        corpus = os.path.join(HERE, "vf", "props", "corpus", f"{prop_id}.json")
        if os.path.exists(corpus) and hasattr(mod, "replay"):
            # regression corpus: histories that exposed a seeded change once are replayed on every run, so that catching
            # it does not depend on what the random generators happen to produce after they have been extended
            shard_params.append({"corpus_file": corpus, "timeout_s": 3300})
        for p in shard_params:
            p.update(common or {})
            p.setdefault("tier", args.tier)
        results = []
        if args.inline:
            for i, p in enumerate(shard_params):
                r = mod.run_shard(p)
                r["_idx"] = i
                results.append(r)
        else:
            with concurrent.futures.ThreadPoolExecutor(max_workers=MAX_WORKERS) as ex:
                futs = [ex.submit(_run_one, prop_id, i, p, scratch) for i, p in enumerate(shard_params)]
                for f in futs:
                    results.append(f.result())
        merged = merge(results)
        merged["counters"]["shards"] = len(shard_params)
        return conclude(mod, args.tier, seed, merged, t0)
    finally:
        shutil.rmtree(scratch, ignore_errors=True)


if __name__ == "__main__":
    sys.exit(main())
