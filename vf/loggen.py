"""Seeded generators of partition logs (built with the independent reference encoder)."""
from __future__ import annotations

from vf import refrecords as rr


def gen_log(rng, n_batches=12, magics=(2,), txn=False, compaction=True, codecs=(0, 1, 2, 3, 4), uid_prefix="r",
            base_ts=1_650_000_000_000, leave_open=True, empty_batches=True):
    """-> list of raw top-level batch byte strings with consecutive, already assigned offsets.
    Record values are b'uid:<prefix><offset>|...' so that every record is identifiable."""
    out = []
    off = 0
    pids = [7000 + i for i in range(rng.choice([1, 2, 3, 4]))] if txn else []
    open_txn = {}   # pid -> True while it has an unfinished transaction
    seqs = {}

    def val(o):
        return b"uid:%s%d|" % (uid_prefix.encode(), o) + b"p" * rng.choice([0, 3, 20, 90])

    for _ in range(n_batches):
        magic = rng.choice(magics)
        n = rng.choice([1, 1, 2, 3, 5])
        kind = "plain"
        if txn and magic == 2:
            kind = rng.choice(["plain", "txn", "txn", "marker", "marker"])
        if kind == "marker":
            cands = [p for p in pids if open_txn.get(p)]
            solitary = not cands and rng.random() < 0.3
            if not cands and not solitary:
                kind = "txn"
            else:
                pid = rng.choice(cands) if cands else rng.choice(pids)
                commit = rng.random() < 0.5 if cands else False
                out.append(rr.encode_control_batch(off, pid, 0, commit, base_ts + off))
                open_txn[pid] = False
                off += 1
                continue
        if magic == 2:
            keep = list(range(n))
            last_delta = n - 1
            if compaction and n > 1 and rng.random() < 0.35:
                drop = rng.sample(range(n), rng.randint(1, n - 1))
                keep = [i for i in range(n) if i not in drop]
            recs = [(i, base_ts + off + i - rng.choice([0, 0, 5000]), rng.choice([None, b"k"]), val(off + i),
                     [] if rng.random() < 0.8 else [("h", b"x")]) for i in keep]
            kw = {}
            if empty_batches and compaction and rng.random() < 0.08:
                recs = []
                kw = {"record_count": 0, "first_timestamp": base_ts, "max_timestamp": base_ts}
            pid, seq = -1, -1
            if kind == "txn":
                pid = rng.choice(pids)
                seq = seqs.get(pid, 0)
                seqs[pid] = seq + n
                open_txn[pid] = True
            codec = rng.choice(codecs) if recs else 0
            out.append(rr.encode_batch_v2(recs, base_offset=off, codec=codec, pid=pid, epoch=0 if pid >= 0 else -1,
                                          base_seq=seq, transactional=(kind == "txn"), last_offset_delta=last_delta, **kw))
            off += n
        else:
            codec = rng.choice([c for c in codecs if c in (0, 1, 2, 3)] or [0])
            if magic == 0 and codec == 3:
                codec = 1   # lz4 with v0 uses the broken kafka framing; keep to codecs all decoders agree on
            if codec:
                recs = [(None, base_ts + off + i, rng.choice([None, b"k"]), val(off + i)) for i in range(n)]
                out.append(rr.encode_message_set(recs, magic, codec=codec, base_offset=off))
                off += n
            else:
                keep = list(range(n))
                if compaction and n > 1 and rng.random() < 0.3:
                    drop = rng.sample(range(n), rng.randint(1, n - 1))
                    keep = [i for i in range(n) if i not in drop]
                for i in keep:
                    out.append(rr.encode_message(off + i, magic, base_ts + off + i, rng.choice([None, b"k"]), val(off + i)))
                off += n
    if txn and not leave_open:
        for pid in pids:
            if open_txn.get(pid):
                out.append(rr.encode_control_batch(off, pid, 0, rng.random() < 0.5, base_ts + off))
                off += 1
    return out
