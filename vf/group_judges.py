"""Offline checkers over vf.group_sim histories: C05 (ownership / silence / barrier), C04 (commit safety /
at-least-once), C06 (JoinGroup contents, Join->Sync succession, bounded convergence).

Every judge returns (violations, stats); a violation is (mechanism, what, detail-dict)."""
from __future__ import annotations

import bisect

from vf import group_sim as G


def _vis(H):
    return {tp: [o for o, _u in t["visible"]] for tp, t in H["truth"].items()}


def _next_visible(voff, c):
    i = bisect.bisect_left(voff, c)
    return voff[i] if i < len(voff) else None


def _tpk(tp):
    return f"{tp[0]}:{tp[1]}"


def _offset_fetch_values(H):
    """client_id -> [(t, {tpkey: offset})] successful OffsetFetch replies that were actually delivered to the
    client (a reply that was processed but lost / cut off by an injected fate told the client nothing)."""
    undelivered = {f["n"] for f in H["faulted_requests"] if f["api"] == "OffsetFetch" and not f["fate"].startswith("Fate(delay")}
    out = {}
    for e in H["group"]:
        if e["op"] == "OffsetFetch" and e.get("error") == 0 and e.get("req_n") not in undelivered:
            out.setdefault(e["client_id"], []).append((e["t"], e.get("offsets") or {}))
    return out


def _stored_offset_at(H, tpk, t):
    """The offset the coordinator had stored for tpk at time t (initial offsets, then every accepted OffsetCommit)."""
    cur = (H.get("initial_committed") or {}).get(tpk, -1)
    for e in H["group"]:
        if e["t"] > t + 1e-9:
            break
        if e["op"] == "OffsetCommit" and e.get("error") == 0:
            v = (e.get("offsets") or {}).get(tpk)
            if v is not None and v[1] == 0:
                cur = v[0]
    return cur


# ==================================================================================================
# C05
# ==================================================================================================

def judge_c05(H):
    V = []
    st = {"generations_checked": 0, "assignments_checked": 0, "assigned_callbacks_checked": 0, "deliveries_checked": 0,
          "periods_checked": 0, "period_starts_checked": 0, "barriers_checked": 0, "rebalances_with_deliveries_in_flight": 0,
          "revocations_with_partitions": 0, "members_in_barriers": 0}
    # ---- (1) per generation: disjoint, within advertised topics
    for ent in H["ledger"]:
        if ent["synced_at"] is None:
            continue
        st["generations_checked"] += 1
        seen = {}
        for mid, asg in ent["assignments"].items():
            if isinstance(asg, dict):
                V.append(("assignment_undecodable", f"generation {ent['generation']}: assignment sent to {mid} cannot be decoded: {asg}",
                          {"generation": ent["generation"]}))
                continue
            st["assignments_checked"] += 1
            sub = ent["members"].get(mid) or {}
            topics = set(sub.get("topics") or [])
            for tp in asg:
                tp = tuple(tp)
                if tp in seen:
                    V.append(("partition_assigned_to_two_members_in_one_generation",
                              f"generation {ent['generation']}: {tp} sent to both {seen[tp]} and {mid}",
                              {"generation": ent["generation"], "assignments": ent["assignments"]}))
                seen[tp] = mid
                if tp[0] not in topics:
                    V.append(("assignment_outside_members_subscription",
                              f"generation {ent['generation']}: {mid} advertised {sorted(topics)} but was sent {tp}",
                              {"generation": ent["generation"], "member": mid}))
        if ent.get("extra_assignees"):
            V.append(("assignment_for_non_member", f"generation {ent['generation']}: leader sent assignments for non-members "
                      f"{ent['extra_assignees']}", {"generation": ent["generation"]}))
    # ---- (2) adoption: callback argument == assignment() snapshot == what SyncGroup delivered
    sync_ok = {}
    for e in H["group"]:
        if e["op"] == "SyncGroup.reply" and e.get("error") == 0:
            sync_ok.setdefault(G.owner_of_member_id(e["member"]), []).append(e)
    for e in H["events"]:
        if e["op"] != "assigned.start":
            continue
        st["assigned_callbacks_checked"] += 1
        tps = sorted(tuple(x) for x in e["tps"])
        snap = sorted(tuple(x) for x in e["snapshot"])
        if tps != snap:
            V.append(("assignment_snapshot_differs_from_callback_argument",
                      f"{e['m']}: on_partitions_assigned({tps}) but assignment() == {snap}", {"event": e}))
        cands = [s for s in sync_ok.get(e["m"], []) if s["t"] <= e["t"] + 1e-9]
        if not cands:
            V.append(("assigned_callback_without_syncgroup_reply", f"{e['m']}: on_partitions_assigned ran although no "
                      "successful SyncGroup reply had been sent to it", {"event": e}))
            continue
        sent = cands[-1]["assignment"]
        sent = sorted(tuple(x) for x in sent) if not isinstance(sent, dict) else sent
        if sent != tps:
            V.append(("adopted_assignment_differs_from_distributed_one",
                      f"{e['m']}: generation {cands[-1]['generation']} distributed {sent} but the member adopted {tps}",
                      {"event": e, "sync_reply": cands[-1]}))
    # ---- (3) silence outside ownership periods + (4) cursor inside them
    per, outside = G.periods(H)
    for e in outside:
        V.append(("record_delivered_for_partition_not_owned",
                  f"{e['m']} returned {e['tp']} offset {e['o']} at t={e['t']} outside any ownership period "
                  "(after its revoke callback began / before an assigned callback included the partition)", {"event": e}))
    vis = _vis(H)
    fetches = _offset_fetch_values(H)
    for key, recs in per.items():
        inc, topic, part = key
        tpk = f"{topic}:{part}"
        voff = vis.get(tpk, [])
        for rec in recs:
            st["periods_checked"] += 1
            cur = None
            for (t, o, n) in rec["deliveries"]:
                st["deliveries_checked"] += 1
                if cur is None:
                    # start of the period: committed offset the new owner was given, else log start (policy earliest)
                    cands = set()
                    for (ft, offs) in fetches.get(inc, []):
                        if rec["t_start"] - 1e-9 <= ft <= t and tpk in offs:
                            cands.add(offs[tpk])
                    if not cands:
                        # the member never asked (no OffsetFetch reply covering the partition reached it in this
                        # period): whatever it starts from, it is not what the group committed
                        stored = _stored_offset_at(H, tpk, t)
                        want = _next_visible(voff, stored if stored >= 0 else 0)
                        st["period_starts_without_lookup"] = st.get("period_starts_without_lookup", 0) + 1
                        if o != want:
                            V.append(("period_starts_elsewhere_without_committed_offset_lookup",
                                      f"{inc} took over {tpk} and returned offset {o} first although no OffsetFetch reply for "
                                      f"that partition had reached it in this ownership period; the group's committed offset "
                                      f"was {stored} (first visible record from there: {want})",
                                      {"period": {k: v for k, v in rec.items() if k != 'deliveries'}, "first": o,
                                       "stored_committed": stored}))
                    if cands:
                        st["period_starts_checked"] += 1
                        starts = {(_next_visible(voff, c if c >= 0 else 0)) for c in cands}
                        if o not in starts:
                            V.append(("period_does_not_start_at_committed_offset",
                                      f"{inc} took over {tpk}: committed offset(s) given {sorted(cands)}, first record returned "
                                      f"has offset {o} (expected one of {sorted(x for x in starts if x is not None)})",
                                      {"period": {k: v for k, v in rec.items() if k != 'deliveries'}, "first": o}))
                    cur = o + 1
                    continue
                nv = _next_visible(voff, cur)
                if o != nv:
                    mech = ("stale_or_repeated_record_delivered_within_ownership_period" if o < cur
                            else "visible_record_skipped_within_ownership_period")
                    V.append((mech, f"{inc} {tpk}: returned offset {o}, expected next visible {nv} (cursor {cur})",
                              {"period": {k: v for k, v in rec.items() if k != 'deliveries'}, "offset": o, "cursor": cur}))
                cur = max(cur, o + 1)
    # ---- (4b) a member that LEFT the group by itself (its heartbeat task sends LeaveGroup when the application has not
    # polled for max_poll_interval_ms) gave its partitions up knowingly: the assignment is superseded from the moment the
    # coordinator's answer is in.  The library closes the delivery gate (join prepare, revoke callback) right then - at
    # most one metadata request later for a pattern subscription.  A record returned from the old assignment later than
    # that, with no revoke callback begun since, is data of a superseded assignment.
    P = H["params"]
    undelivered = {f["n"] for f in H["faulted_requests"] if f["api"] == "LeaveGroup"}
    stops = {}
    for e in H["events"]:
        if e["op"] in ("stop.call", "kill") and e["m"]:
            stops.setdefault(e["m"], e["t"])
    for e in H["group"]:
        if e["op"] != "LeaveGroup" or e.get("error") != 0 or e.get("req_n") in undelivered:
            continue
        inc = e["client_id"]
        if stops.get(inc, 1e18) <= e["t"] + 1e-9:
            continue                         # the LeaveGroup of stop(): nothing is delivered after stop() anyway
        st["self_initiated_leaves_checked"] = st.get("self_initiated_leaves_checked", 0) + 1
        pattern = "pattern" in (P["members"].get(inc.split("i")[0]) or {})
        slack = 4 * P["retry_backoff_ms"] / 1000.0 + 0.1 + (P["request_timeout_ms"] / 1000.0 if pattern else 0.0)
        for key, recs in per.items():
            if key[0] != inc:
                continue
            for rec in recs:
                if rec["t_start"] > e["t"] or (rec["t_end"] is not None and rec["t_end"] <= e["t"]):
                    continue
                late = [(t, o) for (t, o, _n) in rec["deliveries"] if t > e["t"] + slack]
                if late:
                    V.append(("record_delivered_after_member_left_the_group_by_itself",
                              f"{inc} sent LeaveGroup (answered OK at t={e['t']}) and {late[0][0] - e['t']:.2f}s later returned "
                              f"{key[1]}:{key[2]} offset {late[0][1]} from the assignment it had given up; no on_partitions_revoked "
                              "had begun in between", {"leave": e, "period": {k: v for k, v in rec.items() if k != 'deliveries'},
                                                        "first_late_delivery": late[0]}))
    # ---- (5) barrier: per generation all revoke-ends precede all assigned-starts
    joins = {}    # inc -> [(t_request, generation of the OK reply)]
    for e in H["group"]:
        if e["op"] == "JoinGroup.reply" and e.get("error") == 0:
            joins.setdefault(G.owner_of_member_id(e["member"]), []).append((e["t"], e["generation"]))
    rev_end = {}
    asg_start = {}
    rev_start_tps = {}
    for e in H["events"]:
        if e["op"] == "revoked.end":
            rev_end.setdefault(e["m"], []).append(e["t"])
        elif e["op"] == "assigned.start":
            asg_start.setdefault(e["m"], []).append(e["t"])
        elif e["op"] == "revoked.start":
            rev_start_tps.setdefault(e["m"], []).append((e["t"], e["tps"]))
            if e["tps"]:
                st["revocations_with_partitions"] += 1
    deliveries_t = sorted(e["t"] for e in H["events"] if e["op"] == "delivery")
    for ent in H["ledger"]:
        if ent["synced_at"] is None:
            continue
        gen = ent["generation"]
        last_rev, first_asg = None, None
        members = 0
        for mid in ent["members"]:
            inc = G.owner_of_member_id(mid)
            jt = [t for (t, g) in joins.get(inc, []) if g == gen]
            if not jt:
                continue
            t_join_reply = jt[0]
            # the revoke callback belonging to this join = the member's last one that STARTED before the JoinGroup reply;
            # its end counts even when it comes after the reply (a member that joins without waiting for its callback)
            starts = [t for (t, _tps) in rev_start_tps.get(inc, []) if t <= t_join_reply + 1e-9]
            revs = []
            if starts:
                ends = [t for t in rev_end.get(inc, []) if t >= starts[-1] - 1e-9]
                killed_at = [e["t"] for e in H["events"] if e["m"] == inc and e["op"] in ("kill",)]
                if ends and not (killed_at and killed_at[0] < ends[0]):
                    revs = [ends[0]]
            asgs = [t for t in asg_start.get(inc, []) if t >= ent["synced_at"] - 1e-9]
            # the assigned callback of THIS generation is the first one after the generation was synced and before
            # the member's next successful join
            later_joins = [t for (t, g) in joins.get(inc, []) if g > gen]
            asgs = [t for t in asgs if not later_joins or t <= min(later_joins)]
            if revs:
                members += 1
                r = revs[-1]
                last_rev = (r, inc) if last_rev is None or r > last_rev[0] else last_rev
            if asgs:
                a = asgs[0]
                first_asg = (a, inc) if first_asg is None or a < first_asg[0] else first_asg
            # a member that holds nothing has nothing to revoke: the callback is only demanded of a member that still
            # held partitions (an assigned callback with a non-empty set and no revoke callback since)
            held = False
            for ev_ in H["events"]:
                if ev_["m"] != inc or ev_["t"] > t_join_reply + 1e-9:
                    continue
                if ev_["op"] == "assigned.start":
                    held = bool(ev_["tps"])
                elif ev_["op"] == "revoked.start":
                    held = False
            if held:
                V.append(("member_joined_generation_without_finishing_revoke_callback",
                          f"generation {gen}: {inc} got a JoinGroup reply at t={t_join_reply} while it still held the partitions "
                          "of its last on_partitions_assigned: no on_partitions_revoked callback had started since",
                          {"generation": gen, "member": inc}))
        if last_rev and first_asg:
            st["barriers_checked"] += 1
            st["members_in_barriers"] += members
            if last_rev[0] > first_asg[0] + 1e-9:
                V.append(("assigned_callback_started_before_all_revoke_callbacks_finished",
                          f"generation {gen}: {first_asg[1]} started on_partitions_assigned at t={first_asg[0]} while "
                          f"{last_rev[1]} finished on_partitions_revoked only at t={last_rev[0]}",
                          {"generation": gen, "last_revoke_end": last_rev, "first_assigned_start": first_asg}))
            i = bisect.bisect_left(deliveries_t, ent["t"] - 1.0)
            if i < len(deliveries_t) and deliveries_t[i] <= ent["synced_at"] + 1.0:
                st["rebalances_with_deliveries_in_flight"] += 1
    return V, st


# ==================================================================================================
# C04
# ==================================================================================================

def judge_c04(H):
    V = []
    st = {"commits_accepted": 0, "commit_partitions_checked": 0, "commits_with_deliveries_below": 0, "records_required": 0,
          "visible_records_total": 0, "records_delivered_at_least_once": 0, "redelivered_records": 0,
          "periods_started_from_committed": 0, "kills": 0, "stops": 0, "partitions_fully_delivered": 0,
          "commits_unjudged_no_period": 0, "final_commits_on_stop": 0, "commits_before_rebalance": 0}
    vis = _vis(H)
    per, _outside = G.periods(H)
    fetches = _offset_fetch_values(H)
    st["kills"] = sum(1 for e in H["events"] if e["op"] == "kill")
    st["stops"] = sum(1 for e in H["events"] if e["op"] == "stop.call")
    stop_calls = {e["m"]: e["t"] for e in H["events"] if e["op"] == "stop.call"}
    rev_starts = {}
    for e in H["events"]:
        if e["op"] == "revoked.start":
            rev_starts.setdefault(e["m"], []).append(e["t"])
    # ---- (a) every accepted commit
    for e in H["group"]:
        if e["op"] != "OffsetCommit" or e.get("error") != 0:
            continue
        inc = G.owner_of_member_id(e["member"]) if e.get("member") else e["client_id"]
        st["commits_accepted"] += 1
        if inc in stop_calls and e["t"] >= stop_calls[inc]:
            st["final_commits_on_stop"] += 1
        if any(0 <= rt - e["t"] < 0.05 for rt in rev_starts.get(inc, [])):
            st["commits_before_rebalance"] += 1
        for tpk, (o, code) in (e.get("offsets") or {}).items():
            if code != 0:
                continue
            st["commit_partitions_checked"] += 1
            topic, part = tpk.rsplit(":", 1)
            recs = [r for r in per.get((inc, topic, int(part)), []) if r["t_start"] <= e["t"] + 1e-9]
            if not recs:
                st["commits_unjudged_no_period"] += 1
                continue
            rec = recs[-1]
            voff = vis.get(tpk, [])
            before = [(t, off) for (t, off, _n) in rec["deliveries"] if t <= e["t"] + 1e-9]
            if before:
                start = before[0][1]
            else:
                cands = set()
                for (ft, offs) in fetches.get(inc, []):
                    if rec["t_start"] - 1e-9 <= ft <= e["t"] and tpk in offs:
                        cands.add(offs[tpk] if offs[tpk] >= 0 else 0)
                if not cands:
                    st["commits_unjudged_no_period"] += 1
                    continue
                start = max(cands)
            # "handed to the application": by this incarnation, in this or an earlier ownership period (a commit()
            # call that is retried across a rebalance still carries the positions of the previous period)
            got = {off for r in per.get((inc, topic, int(part)), []) for (t, off, _n) in r["deliveries"] if t <= e["t"] + 1e-9}
            missing = [v for v in voff if start <= v < o and v not in got]
            st["records_required"] += sum(1 for v in voff if start <= v < o)
            if before:
                st["commits_with_deliveries_below"] += 1
            if missing:
                V.append(("committed_offset_passes_undelivered_record",
                          f"{inc} committed {tpk} -> {o} (generation {e.get('generation')}, accepted at t={e['t']}) but visible "
                          f"record(s) {missing[:5]} from its start position {start} had not been handed to the application",
                          {"commit": {k: v for k, v in e.items() if k != 'offsets'}, "tp": tpk, "offset": o, "start": start,
                           "delivered_before": sorted(got)[-5:], "missing": missing[:10]}))
    # ---- (c) re-delivery only at or above the committed offset the new owner was given
    for key, recs in per.items():
        inc, topic, part = key
        tpk = f"{topic}:{part}"
        for rec in recs:
            if not rec["deliveries"]:
                continue
            first_t, first_o, _n = rec["deliveries"][0]
            cands = set()
            for (ft, offs) in fetches.get(inc, []):
                if rec["t_start"] - 1e-9 <= ft <= first_t and tpk in offs:
                    cands.add(offs[tpk])
            if not cands:
                stored = _stored_offset_at(H, tpk, first_t)
                below = [o for (_t, o, _n2) in rec["deliveries"] if stored >= 0 and o < stored]
                if below:
                    V.append(("record_below_groups_committed_offset_delivered_again_without_lookup",
                              f"{inc} took over {tpk} without any OffsetFetch reply for it reaching the member, and returned "
                              f"offsets {below[:5]} although the group's committed offset was {stored}",
                              {"period": {k: v for k, v in rec.items() if k != 'deliveries'}, "below": below[:10],
                               "stored_committed": stored}))
                continue
            st["periods_started_from_committed"] += 1
            given = [c if c >= 0 else 0 for c in cands]
            low = min(given)
            below = [o for (_t, o, _n2) in rec["deliveries"] if o < low]
            if below:
                V.append(("record_below_given_committed_offset_delivered_again",
                          f"{inc} took over {tpk} with committed offset {sorted(cands)} but returned offsets {below[:5]}",
                          {"period": {k: v for k, v in rec.items() if k != 'deliveries'}, "below": below[:10]}))
    # ---- (b) at-least-once at the end
    delivered = {}
    count = {}
    for e in H["events"]:
        if e["op"] == "delivery":
            k = _tpk(e["tp"])
            delivered.setdefault(k, set()).add(e["o"])
            count[(k, e["o"])] = count.get((k, e["o"]), 0) + 1
    st["redelivered_records"] = sum(1 for v in count.values() if v > 1)
    final = H.get("final") or {}
    live = final.get("live") or {}
    owned = {}
    for inc, info in live.items():
        for tp in info.get("assignment") or []:
            owned[_tpk(tp)] = inc
    positions = final.get("positions") or {}
    initial = H.get("initial_committed") or {}
    for tpk, t in H["truth"].items():
        voff = [o for o, _u in t["visible"]]
        floor = initial.get(tpk, 0)
        need = [o for o in voff if o >= floor]
        st["visible_records_total"] += len(need)
        got = delivered.get(tpk, set())
        st["records_delivered_at_least_once"] += sum(1 for o in need if o in got)
        missing = [o for o in need if o not in got]
        if not missing:
            st["partitions_fully_delivered"] += 1
            continue
        if H["errors"] or tpk not in owned:
            continue      # nobody alive owns it at the end (all members gone / unsubscribed): nothing to demand
        pos = positions.get(tpk, [None, None])[1]
        committed = (H.get("committed") or {}).get(tpk)
        skipped = [o for o in missing if (isinstance(pos, int) and o < pos)]
        if skipped:
            V.append(("visible_record_never_delivered_to_any_member",
                      f"{tpk}: offsets {skipped[:5]} were delivered to no incarnation although the final owner {owned[tpk]} "
                      f"stands at position {pos} (committed {committed})",
                      {"tp": tpk, "missing": skipped[:10], "position": pos, "committed": committed, "owner": owned[tpk]}))
    return V, st


# ==================================================================================================
# C06
# ==================================================================================================

def judge_c06(H):
    P = H["params"]
    V = []
    if any(e.startswith("SimLivelock") for e in H["errors"]):
        return [("member_task_spins_without_waiting", H["errors"][0][:400], {"errors": H["errors"]})], {}
    st = {"joingroups_checked": 0, "join_ok_replies_followed": 0, "join_then_sync": 0, "join_then_join_justified": 0,
          "members_converged": 0, "histories_with_convergence_judged": 0, "heartbeats_in_window": 0,
          "partitions_covered": 0, "mid_required_roundtrips": 0, "faults_on_group_requests": 0,
          "histories_multi_assignor": 0}
    configured = list(P["assignors"])
    if len(configured) > 1:
        st["histories_multi_assignor"] = 1
    # ---- (1) JoinGroup contents
    for e in H["group"]:
        if e["op"] == "JoinGroup":
            st["joingroups_checked"] += 1
            if list(e["protocols"]) != configured:
                V.append(("joingroup_does_not_advertise_all_configured_assignors_in_order",
                          f"{e['client_id']} is configured with {configured} but sent JoinGroup with protocols {e['protocols']}",
                          {"request": {k: v for k, v in e.items() if k != 'subscriptions'}}))
        if e["op"] == "JoinGroup.reply" and e.get("error") == 79:
            st["mid_required_roundtrips"] += 1
    # ---- (2) JoinGroup OK -> SyncGroup(generation, member) unless justified
    by_client = {}
    for e in H["group"]:
        if e["op"] in ("JoinGroup", "JoinGroup.reply", "SyncGroup"):
            by_client.setdefault(e["client_id"], []).append(e)
    faults = {}
    for f in H["faulted_requests"]:
        faults.setdefault(f["client_id"], []).append(f)
        if f["api"] in G.GROUP_APIS:
            st["faults_on_group_requests"] += 1
    harness = {}
    for e in H["events"]:
        if e["op"] in ("subscribe", "stop.call", "kill") and e["m"]:
            harness.setdefault(e["m"], []).append(e["t"])
    rev_starts = {}
    for e in H["events"]:
        if e["op"] == "revoked.start":
            rev_starts.setdefault(e["m"], []).append(e["t"])
    env_times = list(H["coordinator_moves"]) + [e["t"] for e in H["events"] if e["op"] in ("broker_down", "broker_up")]
    md_times = [t for t, _w in H["md_changes"] if t > 0]
    for cid, seq in by_client.items():
        join_req = {}
        for i, e in enumerate(seq):
            if e["op"] == "JoinGroup":
                join_req[e["req_n"]] = e
            if e["op"] != "JoinGroup.reply" or e.get("error") != 0:
                continue
            nxt = next((x for x in seq[i + 1:] if x["op"] in ("JoinGroup", "SyncGroup")), None)
            if nxt is None:
                continue
            req = join_req.get(e["req_n"])
            # only a reply the client can still be waiting for counts: not one to a JoinGroup it abandoned (request
            # timeout elapsed, or it has meanwhile sent a newer JoinGroup)
            if req is not None:
                if e["t"] - req["t"] > P["request_timeout_ms"] / 1000.0 - 0.05:
                    st["join_replies_after_client_timeout"] = st.get("join_replies_after_client_timeout", 0) + 1
                    continue
                if any(x["op"] == "JoinGroup" and x["req_n"] > req["req_n"] for x in seq[:i]):
                    st["join_replies_to_superseded_request"] = st.get("join_replies_to_superseded_request", 0) + 1
                    continue
            st["join_ok_replies_followed"] += 1
            t_lo = req["t"] if req else e["t"]
            # the rejoin attempt this JoinGroup belongs to began with the member's revoke callback (join prepare):
            # a subscription change made from there on "intervenes" (the library notices it after the reply)
            prep = [t for t in rev_starts.get(cid, []) if t <= t_lo]
            if prep:
                t_lo = prep[-1]
            t_hi = nxt["t"]
            if nxt["op"] == "SyncGroup":
                st["join_then_sync"] += 1
                if nxt["generation"] != e["generation"] or nxt["member"] != e["member"]:
                    just = _justified(cid, t_lo, t_hi, faults, harness, env_times, md_times, H, P)
                    if not just:
                        V.append(("syncgroup_with_wrong_generation_or_member_id",
                                  f"{cid}: JoinGroup reply (generation {e['generation']}, member {e['member']}) followed by "
                                  f"SyncGroup(generation {nxt['generation']}, member {nxt['member']})",
                                  {"join_reply": e, "sync": {k: v for k, v in nxt.items() if k != 'assignments'}}))
                continue
            just = _justified(cid, t_lo, t_hi, faults, harness, env_times, md_times, H, P)
            if just:
                st["join_then_join_justified"] += 1
            else:
                V.append(("successful_joingroup_followed_by_another_joingroup",
                          f"{cid}: JoinGroup reply OK for generation {e['generation']} at t={e['t']} was followed by another "
                          f"JoinGroup (protocols {nxt.get('protocols')}) at t={nxt['t']} with no fault, subscription change or "
                          "metadata change in between",
                          {"join_reply": e, "next": {k: v for k, v in nxt.items() if k != 'subscriptions'}}))
    # ---- (3) bounded convergence
    conv, conv_end = H.get("conv"), H.get("conv_end")
    if conv and conv_end and not H["errors"]:
        live = {inc: info for inc, info in conv["live"].items() if not info.get("failed_start")}
        if live:
            st["histories_with_convergence_judged"] = 1
            detail = {"t_quiet": H.get("t_quiet"), "bound": H.get("bound"), "state": conv["group_state"],
                      "generation": conv["generation"], "members": sorted(conv["members"]), "live": sorted(live)}
            by_owner = {G.owner_of_member_id(mid): (mid, m) for mid, m in conv["members"].items()}
            if conv["group_state"] != "Stable":
                V.append(("group_not_stable_after_bounded_quiet_period",
                          f"{H.get('bound', 0):.1f}s after the last fault the group is {conv['group_state']} (generation "
                          f"{conv['generation']}), live members {sorted(live)}", detail))
            else:
                for inc, info in live.items():
                    if inc not in by_owner:
                        V.append(("live_member_not_in_latest_generation",
                                  f"{inc} is alive but not a member of generation {conv['generation']} "
                                  f"({sorted(conv['members'])})", detail))
                        continue
                    st["members_converged"] += 1
                    coord = sorted(tuple(x) for x in by_owner[inc][1]["assignment"]) \
                        if not isinstance(by_owner[inc][1]["assignment"], dict) else None
                    mine = sorted(tuple(x) for x in (info["assignment"] or []))
                    if coord is not None and coord != mine:
                        V.append(("member_assignment_differs_from_coordinator_after_convergence",
                                  f"{inc}: assignment() == {mine} but generation {conv['generation']} gave it {coord}", detail))
                # coverage
                want = set()
                for inc, info in live.items():
                    sub = info["sub"]
                    for t, n in conv["topics"].items():
                        if ("topics" in sub and t in sub["topics"]) or ("pattern" in sub and t.startswith("t")):
                            want.update((t, p) for p in range(n))
                have = set()
                for mid, m in conv["members"].items():
                    if not isinstance(m["assignment"], dict):
                        have.update(tuple(x) for x in m["assignment"])
                st["partitions_covered"] += len(want & have)
                if want - have:
                    V.append(("subscribed_partition_unassigned_after_convergence",
                              f"partitions {sorted(want - have)[:6]} of subscribed topics belong to no member in generation "
                              f"{conv['generation']}", dict(detail, missing=sorted(want - have)[:20])))
                # no further rebalance, regular heartbeats during the window
                t1, t2 = H["t_conv"], H["t_window_end"]
                joins = [e for e in H["group"] if e["op"] == "JoinGroup" and t1 <= e["t"] <= t2]
                if joins or conv_end["generation"] != conv["generation"]:
                    V.append(("rebalance_after_convergence_in_quiet_environment",
                              f"{len(joins)} JoinGroup request(s) arrived in the quiet window [{t1:.1f},{t2:.1f}] "
                              f"(generation {conv['generation']} -> {conv_end['generation']}); first from "
                              f"{joins[0]['client_id'] if joins else '?'}", dict(detail, joins=[j['client_id'] for j in joins][:5])))
                hb = {}
                for e in H["group"]:
                    if e["op"] == "Heartbeat" and t1 <= e["t"] <= t2 and e.get("error") == 0:
                        hb.setdefault(e["client_id"], []).append(e["t"])
                lim = 2 * P["heartbeat_interval_ms"] / 1000.0 + 0.25
                for inc in live:
                    ts = [t1] + hb.get(inc, []) + [t2]
                    st["heartbeats_in_window"] += len(ts) - 2
                    gaps = [b - a for a, b in zip(ts, ts[1:])]
                    if inc in by_owner and max(gaps) > lim:
                        V.append(("member_stopped_heartbeating_after_convergence",
                                  f"{inc}: {len(ts) - 2} successful heartbeats in the {t2 - t1:.1f}s window, largest gap "
                                  f"{max(gaps):.2f}s (heartbeat interval {P['heartbeat_interval_ms']} ms)", detail))
    return V, st


def _justified(cid, t_lo, t_hi, faults, harness, env_times, md_times, H, P):
    eps = 1e-6
    # a fault fate on any request of this client whose EFFECT can land inside the window (including the JoinGroup itself):
    # the fate is stamped when the request reaches the broker; the client learns of it later - an error reply one
    # network latency (or an injected delay) later, a lost reply only when its request timeout expires
    reach = P["request_timeout_ms"] / 1000.0 + 0.1
    if any(t_lo - reach - eps <= f["t"] <= t_hi + eps for f in faults.get(cid, [])):
        return "fault"
    if any(t_lo - eps <= t <= t_hi + eps for t in harness.get(cid, [])):
        return "harness call"
    if any(t_lo - eps <= t <= t_hi + eps for t in env_times):
        return "coordinator/broker event"
    # a metadata change can reach the member through any Metadata reply inside the window
    slack = P["metadata_max_age_ms"] / 1000.0 + P["request_timeout_ms"] / 1000.0
    if any(t_lo - slack <= t <= t_hi + eps for t in md_times):
        if any(t_lo - eps <= t <= t_hi + eps for (t, _a) in H["requests_by_client"].get(cid, [])):
            return "metadata change"
    return None
