"""Simulated Kafka transaction coordinator (DESIGN Appendix A.3)."""
from __future__ import annotations

from vf import cluster as C
from vf import refrecords as rr

T_EMPTY, ONGOING, PREPARE_COMMIT, PREPARE_ABORT, COMPLETE_COMMIT, COMPLETE_ABORT = (
    "Empty", "Ongoing", "PrepareCommit", "PrepareAbort", "CompleteCommit", "CompleteAbort")


class Txn:
    def __init__(self, txn_id, pid):
        self.id = txn_id
        self.pid = pid
        self.epoch = -1
        self.state = T_EMPTY
        self.partitions = set()
        self.groups = set()
        self.seq = 0            # number of transactions started (for the monitors)
        self.history = []       # [(seq, result, partitions, groups)]


class TxnCoordinator:
    def __init__(self, cluster):
        self.c = cluster
        self.txns = cluster.txns
        self.marker_delay = (0.0, 0.0)   # seeded range: EndTxn reply -> markers written
        self.loading_until = {}

    def _log(self, ctx, op, **kw):
        return self.c.log("txn", op=op, node=ctx["node"], req_n=ctx["ev"]["n"], client_id=ctx["client_id"], **kw)

    def _precheck(self, ctx, txn_id):
        if txn_id in self.c.unauthorized_txn_ids:
            return C.TRANSACTIONAL_ID_AUTHORIZATION_FAILED
        if self.c.coordinator_for(txn_id, 1) != ctx["node"]:
            return C.NOT_COORDINATOR
        if self.loading_until.get(txn_id, 0) > self.c.now():
            return C.COORDINATOR_LOAD_IN_PROGRESS
        return 0

    def check_producer(self, txn_id, pid, epoch):
        t = self.txns.get(txn_id)
        if t is None or t.pid != pid:
            return C.INVALID_PRODUCER_ID_MAPPING
        if epoch != t.epoch:
            return C.INVALID_PRODUCER_EPOCH
        return 0

    def partition_in_ongoing_txn(self, pid, epoch, topic, p):
        txn_id = self.c.pid_table.get(pid)
        t = self.txns.get(txn_id) if txn_id else None
        if t is None:
            return None
        return t.state == ONGOING and t.epoch == epoch and (topic, p) in t.partitions

    # ------------------------------------------------------------------ InitProducerId
    def init_pid(self, ctx):
        req = ctx["req"]
        txn_id = req["transactional_id"]
        if txn_id is None:
            self.c.next_pid += 1
            pid = self.c.next_pid
            self.c.pid_table[pid] = None
            self._log(ctx, "InitProducerId", txn_id=None, pid=pid, epoch=0, error=0)
            return {"error_code": 0, "producer_id": pid, "producer_epoch": 0}
        code = self._precheck(ctx, txn_id)
        if code:
            self._log(ctx, "InitProducerId", txn_id=txn_id, error=code)
            return {"error_code": code, "producer_id": -1, "producer_epoch": -1}
        t = self.txns.get(txn_id)
        if t is None:
            self.c.next_pid += 1
            t = self.txns[txn_id] = Txn(txn_id, self.c.next_pid)
            self.c.pid_table[t.pid] = txn_id
        if t.state in (PREPARE_COMMIT, PREPARE_ABORT):
            self._log(ctx, "InitProducerId", txn_id=txn_id, error=C.CONCURRENT_TRANSACTIONS)
            return {"error_code": C.CONCURRENT_TRANSACTIONS, "producer_id": -1, "producer_epoch": -1}
        if t.state == ONGOING:
            # fence the previous incarnation and abort its transaction; client retries meanwhile
            t.epoch += 1
            self._log(ctx, "InitProducerId", txn_id=txn_id, error=C.CONCURRENT_TRANSACTIONS, fenced_epoch=t.epoch - 1,
                      note="aborting ongoing transaction of previous incarnation")
            self._end(t, False, by="init")
            return {"error_code": C.CONCURRENT_TRANSACTIONS, "producer_id": -1, "producer_epoch": -1}
        t.epoch += 1
        self._log(ctx, "InitProducerId", txn_id=txn_id, pid=t.pid, epoch=t.epoch, error=0)
        return {"error_code": 0, "producer_id": t.pid, "producer_epoch": t.epoch}

    # ------------------------------------------------------------------ AddPartitions / AddOffsets
    def _txn_for(self, ctx, req):
        code = self._precheck(ctx, req["transactional_id"])
        if code:
            return None, code
        t = self.txns.get(req["transactional_id"])
        if t is None or t.pid != req["producer_id"]:
            return None, C.INVALID_PRODUCER_ID_MAPPING
        if req["producer_epoch"] != t.epoch:
            return None, C.INVALID_PRODUCER_EPOCH
        if t.state in (PREPARE_COMMIT, PREPARE_ABORT):
            return None, C.CONCURRENT_TRANSACTIONS
        return t, 0

    def add_partitions(self, ctx):
        req = ctx["req"]
        t, code = self._txn_for(ctx, req)
        tps = [(x["name"], p) for x in req["topics"] for p in x["partitions"]]
        per = {}
        if not code:
            unauth = [tp for tp in tps if tp[0] in self.c.unauthorized_topics]
            if unauth:
                # Kafka: one failing partition fails the whole request (others get OPERATION_NOT_ATTEMPTED=55)
                for tp in tps:
                    per[tp] = C.TOPIC_AUTHORIZATION_FAILED if tp in unauth else 55
            else:
                if t.state != ONGOING:
                    t.state = ONGOING
                    t.seq += 1
                    t.partitions = set()
                    t.groups = set()
                t.partitions.update(tps)
        self._log(ctx, "AddPartitionsToTxn", txn_id=req["transactional_id"], pid=req["producer_id"],
                  epoch=req["producer_epoch"], partitions=[f"{a}:{b}" for a, b in tps], error=code,
                  per_partition={f"{a}:{b}": c for (a, b), c in per.items()}, txn_seq=t.seq if t else None)
        return {"results": [{"name": x["name"], "results": [
            {"partition_index": p, "error_code": per.get((x["name"], p), code)} for p in x["partitions"]]}
            for x in req["topics"]]}

    def add_offsets(self, ctx):
        req = ctx["req"]
        t, code = self._txn_for(ctx, req)
        if not code and req["group_id"] in self.c.unauthorized_groups:
            code = C.GROUP_AUTHORIZATION_FAILED
        if not code:
            if t.state != ONGOING:
                t.state = ONGOING
                t.seq += 1
                t.partitions = set()
                t.groups = set()
            t.groups.add(req["group_id"])
        self._log(ctx, "AddOffsetsToTxn", txn_id=req["transactional_id"], pid=req["producer_id"],
                  epoch=req["producer_epoch"], group=req["group_id"], error=code, txn_seq=t.seq if t else None)
        return {"error_code": code}

    # ------------------------------------------------------------------ EndTxn
    def end_txn(self, ctx):
        req = ctx["req"]
        commit = bool(req["committed"])
        code = self._precheck(ctx, req["transactional_id"])
        t = self.txns.get(req["transactional_id"])
        if not code:
            if t is None or t.pid != req["producer_id"]:
                code = C.INVALID_PRODUCER_ID_MAPPING
            elif req["producer_epoch"] != t.epoch:
                code = C.INVALID_PRODUCER_EPOCH
            elif t.state in (PREPARE_COMMIT, PREPARE_ABORT):
                code = C.CONCURRENT_TRANSACTIONS
            elif t.state == ONGOING:
                code = 0
            elif t.state == (COMPLETE_COMMIT if commit else COMPLETE_ABORT):
                code = 0          # retried EndTxn with the same result
                self._log(ctx, "EndTxn", txn_id=t.id, pid=t.pid, epoch=t.epoch, commit=commit, error=0, retry=True,
                          txn_seq=t.seq)
                return {"error_code": 0}
            else:
                code = C.INVALID_TXN_STATE
        self._log(ctx, "EndTxn", txn_id=req["transactional_id"], pid=req["producer_id"], epoch=req["producer_epoch"],
                  commit=commit, error=code, txn_seq=t.seq if t else None,
                  partitions=sorted(f"{a}:{b}" for a, b in t.partitions) if t and not code else None)
        if not code:
            self._end(t, commit, by="client")
        return {"error_code": code}

    def _end(self, t, commit, by):
        t.state = PREPARE_COMMIT if commit else PREPARE_ABORT
        parts, groups, epoch, seq = sorted(t.partitions), sorted(t.groups), t.epoch, t.seq
        lo, hi = self.marker_delay
        delay = lo + (hi - lo) * self.c.rng.random()
        # the markers carry the epoch the transaction was written with (the fenced one when ended by init)
        marker_epoch = epoch - 1 if by == "init" else epoch

        def write():
            for (topic, p) in parts:
                pl = self.c.plog(topic, p)
                if pl is None:
                    continue
                raw = rr.encode_control_batch(pl.leo, t.pid, marker_epoch, commit,
                                              int((self.c.now() + self.c.loop.clock.wall_offset) * 1000))
                pl.append_raw(raw, self.c.now())
                # the control batch carries producer id and epoch: appending it creates / updates the leader's producer
                # state for that partition (Kafka ProducerStateManager), so after a fencing abort the old epoch is
                # rejected there even if the old incarnation had not yet written to that partition
                st = pl.producers.get(t.pid)
                if st is None:
                    st = pl.producers[t.pid] = C.ProducerState()
                    st.epoch = marker_epoch
                if by == "init":
                    st.epoch = max(st.epoch, epoch)
                self.c.log("marker", topic=topic, partition=p, pid=t.pid, epoch=marker_epoch, commit=commit,
                           offset=pl.leo - 1, txn_id=t.id, txn_seq=seq)
            self.c.gc.complete_txn_offsets(t.pid, groups, commit)
            t.history.append((seq, "commit" if commit else "abort", parts, groups, by))
            t.state = COMPLETE_COMMIT if commit else COMPLETE_ABORT
            t.partitions = set()
            t.groups = set()
            self.c.log("txn_complete", txn_id=t.id, pid=t.pid, epoch=epoch, commit=commit, txn_seq=seq, by=by)

        if delay <= 0:
            write()
        else:
            self.c.net.call_later(delay, write)
