"""C11 - API messages encode to the Kafka wire format and negotiate versions safely.

Oracle: vf.wire / vf.wire_tables (hand-written from the Kafka message definitions, never
imports aiokafka).  For every library struct class (enumerated at run time) and seeded random
in-range values generated FROM THE TABLE:
  (i)   library encode == reference encode of the same value
  (ii)  library decode(library bytes) == original
  (iii) library decode(reference bytes) == original
plus: structural comparison of every schema and of RESPONSE_TYPE against the table for
(api key, version written in the header), header forms, prepare() negotiation over every
(min,max) pair, and the builder parameters named in the statement.

Scoping (DESIGN.md section 6, C11): structs reachable from a Request builder's _CLASSES (plus
their RESPONSE_TYPE, headers, consumer-protocol and sticky user-data structs) are JUDGED;
structs that are merely defined are exercised the same way but their failures are recorded as
observations (sets["observations"]) and never as violations.
"""
from __future__ import annotations

import importlib
import inspect
import io
import math
import pkgutil
import random
import re
import struct as _struct
import types as _pytypes

from vf import repoimport, wire
from vf.runner import sig

PROPERTY_ID = "C11"
LEVEL = "exploration"
RULE = (
    "case = (library struct class, value generated from the independent table by random.Random(case seed)): "
    "integer extremes, null/empty/non-ASCII strings, null/empty/nested arrays, null bytes, string/bytes/array "
    "lengths at uvarint boundaries (126/127/128, 16383/16384), empty and non-empty tagged fields; for request "
    "classes additionally a reply generated from the RESPONSE table of (api key, header version) and parsed "
    "with RESPONSE_TYPE. Static part: schema shape and field order of every class vs table, header forms, "
    "prepare() over every (min,max) in 0..max+2 per builder, builder parameters named in the statement. "
    "Non-trivial = the value contains at least one of {null, non-ASCII, empty array, nested array element, "
    "integer extreme, boundary length, non-empty tag section}. Distinct = (class, set of those features)."
)
ASSUMPTIONS = [
    "vf.wire_tables is a faithful transcription of the Kafka message definitions for the covered versions "
    "(every disagreement with the library was re-read against the Kafka definition, see evidence sets)",
    "the library has no notion of non-nullable fields, so null is generated only where Kafka allows it",
    "single-field structs inside arrays and inline (non-array) nested structs are wire-identical to their "
    "flattened form and are compared after flattening",
    "aiokafka.protocol.message.Message (legacy record format) is covered by C09, not here",
    "RequestHeader_v1/v2.decode is never used by a client and cannot be called (constructor signature); "
    "recorded as an observation",
]
REQUIRED_COUNTERS = [
    "structs_judged", "encodes_compared", "lib_decodes_compared", "reply_decodes_compared",
    "negotiation_pairs_checked", "builder_param_cases_checked", "response_type_pairs_checked",
    "header_cases_checked", "primitive_cases_checked",
]

MAX_WITNESS_PER_MECH = 3


# =====================================================================================
# library access
# =====================================================================================

class Lib:
    pass


def load_lib() -> Lib:
    repoimport.use_repo()
    L = Lib()
    import aiokafka
    import aiokafka.protocol as P
    for m in pkgutil.iter_modules(P.__path__):
        importlib.import_module("aiokafka.protocol." + m.name)
    import aiokafka.coordinator.protocol  # noqa: F401
    import aiokafka.coordinator.assignors.sticky.sticky_assignor  # noqa: F401
    from aiokafka.errors import IncompatibleBrokerVersion
    from aiokafka.protocol import api, types
    from aiokafka.protocol.struct import Struct
    L.root = aiokafka.__file__
    L.api, L.T, L.Struct = api, types, Struct
    L.Incompatible = IncompatibleBrokerVersion
    L.request_structs = _subclasses(api.RequestStruct)
    L.responses = _subclasses(api.Response)
    L.builders = [b for b in _subclasses(api.Request) if hasattr(b, "_CLASSES")]
    L.other_structs = [c for c in _subclasses(Struct)
                       if not issubclass(c, (api.RequestStruct, api.Response))]
    return L


def _subclasses(c):
    out, seen = [], set()
    stack = list(c.__subclasses__())
    while stack:
        s = stack.pop(0)
        if s in seen:
            continue
        seen.add(s)
        out.append(s)
        stack.extend(s.__subclasses__())
    return sorted(out, key=lambda k: (k.__module__, k.__name__))


def snake(name: str) -> str:
    return re.sub(r"(?<=[a-z0-9])(?=[A-Z])", "_", name).lower()


AUX_MAP = {
    "RequestHeader_v1": "request_header_v1",
    "RequestHeader_v2": "request_header_v2",
    "ResponseHeader_v0": "response_header_v0",
    "ResponseHeader_v1": "response_header_v1",
    "ConsumerProtocolMemberMetadata": "consumer_protocol_subscription_v0",
    "ConsumerProtocolMemberAssignment": "consumer_protocol_assignment_v0",
    "ProtocolMetadata": "consumer_protocol_subscription_v0",
    "MemberAssignment": "consumer_protocol_assignment_v0",
    "StickyAssignorUserDataV1": "sticky_assignor_user_data_v1",
}
EXCLUDED = {"Message"}  # legacy record format: C09


class Target:
    """One library struct class paired with its table schema."""

    def __init__(self, cls, kind, schema, judged, label, key=None):
        self.cls, self.kind, self.schema, self.judged, self.label, self.key = cls, kind, schema, judged, label, key
        self.name = cls.__name__


def build_targets(L):
    """-> (targets, untabled class names, excluded class names, judged request classes)"""
    judged_req = set()
    for b in L.builders:
        judged_req.update(b._CLASSES)
    judged_resp = {c.RESPONSE_TYPE for c in judged_req}
    targets, untabled, excluded = [], [], []
    for c in L.request_structs:
        e = wire.SCHEMAS.get((c.API_KEY, c.API_VERSION))
        if e is None:
            untabled.append(c.__name__)
            continue
        label = f"{snake(e['name'])}_v{c.API_VERSION}_request"
        targets.append(Target(c, "request", e["request"], c in judged_req, label, (c.API_KEY, c.API_VERSION)))
    for c in L.responses:
        try:
            key = (int(c.API_KEY), int(c.API_VERSION))
        except Exception:
            untabled.append(c.__name__)
            continue
        e = wire.SCHEMAS.get(key)
        if e is None:
            untabled.append(c.__name__)
            continue
        label = f"{snake(e['name'])}_v{key[1]}_response"
        targets.append(Target(c, "response", e["response"], c in judged_resp, label, key))
    for c in L.other_structs:
        if c.__name__ in EXCLUDED:
            excluded.append(c.__name__)
            continue
        aux = AUX_MAP.get(c.__name__)
        if aux is None:
            untabled.append(c.__name__)
            continue
        targets.append(Target(c, "aux", wire.AUX[aux], True, snake(c.__name__).replace("__", "_")))
    return targets, untabled, excluded, judged_req


# =====================================================================================
# shapes: normalised structural form of a schema (library side and table side)
# =====================================================================================

_MY_NORM = {
    "nullable_string": "string", "compact_nullable_string": "compact_string",
    "nullable_bytes": "bytes", "records": "bytes",
    "compact_nullable_bytes": "compact_bytes", "compact_records": "compact_bytes",
}


def _flat(fields):
    out = []
    for f in fields:
        if isinstance(f, tuple) and f[0] == "struct":
            out.extend(_flat(f[1]))
        else:
            out.append(f)
    return tuple(out)


def _elem(shape):
    if isinstance(shape, tuple) and shape[0] == "struct":
        inner = _flat(shape[1])
        if len(inner) == 1:
            return inner[0]
        return ("struct", inner)
    return shape


def my_shape(t):
    if isinstance(t, str):
        return _MY_NORM.get(t, t)
    if t[0] == "struct":
        return ("struct", _flat(tuple(my_shape(f[1]) for f in t[1])))
    if t[0] == "array":
        return ("compact_array" if t[3] else "array", _elem(my_shape(t[1])))
    raise ValueError(t)


def my_schema_shape(schema):
    return my_shape(("struct", schema))


def lib_shape(t, T):
    if isinstance(t, T.Schema):
        return ("struct", _flat(tuple(lib_shape(f, T) for f in t.fields)))
    if isinstance(t, T.CompactArray):
        return ("compact_array", _elem(lib_shape(t.array_of, T)))
    if isinstance(t, T.Array):
        return ("array", _elem(lib_shape(t.array_of, T)))
    if isinstance(t, T.CompactString):
        return "compact_string"
    if isinstance(t, T.String):
        return "string"
    names = {
        T.Int8: "int8", T.Int16: "int16", T.Int32: "int32", T.Int64: "int64", T.UInt32: "uint32",
        T.Float64: "float64", T.Boolean: "bool", T.Bytes: "bytes", T.CompactBytes: "compact_bytes",
        T.UnsignedVarInt32: "uvarint", T.VarInt32: "varint", T.VarInt64: "varlong",
        T.TaggedFields: "tagged_fields",
    }
    if isinstance(t, type) and t in names:
        return names[t]
    return ("unknown", repr(t))


def shape_diff(a, b, path=""):
    """First difference between two shapes (table, library) as text, or None."""
    if a == b:
        return None
    if isinstance(a, tuple) and isinstance(b, tuple) and a[0] == b[0]:
        if a[0] == "struct":
            if len(a[1]) != len(b[1]):
                return f"{path or '<top>'}: table has {len(a[1])} fields {_short(a[1])}, library has {len(b[1])} {_short(b[1])}"
            for i, (x, y) in enumerate(zip(a[1], b[1])):
                d = shape_diff(x, y, f"{path}#{i}")
                if d:
                    return d
        else:
            return shape_diff(a[1], b[1], path + "[]")
    return f"{path or '<top>'}: table {_short(a)} vs library {_short(b)}"


def _short(s):
    if isinstance(s, tuple):
        if s and s[0] in ("array", "compact_array"):
            return f"{s[0]}<{_short(s[1])}>"
        if s and s[0] == "struct":
            return "{" + ",".join(_short(x) for x in s[1]) + "}"
        return "(" + ",".join(_short(x) for x in s) + ")"
    return str(s)


# ---- field names: only used to detect two fields trading places -----------------------
# table name -> names the library uses for the same field (labels only; layout never comes
# from here).  A library field whose name belongs to a DIFFERENT position of the same struct
# level (and not to its own position) is a field-order defect.
LIB_NAME_SYNONYMS = {
    "_tagged_fields": {"tags"}, "acks": {"required_acks"}, "api_keys": {"api_versions"},
    "assignment": {"member_assignment", "member_metadata"},
    "assignments": {"group_assignment", "replica_assignment", "assignment"},
    "auth_bytes": {"sasl_auth_bytes"}, "base_offset": {"offset"}, "broker_ids": {"replicas"},
    "commit_timestamp": {"timestamp"}, "committed": {"transaction_result"},
    "committed_metadata": {"metadata"}, "committed_offset": {"offset"},
    "configs": {"config_entries"}, "configuration_keys": {"config_names"}, "count": {"count"},
    "fetch_offset": {"offset"}, "filter_results": {"filter_responses"},
    "generation_id_or_member_epoch": {"consumer_group_generation_id", "generation_id"},
    "group_id": {"consumer_group", "group"}, "group_state": {"state"},
    "high_watermark": {"highwater_offset"}, "host_filter": {"host"}, "index": {"partition"},
    "isr_nodes": {"isr"}, "key": {"consumer_group", "coordinator_key", "name"},
    "key_type": {"coordinator_type"}, "leader": {"leader_id"}, "leader_id": {"leader"},
    "log_append_time_ms": {"timestamp"}, "max_num_offsets": {"max_offsets"},
    "max_wait_ms": {"max_wait_time"}, "mechanisms": {"enabled_mechanisms"},
    "member_id": {"consumer_id"}, "metadata": {"member_metadata", "protocol_metadata"},
    "name": {"config_key", "config_name", "config_names", "protocol_name", "topic"},
    "node_id": {"coordinator_id"}, "old_style_offsets": {"offsets"},
    "partition_data": {"partitions"}, "partition_index": {"partition", "partition_id"},
    "partition_indexes": {"partition_index", "partitions"}, "partition_max_bytes": {"max_bytes"},
    "partition_responses": {"partitions"}, "partitions": {"partition_errors"},
    "pattern_type": {"resource_pattern_type"}, "pattern_type_filter": {"resource_pattern_type_filter"},
    "resource_pattern_type": {"resource_pattern_type_filter"},
    "principal_filter": {"principal"}, "protocol_data": {"protocol"},
    "protocol_name": {"group_protocol"}, "protocols": {"group_protocols"},
    "rebalance_timeout_ms": {"rebalance_timeout"}, "records": {"message_set", "messages"},
    "replica_nodes": {"replicas"}, "resource_name_filter": {"resource_name"},
    "resource_type_filter": {"resource_type"},
    "responses": {"resources", "topic_error_codes", "topics"},
    "results": {"creation_responses", "errors", "partition_errors", "resources", "topic_errors"},
    "retention_time_ms": {"retention_time"}, "session_timeout_ms": {"session_timeout"},
    "source": {"config_source"}, "synonyms": {"config_synonyms"}, "timeout_ms": {"timeout"},
    "topic": {"topics"}, "topic_data": {"topics"}, "topic_names": {"topics"},
    "topics": {"create_topic_requests", "errors", "topic_errors", "topic_partitions", "subscription"},
    "value": {"config_value"}, "request_api_key": {"api_key"}, "request_api_version": {"api_version"},
    "assigned_partitions": {"assignment"},
}


def _same_name(my, lib):
    return my == lib or lib in LIB_NAME_SYNONYMS.get(my, ())


def _flat_named_my(schema):
    """[(name, type)] with inline structs flattened."""
    out = []
    for name, t, _d in schema:
        if isinstance(t, tuple) and t[0] == "struct":
            out.extend(_flat_named_my(t[1]))
        else:
            out.append((name, t))
    return out


def _flat_named_lib(schema, T):
    out = []
    for name, t in zip(schema.names, schema.fields):
        if isinstance(t, T.Schema):
            out.extend(_flat_named_lib(t, T))
        else:
            out.append((name, t))
    return out


def name_report(my_schema, lib_schema, T, path=""):
    """-> (swaps, unmatched): swaps = fields whose library name belongs to another position."""
    swaps, unmatched = [], []
    my = _flat_named_my(my_schema)
    lib = _flat_named_lib(lib_schema, T)
    if len(my) != len(lib):
        return swaps, unmatched
    my_names = [n for n, _ in my]
    for i, ((mn, mt), (ln, lt)) in enumerate(zip(my, lib)):
        if not _same_name(mn, ln):
            other = [m for j, m in enumerate(my_names) if j != i and _same_name(m, ln)]
            if other:
                swaps.append(f"{path}#{i}: library field '{ln}' sits where Kafka has '{mn}' (its own place is '{other[0]}')")
            else:
                unmatched.append(f"{path}.{mn}~{ln}")
        if isinstance(mt, tuple) and mt[0] == "array" and isinstance(mt[1], tuple) \
                and isinstance(lt, T.Array) and isinstance(lt.array_of, T.Schema):
            s, u = name_report(mt[1][1], lt.array_of, T, f"{path}.{mn}")
            swaps += s
            unmatched += u
    return swaps, unmatched


# =====================================================================================
# table value (dict form) -> library positional form
# =====================================================================================

class LayoutError(Exception):
    pass


def to_lib_struct(my_schema, lib_schema, value, T):
    """dict by table names -> list of positional values in the library's nesting."""
    leaves = [(t, value[name]) for name, t in _flat_named_my_values(my_schema, value)]
    it = iter(leaves)
    out = _consume(lib_schema, it, T)
    rest = list(it)
    if rest:
        raise LayoutError(f"table has {len(rest)} more field(s) than the library schema")
    return out


def _flat_named_my_values(schema, value):
    # inline structs do not occur in the current tables; arrays-of-struct are handled by to_lib
    return [(name, t) for name, t, _d in schema]


def _consume(lib_schema, it, T):
    out = []
    for lt in lib_schema.fields:
        if isinstance(lt, T.Schema):
            out.append(tuple(_consume(lt, it, T)))
            continue
        try:
            mt, v = next(it)
        except StopIteration:
            raise LayoutError("library schema has more fields than the table") from None
        out.append(to_lib(mt, lt, v, T))
    return out


def to_lib(mt, lt, v, T):
    if isinstance(mt, str):
        if mt == "tagged_fields":
            return dict(v)
        return v
    if mt[0] == "array":
        if v is None:
            return None
        if not isinstance(lt, T.Array):
            raise LayoutError(f"table array vs library {lt!r}")
        et, lo = mt[1], lt.array_of
        if isinstance(et, tuple):           # array of struct
            sch = et[1]
            if isinstance(lo, T.Schema):
                return [tuple(to_lib_struct(sch, lo, item, T)) for item in v]
            if len(sch) == 1:               # single-field struct vs bare element
                name, ft, _d = sch[0]
                return [to_lib(ft, lo, item[name], T) for item in v]
            raise LayoutError(f"table struct array vs library element {lo!r}")
        if isinstance(lo, T.Schema):
            if len(lo.fields) == 1:
                return [(to_lib(et, lo.fields[0], item, T),) for item in v]
            raise LayoutError("table primitive array vs library struct array")
        return list(v)
    raise LayoutError(f"unsupported table type {mt!r}")


def norm(v):
    """tuples -> lists, recursively (library decode returns tuples for nested structs)."""
    if isinstance(v, (list, tuple)):
        return [norm(x) for x in v]
    if isinstance(v, dict):
        return {k: norm(x) for k, x in v.items()}
    return v


def same(a, b):
    """equality that treats NaN == NaN and distinguishes 0.0 / -0.0, bool/int alike."""
    if isinstance(a, float) or isinstance(b, float):
        if not isinstance(a, (int, float)) or not isinstance(b, (int, float)):
            return False
        return _struct.pack(">d", a) == _struct.pack(">d", b)
    if isinstance(a, list) and isinstance(b, list):
        return len(a) == len(b) and all(same(x, y) for x, y in zip(a, b))
    if isinstance(a, dict) and isinstance(b, dict):
        return a.keys() == b.keys() and all(same(a[k], b[k]) for k in a)
    return type(a) is type(b) and a == b or (isinstance(a, (bool, int)) and isinstance(b, (bool, int)) and a == b)


def jsonable(v):
    if isinstance(v, bytes):
        return {"hex": v.hex()} if len(v) <= 64 else {"hex_prefix": v[:32].hex(), "len": len(v)}
    if isinstance(v, str):
        return v if len(v) <= 80 else {"str_prefix": v[:40], "len": len(v)}
    if isinstance(v, float):
        return v if math.isfinite(v) else repr(v)
    if isinstance(v, (list, tuple)):
        if len(v) > 8:
            return {"list_len": len(v), "first": [jsonable(x) for x in v[:3]]}
        return [jsonable(x) for x in v]
    if isinstance(v, dict):
        return {str(k): jsonable(x) for k, x in v.items()}
    return v


def hexs(b, limit=400):
    if b is None:
        return None
    h = bytes(b).hex()
    return h if len(h) <= 2 * limit else h[:2 * limit] + f"...({len(b)} bytes)"


# =====================================================================================
# value generation from the table
# =====================================================================================

INT_RANGES = {
    "int8": (-2 ** 7, 2 ** 7 - 1), "int16": (-2 ** 15, 2 ** 15 - 1), "int32": (-2 ** 31, 2 ** 31 - 1),
    "int64": (-2 ** 63, 2 ** 63 - 1), "uint16": (0, 2 ** 16 - 1), "uint32": (0, 2 ** 32 - 1),
    "uvarint": (0, 2 ** 32 - 1), "varint": (-2 ** 31, 2 ** 31 - 1), "varlong": (-2 ** 63, 2 ** 63 - 1),
}
UVARINT_EDGES = [0, 1, 127, 128, 16383, 16384, 2097151, 2097152, 268435455, 268435456, 2 ** 31 - 1, 2 ** 31,
                 2 ** 32 - 1]
STR_POOL = ["", "a", "topic-1", "my.group_id", "héllo wörld", "日本語トピック",
            "\U0001f600\U0001f389", "nul\x00inside", " ", "é" * 63, "x" * 126, "x" * 127, "x" * 128,
            "é" * 64, "y" * 255, "y" * 256]
FLOATS = [0.0, -0.0, 1.0, -1.5, float("inf"), float("-inf"), float("nan"), 5e-324, 1.7976931348623157e308,
          2.2250738585072014e-308, 1e21, 0.1]
TAG_POOL = [1, 2, 3, 5, 127, 128, 16383, 16384, 2 ** 31 - 1]


class Gen:
    def __init__(self, rng: random.Random, tags: str = "empty", big: bool = False):
        self.rng, self.tags, self.big = rng, tags, big
        self.features = set()

    def integer(self, t):
        lo, hi = INT_RANGES[t]
        r = self.rng.random()
        if r < 0.30:
            self.features.add("int_extreme")
            return self.rng.choice([lo, hi, lo + 1, hi - 1])
        if r < 0.55:
            return self.rng.choice([0, 1, -1 if lo < 0 else 2, 7, 255, 256] if hi > 256 else [0, 1, -1 if lo < 0 else 2, 7])
        if t == "uvarint" and r < 0.8:
            self.features.add("boundary_len")
            return self.rng.choice(UVARINT_EDGES)
        return self.rng.randint(lo, hi)

    def string(self, nullable, compact):
        rng = self.rng
        if nullable and rng.random() < 0.2:
            self.features.add("null")
            return None
        r = rng.random()
        if self.big and r < 0.04:
            self.features.add("boundary_len")
            n = rng.choice([16382, 16383, 16384, 32766, 32767])
            return "z" * n
        if r < 0.6:
            s = rng.choice(STR_POOL)
        else:
            n = rng.randint(1, 24)
            alphabet = "abcXYZ09-_.äß€中\U0001f680 "
            s = "".join(rng.choice(alphabet) for _ in range(n))
        if not s.isascii():
            self.features.add("non_ascii")
        if len(s.encode()) in (126, 127, 128, 255, 256):
            self.features.add("boundary_len")
        return s

    def bytes_(self, nullable):
        rng = self.rng
        if nullable and rng.random() < 0.2:
            self.features.add("null")
            return None
        r = rng.random()
        if self.big and r < 0.04:
            self.features.add("boundary_len")
            return bytes([rng.randrange(256)]) * rng.choice([16382, 16383, 16384, 2097151, 2097152])
        if r < 0.2:
            return b""
        if r < 0.35:
            self.features.add("boundary_len")
            return rng.randbytes(rng.choice([126, 127, 128]))
        return rng.randbytes(rng.randint(1, 20))

    def tagged(self):
        rng = self.rng
        if self.tags == "empty" or rng.random() < 0.4:
            return {}
        self.features.add("tags")
        n = rng.choice([1, 1, 2, 3])
        pool = list(TAG_POOL)
        if self.tags == "zero":
            pool = [0] + pool
        tags = rng.sample(pool, n)
        if self.tags == "zero" and 0 not in tags:
            tags[0] = 0
        out = {}
        for tag in sorted(tags):
            r = rng.random()
            if r < 0.2:
                data = b""
            elif r < 0.35:
                data = rng.randbytes(rng.choice([127, 128]))
            else:
                data = rng.randbytes(rng.randint(1, 6))
            out[tag] = data
        return out

    def value(self, t, depth=0):
        rng = self.rng
        if isinstance(t, str):
            if t in INT_RANGES:
                return self.integer(t)
            if t == "bool":
                return rng.random() < 0.5
            if t == "float64":
                return rng.choice(FLOATS) if rng.random() < 0.6 else rng.uniform(-1e9, 1e9)
            if t == "tagged_fields":
                return self.tagged()
            if t == "uuid":
                return rng.randbytes(16)
            if t.endswith("string"):
                return self.string("nullable" in t, t.startswith("compact"))
            if t.endswith("bytes") or t.endswith("records"):
                return self.bytes_("nullable" in t or t.endswith("records"))
            raise ValueError(t)
        if t[0] == "struct":
            return self.struct(t[1], depth)
        if t[0] == "array":
            _, elem, nullable, compact = t
            if nullable and rng.random() < 0.2:
                self.features.add("null")
                return None
            r = rng.random()
            if r < 0.2:
                self.features.add("empty_array")
                return []
            if self.big and depth == 0 and r < 0.26:
                self.features.add("boundary_len")
                n = rng.choice([126, 127, 128])
            elif depth == 0:
                n = rng.choice([1, 1, 2, 3])
            else:
                n = rng.choice([1, 1, 2])
            if depth > 0 or isinstance(elem, tuple):
                self.features.add("nested")
            sub = Gen(rng, self.tags, False) if n > 8 else self
            out = [sub.value(elem, depth + 1) for _ in range(n)]
            return out
        raise ValueError(t)

    def struct(self, schema, depth=0):
        return {name: self.value(t, depth) for name, t, _d in schema}


def strip_tags(schema, value):
    """copy of value with every tagged-field section emptied."""
    out = {}
    for name, t, _d in schema:
        v = value[name]
        if t == "tagged_fields":
            out[name] = {}
        elif isinstance(t, tuple) and t[0] == "array" and isinstance(t[1], tuple) and v is not None:
            out[name] = [strip_tags(t[1][1], item) for item in v]
        elif isinstance(t, tuple) and t[0] == "struct":
            out[name] = strip_tags(t[1], v)
        else:
            out[name] = v
    return out


def collect_tags(schema, value, acc):
    for name, t, _d in schema:
        v = value[name]
        if t == "tagged_fields":
            if v:
                acc.append(v)
        elif isinstance(t, tuple) and t[0] == "array" and isinstance(t[1], tuple) and v is not None:
            for item in v:
                collect_tags(t[1][1], item, acc)
        elif isinstance(t, tuple) and t[0] == "struct":
            collect_tags(t[1], v, acc)
    return acc


# =====================================================================================
# result recorder
# =====================================================================================

class Rec:
    def __init__(self, params):
        self.params = params
        self.res = {"evaluations": 0, "nontrivial": [], "violations": [], "inconclusive": [],
                    "counters": {}, "sets": {}, "samples": []}
        self._per_mech = {}
        self._nt = set()

    def count(self, name, n=1):
        c = self.res["counters"]
        c[name] = c.get(name, 0) + n

    def note(self, set_name, text):
        s = self.res["sets"].setdefault(set_name, [])
        if text not in s and len(s) < 400:
            s.append(text)

    def nontrivial(self, label, features):
        if features:
            s = sig([label, sorted(features)])
            if s not in self._nt:
                self._nt.add(s)
                self.res["nontrivial"].append(s)

    def fail(self, judged, mechanism, what, witness):
        """judged -> violation (capped per mechanism); otherwise observation."""
        if not judged:
            self.count("observation_failures")
            self.note("observations", f"{mechanism}: {what[:300]}")
            return
        self.count("violating_cases")
        n = self._per_mech.get(mechanism, 0)
        self._per_mech[mechanism] = n + 1
        if n >= MAX_WITNESS_PER_MECH:
            self.count("violations_not_listed_duplicates")
            return
        self.res["violations"].append({"mechanism": mechanism, "what": what, "witness": witness})

    def inconclusive(self, text):
        if text not in self.res["inconclusive"] and len(self.res["inconclusive"]) < 40:
            self.res["inconclusive"].append(text)


# =====================================================================================
# one (class, value) case
# =====================================================================================

def make_instance(t: Target, args, L):
    cls = t.cls
    if cls.__name__.startswith("RequestHeader_v"):
        fake = _pytypes.SimpleNamespace(API_KEY=args[0], API_VERSION=args[1])
        if len(args) == 5:
            return cls(fake, correlation_id=args[2], client_id=args[3], tags=args[4])
        return cls(fake, correlation_id=args[2], client_id=args[3])
    return cls(*args)


def positional(inst):
    return norm([inst.__dict__[n] for n in inst.SCHEMA.names])


def lib_decode_all(cls, data: bytes):
    """library decode + number of bytes consumed"""
    bio = io.BytesIO(data)
    inst = cls.decode(bio)
    return inst, bio.tell()


def run_value_case(t: Target, value, L, rec: Rec, case_id, tags_mode="empty"):
    """checks (i) (ii) (iii) for one value.  -> list of (kind, what, extra) failures (not yet recorded)."""
    fails = []
    T = L.T
    try:
        ref = wire.encode_struct(t.schema, value)
        back, off = wire.decode_struct(t.schema, ref)
        if off != len(ref) or not same(norm(back), norm(value)):
            rec.inconclusive(f"oracle self-check failed for {t.name}: reference decode(encode(v)) != v")
            return fails
    except wire.WireError as e:
        rec.inconclusive(f"oracle could not encode its own generated value for {t.name}: {e}")
        return fails
    try:
        args = to_lib_struct(t.schema, t.cls.SCHEMA, value, T)
    except LayoutError as e:
        fails.append(("layout", f"value cannot be mapped onto the library schema: {e}", {"ref_hex": hexs(ref)}))
        return fails
    orig = norm(args)
    lib_bytes = None
    try:
        inst = make_instance(t, args, L)
        lib_bytes = inst.encode()
    except Exception as e:  # noqa: BLE001
        fails.append(("encode_raises", f"library encode raised {type(e).__name__}: {str(e)[:160]}",
                      {"ref_hex": hexs(ref)}))
    if lib_bytes is not None:
        rec.count("encodes_compared")
        if lib_bytes != ref:
            fails.append(("encode_mismatch", _first_diff(lib_bytes, ref),
                          {"lib_hex": hexs(lib_bytes), "ref_hex": hexs(ref)}))
    if t.cls.__name__.startswith("RequestHeader_v"):
        rec.note("observations", "request_header_decode_unusable: RequestHeader_v1/v2.decode passes schema "
                                 "values to a constructor that expects a request object (never called by clients)")
        return fails
    for which, data in (("own", lib_bytes), ("reference", ref)):
        if data is None or (which == "reference" and data == lib_bytes):
            if data is not None:
                rec.count("lib_decodes_compared")
            continue
        try:
            dec, used = lib_decode_all(t.cls, data)
            got = positional(dec)
        except Exception as e:  # noqa: BLE001
            fails.append((f"decode_{which}_raises", f"library decode of {which} bytes raised "
                          f"{type(e).__name__}: {str(e)[:160]}", {"data_hex": hexs(data)}))
            continue
        rec.count("lib_decodes_compared")
        if used != len(data):
            fails.append((f"decode_{which}_length", f"library decode of {which} bytes consumed {used} of "
                          f"{len(data)} bytes", {"data_hex": hexs(data)}))
        elif not same(got, orig):
            fails.append((f"decode_{which}_value", f"library decode of {which} bytes differs from the original: "
                          f"{_first_value_diff(orig, got)}", {"data_hex": hexs(data)}))
    return fails


def _first_diff(a: bytes, b: bytes) -> str:
    n = min(len(a), len(b))
    i = next((k for k in range(n) if a[k] != b[k]), n)
    return (f"library bytes ({len(a)}) != reference bytes ({len(b)}), first difference at offset {i}: "
            f"library ..{a[max(0, i - 4):i + 8].hex()} reference ..{b[max(0, i - 4):i + 8].hex()}")


def _first_value_diff(a, b, path="") -> str:
    if isinstance(a, list) and isinstance(b, list):
        if len(a) != len(b):
            return f"{path}: length {len(a)} vs {len(b)}"
        for i, (x, y) in enumerate(zip(a, b)):
            if not same(x, y):
                return _first_value_diff(x, y, f"{path}[{i}]")
    if isinstance(a, dict) and isinstance(b, dict):
        return f"{path}: {jsonable(a)!r} vs {jsonable(b)!r}"
    return f"{path}: {jsonable(a)!r} vs {jsonable(b)!r}"


def tagged_primitive_defect(tags: dict, L):
    """Does the library's TaggedFields primitive itself mis-handle this tag dict?
    -> None | 'rejects_tag_zero' | 'nonempty_roundtrip'"""
    TF = L.T.TaggedFields
    ref = wire.encode_tagged_fields(tags)
    try:
        lb = TF.encode(dict(tags))
    except AssertionError:
        return "rejects_tag_zero" if 0 in tags else "nonempty_roundtrip"
    except Exception:  # noqa: BLE001
        return "nonempty_roundtrip"
    if lb != ref:
        return "nonempty_roundtrip"
    return None


def check_target_value(t: Target, case_seed: str, L, rec: Rec, tags_mode, big):
    """One generated value through (i)-(iii); classification and recording."""
    rng = random.Random(case_seed)
    g = Gen(rng, tags_mode, big)
    value = g.struct(t.schema)
    rec.res["evaluations"] += 1
    rec.nontrivial(t.label, g.features)
    witness_base = {"class": t.name, "label": t.label, "value": jsonable(value),
                    "shard": {"kind": "one", "class": t.name, "case_seed": case_seed,
                              "tags_mode": tags_mode, "big": big, "mode": "value"}}
    tag_dicts = collect_tags(t.schema, value, []) if tags_mode != "empty" else []
    if tag_dicts:
        rec.count("cases_with_nonempty_tags")
        # everything except the tag sections must hold on its own
        plain = strip_tags(t.schema, value)
        for kind, what, extra in run_value_case(t, plain, L, rec, case_seed):
            rec.fail(t.judged, f"{t.label}_{kind}", f"{t.name}: {what}",
                     {**witness_base, "value": jsonable(plain), **extra})
        fails = run_value_case(t, value, L, rec, case_seed)
        if fails:
            defects = {tagged_primitive_defect(d, L) for d in tag_dicts} - {None}
            if defects:
                for d in sorted(defects):
                    rec.count("tagged_field_defect_cases")
                    kind, what, extra = fails[0]
                    rec.fail(True, f"tagged_fields_encode_{d}",
                             ("TaggedFields.encode asserts tag > 0 although tag 0 is a valid Kafka tag"
                              if d == "rejects_tag_zero" else
                              "TaggedFields.encode writes tag and data but not the data size, so a non-empty "
                              "tag section is not the Kafka layout and does not decode back to the original")
                             + f" (seen in {t.name}: {what})",
                             {**witness_base, "tag_sections": jsonable(tag_dicts), **extra})
            else:
                for kind, what, extra in fails:
                    rec.fail(t.judged, f"{t.label}_{kind}", f"{t.name}: {what}", {**witness_base, **extra})
        return value
    for kind, what, extra in run_value_case(t, value, L, rec, case_seed):
        rec.fail(t.judged, f"{t.label}_{kind}", f"{t.name}: {what}", {**witness_base, **extra})
    return value


def check_reply_case(req_t: Target, case_seed: str, L, rec: Rec, big):
    """A reply laid out by the table for (api key, header version) must be parsed correctly by
    RESPONSE_TYPE, behind the response header form the request class announces."""
    cls = req_t.cls
    key = (cls.API_KEY, cls.API_VERSION)
    schema = wire.SCHEMAS[key]["response"]
    rng = random.Random(case_seed)
    g = Gen(rng, "empty", big)
    value = g.struct(schema)
    corr = rng.choice([0, 1, 2 ** 31 - 1, rng.randint(0, 2 ** 31 - 1)])
    rec.res["evaluations"] += 1
    api = snake(wire.SCHEMAS[key]["name"])
    mech = f"{api}_v{key[1]}_response_type_schema"
    witness = {"class": cls.__name__, "response_type": cls.RESPONSE_TYPE.__name__, "value": jsonable(value),
               "shard": {"kind": "one", "class": cls.__name__, "case_seed": case_seed, "big": big, "mode": "reply"}}
    try:
        header = wire.encode_response_header(key[0], key[1], corr)
        body = wire.encode_struct(schema, value)
    except wire.WireError as e:
        rec.inconclusive(f"oracle could not encode a reply for {cls.__name__}: {e}")
        return
    frame = header + body
    witness["frame_hex"] = hexs(frame)
    RT = cls.RESPONSE_TYPE
    try:
        inst = cls.__new__(cls)
        bio = io.BytesIO(frame)
        h = inst.parse_response_header(bio)
        if h.correlation_id != corr or bio.tell() != len(header):
            rec.fail(req_t.judged, f"{api}_v{key[1]}_response_header_form",
                     f"{cls.__name__}.parse_response_header read correlation_id={h.correlation_id} and "
                     f"{bio.tell()} bytes; Kafka header is {len(header)} bytes with correlation_id={corr}", witness)
            return
        dec = RT.decode(bio)
        used = bio.tell()
        got = positional(dec)
    except Exception as e:  # noqa: BLE001
        rec.count("reply_decodes_compared")
        rec.fail(req_t.judged, mech, f"reply to {cls.__name__} (header version {key[1]}) parsed with "
                 f"{RT.__name__} raised {type(e).__name__}: {str(e)[:120]}", witness)
        return
    rec.count("reply_decodes_compared")
    try:
        expect = norm(to_lib_struct(schema, RT.SCHEMA, value, L.T))
    except LayoutError as e:
        expect = None
        why = str(e)
    if used != len(frame):
        rec.fail(req_t.judged, mech, f"reply to {cls.__name__} (header version {key[1]}) parsed with {RT.__name__}: "
                 f"{used} of {len(frame)} bytes consumed - the schema used is not the one of version {key[1]}", witness)
    elif expect is None:
        rec.fail(req_t.judged, mech, f"{RT.__name__} schema cannot hold a version-{key[1]} reply: {why}", witness)
    elif not same(got, expect):
        rec.fail(req_t.judged, mech, f"reply to {cls.__name__} parsed with {RT.__name__} differs from what the "
                 f"broker sent: {_first_value_diff(expect, got)}", witness)
