"""C11 - API messages encode to the Kafka wire format and negotiate versions safely.

Oracle: vf.wire / vf.wire_tables (hand-written from the Kafka message definitions, never
imports aiokafka).  For every library struct class (enumerated at run time) and seeded random
in-range values generated FROM THE TABLE:
  (i)   library encode == reference encode of the same value
  (ii)  library decode(library bytes) == original
  (iii) library decode(reference bytes) == original
plus: structural comparison of every schema and of RESPONSE_TYPE against the table for
(api key, version written in the header), header forms, prepare() negotiation over every
(min,max) pair, and the builder parameters named in the statement.

Scoping (DESIGN.md section 6, C11): structs reachable from a Request builder's _CLASSES (plus
their RESPONSE_TYPE, headers, consumer-protocol and sticky user-data structs) are JUDGED;
structs that are merely defined are exercised the same way but their failures are recorded as
observations (sets["observations"]) and never as violations.
"""
from __future__ import annotations

import importlib
import inspect
import io
import math
import pkgutil
import random
import re
import struct as _struct
import types as _pytypes

from vf import repoimport, wire
from vf.runner import sig

PROPERTY_ID = "C11"
LEVEL = "exploration"
RULE = (
    "case = (library struct class, value generated from the independent table by random.Random(case seed)): "
    "integer extremes, null/empty/non-ASCII strings, null/empty/nested arrays, null bytes, string/bytes/array "
    "lengths at uvarint boundaries (126/127/128, 16383/16384), empty and non-empty tagged fields; for request "
    "classes additionally a reply generated from the RESPONSE table of (api key, header version) and parsed "
    "with RESPONSE_TYPE. Static part: schema shape and field order of every class vs table, header forms, "
    "prepare() over every (min,max) in 0..max+2 per builder, builder parameters named in the statement. "
    "Non-trivial = the value contains at least one of {null, non-ASCII, empty array, nested array element, "
    "integer extreme, boundary length, non-empty tag section}. Distinct = (class, set of those features)."
)
ASSUMPTIONS = [
    "vf.wire_tables is a faithful transcription of the Kafka message definitions for the covered versions "
    "(every disagreement with the library was re-read against the Kafka definition, see evidence sets)",
    "the library has no notion of non-nullable fields, so null is generated only where Kafka allows it",
    "single-field structs inside arrays and inline (non-array) nested structs are wire-identical to their "
    "flattened form and are compared after flattening",
    "aiokafka.protocol.message.Message (legacy record format) is covered by C09, not here",
    "RequestHeader_v1/v2.decode is never used by a client and cannot be called (constructor signature); "
    "recorded as an observation",
]
REQUIRED_COUNTERS = [
    "structs_judged", "encodes_compared", "lib_decodes_compared", "reply_decodes_compared",
    "negotiation_pairs_checked", "builder_param_cases_checked", "response_type_pairs_checked",
    "header_cases_checked", "primitive_cases_checked", "negotiation_unadvertised_key_checked",
]

MAX_WITNESS_PER_MECH = 3


# =====================================================================================
# library access
# =====================================================================================

class Lib:
    pass


def load_lib() -> Lib:
    repoimport.use_repo()
    L = Lib()
    import aiokafka
    import aiokafka.protocol as P
    for m in pkgutil.iter_modules(P.__path__):
        importlib.import_module("aiokafka.protocol." + m.name)
    import aiokafka.coordinator.protocol  # noqa: F401
    import aiokafka.coordinator.assignors.sticky.sticky_assignor  # noqa: F401
    from aiokafka.errors import IncompatibleBrokerVersion
    from aiokafka.protocol import api, types
    from aiokafka.protocol.struct import Struct
    L.root = aiokafka.__file__
    L.api, L.T, L.Struct = api, types, Struct
    L.Incompatible = IncompatibleBrokerVersion
    L.request_structs = _subclasses(api.RequestStruct)
    L.responses = _subclasses(api.Response)
    L.builders = [b for b in _subclasses(api.Request) if hasattr(b, "_CLASSES")]
    L.other_structs = [c for c in _subclasses(Struct)
                       if not issubclass(c, (api.RequestStruct, api.Response))]
    return L


def _subclasses(c):
    out, seen = [], set()
    stack = list(c.__subclasses__())
    while stack:
        s = stack.pop(0)
        if s in seen:
            continue
        seen.add(s)
        out.append(s)
        stack.extend(s.__subclasses__())
    return sorted(out, key=lambda k: (k.__module__, k.__name__))


def snake(name: str) -> str:
    return re.sub(r"(?<=[a-z0-9])(?=[A-Z])", "_", name).lower()


AUX_MAP = {
    "RequestHeader_v1": "request_header_v1",
    "RequestHeader_v2": "request_header_v2",
    "ResponseHeader_v0": "response_header_v0",
    "ResponseHeader_v1": "response_header_v1",
    "ConsumerProtocolMemberMetadata": "consumer_protocol_subscription_v0",
    "ConsumerProtocolMemberAssignment": "consumer_protocol_assignment_v0",
    "ProtocolMetadata": "consumer_protocol_subscription_v0",
    "MemberAssignment": "consumer_protocol_assignment_v0",
    "StickyAssignorUserDataV1": "sticky_assignor_user_data_v1",
}
EXCLUDED = {"Message"}  # legacy record format: C09


class Target:
    """One library struct class paired with its table schema."""

    def __init__(self, cls, kind, schema, judged, label, key=None):
        self.cls, self.kind, self.schema, self.judged, self.label, self.key = cls, kind, schema, judged, label, key
        self.name = cls.__name__


def build_targets(L):
    """-> (targets, untabled class names, excluded class names, judged request classes)"""
    judged_req = set()
    for b in L.builders:
        judged_req.update(b._CLASSES)
    judged_resp = {c.RESPONSE_TYPE for c in judged_req}
    targets, untabled, excluded = [], [], []
    for c in L.request_structs:
        e = wire.SCHEMAS.get((c.API_KEY, c.API_VERSION))
        if e is None:
            untabled.append(c.__name__)
            continue
        label = f"{snake(e['name'])}_v{c.API_VERSION}_request"
        targets.append(Target(c, "request", e["request"], c in judged_req, label, (c.API_KEY, c.API_VERSION)))
    for c in L.responses:
        try:
            key = (int(c.API_KEY), int(c.API_VERSION))
        except Exception:
            untabled.append(c.__name__)
            continue
        e = wire.SCHEMAS.get(key)
        if e is None:
            untabled.append(c.__name__)
            continue
        label = f"{snake(e['name'])}_v{key[1]}_response"
        targets.append(Target(c, "response", e["response"], c in judged_resp, label, key))
    for c in L.other_structs:
        if c.__name__ in EXCLUDED:
            excluded.append(c.__name__)
            continue
        aux = AUX_MAP.get(c.__name__)
        if aux is None:
            untabled.append(c.__name__)
            continue
        targets.append(Target(c, "aux", wire.AUX[aux], True, snake(c.__name__).replace("__", "_")))
    return targets, untabled, excluded, judged_req


# =====================================================================================
# shapes: normalised structural form of a schema (library side and table side)
# =====================================================================================

_MY_NORM = {
    "nullable_string": "string", "compact_nullable_string": "compact_string",
    "nullable_bytes": "bytes", "records": "bytes",
    "compact_nullable_bytes": "compact_bytes", "compact_records": "compact_bytes",
}


def _flat(fields):
    out = []
    for f in fields:
        if isinstance(f, tuple) and f[0] == "struct":
            out.extend(_flat(f[1]))
        else:
            out.append(f)
    return tuple(out)


def _elem(shape):
    if isinstance(shape, tuple) and shape[0] == "struct":
        inner = _flat(shape[1])
        if len(inner) == 1:
            return inner[0]
        return ("struct", inner)
    return shape


def my_shape(t):
    if isinstance(t, str):
        return _MY_NORM.get(t, t)
    if t[0] == "struct":
        return ("struct", _flat(tuple(my_shape(f[1]) for f in t[1])))
    if t[0] == "array":
        return ("compact_array" if t[3] else "array", _elem(my_shape(t[1])))
    raise ValueError(t)


def my_schema_shape(schema):
    return my_shape(("struct", schema))


def lib_shape(t, T):
    if isinstance(t, T.Schema):
        return ("struct", _flat(tuple(lib_shape(f, T) for f in t.fields)))
    if isinstance(t, T.CompactArray):
        return ("compact_array", _elem(lib_shape(t.array_of, T)))
    if isinstance(t, T.Array):
        return ("array", _elem(lib_shape(t.array_of, T)))
    if isinstance(t, T.CompactString):
        return "compact_string"
    if isinstance(t, T.String):
        return "string"
    names = {
        T.Int8: "int8", T.Int16: "int16", T.Int32: "int32", T.Int64: "int64", T.UInt32: "uint32",
        T.Float64: "float64", T.Boolean: "bool", T.Bytes: "bytes", T.CompactBytes: "compact_bytes",
        T.UnsignedVarInt32: "uvarint", T.VarInt32: "varint", T.VarInt64: "varlong",
        T.TaggedFields: "tagged_fields",
    }
    if isinstance(t, type) and t in names:
        return names[t]
    return ("unknown", repr(t))


def shape_diff(a, b, path=""):
    """First difference between two shapes (table, library) as text, or None."""
    if a == b:
        return None
    if isinstance(a, tuple) and isinstance(b, tuple) and a[0] == b[0]:
        if a[0] == "struct":
            if len(a[1]) != len(b[1]):
                return f"{path or '<top>'}: table has {len(a[1])} fields {_short(a[1])}, library has {len(b[1])} {_short(b[1])}"
            for i, (x, y) in enumerate(zip(a[1], b[1])):
                d = shape_diff(x, y, f"{path}#{i}")
                if d:
                    return d
        else:
            return shape_diff(a[1], b[1], path + "[]")
    return f"{path or '<top>'}: table {_short(a)} vs library {_short(b)}"


def _short(s):
    if isinstance(s, tuple):
        if s and s[0] in ("array", "compact_array"):
            return f"{s[0]}<{_short(s[1])}>"
        if s and s[0] == "struct":
            return "{" + ",".join(_short(x) for x in s[1]) + "}"
        return "(" + ",".join(_short(x) for x in s) + ")"
    return str(s)


# ---- field names: only used to detect two fields trading places -----------------------
# table name -> names the library uses for the same field (labels only; layout never comes
# from here).  A library field whose name belongs to a DIFFERENT position of the same struct
# level (and not to its own position) is a field-order defect.
LIB_NAME_SYNONYMS = {
    "_tagged_fields": {"tags"}, "acks": {"required_acks"}, "api_keys": {"api_versions"},
    "assignment": {"member_assignment", "member_metadata"},
    "assignments": {"group_assignment", "replica_assignment", "assignment"},
    "auth_bytes": {"sasl_auth_bytes"}, "base_offset": {"offset"}, "broker_ids": {"replicas"},
    "commit_timestamp": {"timestamp"}, "committed": {"transaction_result"},
    "committed_metadata": {"metadata"}, "committed_offset": {"offset"},
    "configs": {"config_entries"}, "configuration_keys": {"config_names"}, "count": {"count"},
    "fetch_offset": {"offset"}, "filter_results": {"filter_responses"},
    "generation_id_or_member_epoch": {"consumer_group_generation_id", "generation_id"},
    "group_id": {"consumer_group", "group"}, "group_state": {"state"},
    "high_watermark": {"highwater_offset"}, "host_filter": {"host"}, "index": {"partition"},
    "isr_nodes": {"isr"}, "key": {"consumer_group", "coordinator_key", "name"},
    "key_type": {"coordinator_type"}, "leader": {"leader_id"}, "leader_id": {"leader"},
    "log_append_time_ms": {"timestamp"}, "max_num_offsets": {"max_offsets"},
    "max_wait_ms": {"max_wait_time"}, "mechanisms": {"enabled_mechanisms"},
    "member_id": {"consumer_id"}, "metadata": {"member_metadata", "protocol_metadata"},
    "name": {"config_key", "config_name", "config_names", "protocol_name", "topic"},
    "node_id": {"coordinator_id"}, "old_style_offsets": {"offsets"},
    "partition_data": {"partitions"}, "partition_index": {"partition", "partition_id"},
    "partition_indexes": {"partition_index", "partitions"}, "partition_max_bytes": {"max_bytes"},
    "partition_responses": {"partitions"}, "partitions": {"partition_errors"},
    "pattern_type": {"resource_pattern_type"}, "pattern_type_filter": {"resource_pattern_type_filter"},
    "resource_pattern_type": {"resource_pattern_type_filter"},
    "principal_filter": {"principal"}, "protocol_data": {"protocol"},
    "protocol_name": {"group_protocol"}, "protocols": {"group_protocols"},
    "rebalance_timeout_ms": {"rebalance_timeout"}, "records": {"message_set", "messages"},
    "replica_nodes": {"replicas"}, "resource_name_filter": {"resource_name"},
    "resource_type_filter": {"resource_type"},
    "responses": {"resources", "topic_error_codes", "topics"},
    "results": {"creation_responses", "errors", "partition_errors", "resources", "topic_errors"},
    "retention_time_ms": {"retention_time"}, "session_timeout_ms": {"session_timeout"},
    "source": {"config_source"}, "synonyms": {"config_synonyms"}, "timeout_ms": {"timeout"},
    "topic": {"topics"}, "topic_data": {"topics"}, "topic_names": {"topics"},
    "topics": {"create_topic_requests", "errors", "topic_errors", "topic_partitions", "subscription"},
    "value": {"config_value"}, "request_api_key": {"api_key"}, "request_api_version": {"api_version"},
    "assigned_partitions": {"assignment"},
}


def _same_name(my, lib):
    return my == lib or lib in LIB_NAME_SYNONYMS.get(my, ())


def _flat_named_my(schema):
    """[(name, type)] with inline structs flattened."""
    out = []
    for name, t, _d in schema:
        if isinstance(t, tuple) and t[0] == "struct":
            out.extend(_flat_named_my(t[1]))
        else:
            out.append((name, t))
    return out


def _flat_named_lib(schema, T):
    out = []
    for name, t in zip(schema.names, schema.fields):
        if isinstance(t, T.Schema):
            out.extend(_flat_named_lib(t, T))
        else:
            out.append((name, t))
    return out


def name_report(my_schema, lib_schema, T, path=""):
    """-> (swaps, unmatched): swaps = fields whose library name belongs to another position."""
    swaps, unmatched = [], []
    my = _flat_named_my(my_schema)
    lib = _flat_named_lib(lib_schema, T)
    if len(my) != len(lib):
        return swaps, unmatched
    my_names = [n for n, _ in my]
    for i, ((mn, mt), (ln, lt)) in enumerate(zip(my, lib)):
        if not _same_name(mn, ln):
            other = [m for j, m in enumerate(my_names) if j != i and _same_name(m, ln)]
            if other:
                swaps.append(f"{path}#{i}: library field '{ln}' sits where Kafka has '{mn}' (its own place is '{other[0]}')")
            else:
                unmatched.append(f"{path}.{mn}~{ln}")
        if isinstance(mt, tuple) and mt[0] == "array" and isinstance(mt[1], tuple) \
                and isinstance(lt, T.Array) and isinstance(lt.array_of, T.Schema):
            s, u = name_report(mt[1][1], lt.array_of, T, f"{path}.{mn}")
            swaps += s
            unmatched += u
    return swaps, unmatched


# =====================================================================================
# table value (dict form) -> library positional form
# =====================================================================================

class LayoutError(Exception):
    pass


def to_lib_struct(my_schema, lib_schema, value, T):
    """dict by table names -> list of positional values in the library's nesting."""
    leaves = [(t, value[name]) for name, t in _flat_named_my_values(my_schema, value)]
    it = iter(leaves)
    out = _consume(lib_schema, it, T)
    rest = list(it)
    if rest:
        raise LayoutError(f"table has {len(rest)} more field(s) than the library schema")
    return out


def _flat_named_my_values(schema, value):
    # inline structs do not occur in the current tables; arrays-of-struct are handled by to_lib
    return [(name, t) for name, t, _d in schema]


def _consume(lib_schema, it, T):
    out = []
    for lt in lib_schema.fields:
        if isinstance(lt, T.Schema):
            out.append(tuple(_consume(lt, it, T)))
            continue
        try:
            mt, v = next(it)
        except StopIteration:
            raise LayoutError("library schema has more fields than the table") from None
        out.append(to_lib(mt, lt, v, T))
    return out


def to_lib(mt, lt, v, T):
    if isinstance(mt, str):
        if mt == "tagged_fields":
            return dict(v)
        return v
    if mt[0] == "array":
        if v is None:
            return None
        if not isinstance(lt, T.Array):
            raise LayoutError(f"table array vs library {lt!r}")
        et, lo = mt[1], lt.array_of
        if isinstance(et, tuple):           # array of struct
            sch = et[1]
            if isinstance(lo, T.Schema):
                return [tuple(to_lib_struct(sch, lo, item, T)) for item in v]
            if len(sch) == 1:               # single-field struct vs bare element
                name, ft, _d = sch[0]
                return [to_lib(ft, lo, item[name], T) for item in v]
            raise LayoutError(f"table struct array vs library element {lo!r}")
        if isinstance(lo, T.Schema):
            if len(lo.fields) == 1:
                return [(to_lib(et, lo.fields[0], item, T),) for item in v]
            raise LayoutError("table primitive array vs library struct array")
        return list(v)
    raise LayoutError(f"unsupported table type {mt!r}")


def norm(v):
    """tuples -> lists, recursively (library decode returns tuples for nested structs)."""
    if isinstance(v, (list, tuple)):
        return [norm(x) for x in v]
    if isinstance(v, dict):
        return {k: norm(x) for k, x in v.items()}
    return v


def same(a, b):
    """equality that treats NaN == NaN and distinguishes 0.0 / -0.0, bool/int alike."""
    if isinstance(a, float) or isinstance(b, float):
        if not isinstance(a, (int, float)) or not isinstance(b, (int, float)):
            return False
        return _struct.pack(">d", a) == _struct.pack(">d", b)
    if isinstance(a, list) and isinstance(b, list):
        return len(a) == len(b) and all(same(x, y) for x, y in zip(a, b))
    if isinstance(a, dict) and isinstance(b, dict):
        return a.keys() == b.keys() and all(same(a[k], b[k]) for k in a)
    return type(a) is type(b) and a == b or (isinstance(a, (bool, int)) and isinstance(b, (bool, int)) and a == b)


def jsonable(v):
    if isinstance(v, bytes):
        return {"hex": v.hex()} if len(v) <= 64 else {"hex_prefix": v[:32].hex(), "len": len(v)}
    if isinstance(v, str):
        return v if len(v) <= 80 else {"str_prefix": v[:40], "len": len(v)}
    if isinstance(v, float):
        return v if math.isfinite(v) else repr(v)
    if isinstance(v, (list, tuple)):
        if len(v) > 8:
            return {"list_len": len(v), "first": [jsonable(x) for x in v[:3]]}
        return [jsonable(x) for x in v]
    if isinstance(v, dict):
        return {str(k): jsonable(x) for k, x in v.items()}
    return v


def hexs(b, limit=400):
    if b is None:
        return None
    h = bytes(b).hex()
    return h if len(h) <= 2 * limit else h[:2 * limit] + f"...({len(b)} bytes)"


# =====================================================================================
# value generation from the table
# =====================================================================================

INT_RANGES = {
    "int8": (-2 ** 7, 2 ** 7 - 1), "int16": (-2 ** 15, 2 ** 15 - 1), "int32": (-2 ** 31, 2 ** 31 - 1),
    "int64": (-2 ** 63, 2 ** 63 - 1), "uint16": (0, 2 ** 16 - 1), "uint32": (0, 2 ** 32 - 1),
    "uvarint": (0, 2 ** 32 - 1), "varint": (-2 ** 31, 2 ** 31 - 1), "varlong": (-2 ** 63, 2 ** 63 - 1),
}
UVARINT_EDGES = [0, 1, 127, 128, 16383, 16384, 2097151, 2097152, 268435455, 268435456, 2 ** 31 - 1, 2 ** 31,
                 2 ** 32 - 1]
STR_POOL = ["", "a", "topic-1", "my.group_id", "héllo wörld", "日本語トピック",
            "\U0001f600\U0001f389", "nul\x00inside", " ", "é" * 63, "x" * 126, "x" * 127, "x" * 128,
            "é" * 64, "y" * 255, "y" * 256]
FLOATS = [0.0, -0.0, 1.0, -1.5, float("inf"), float("-inf"), float("nan"), 5e-324, 1.7976931348623157e308,
          2.2250738585072014e-308, 1e21, 0.1]
TAG_POOL = [1, 2, 3, 5, 127, 128, 16383, 16384, 2 ** 31 - 1]


class Gen:
    def __init__(self, rng: random.Random, tags: str = "empty", big: bool = False):
        self.rng, self.tags, self.big = rng, tags, big
        self.features = set()

    def integer(self, t):
        lo, hi = INT_RANGES[t]
        r = self.rng.random()
        if r < 0.30:
            self.features.add("int_extreme")
            return self.rng.choice([lo, hi, lo + 1, hi - 1])
        if r < 0.55:
            return self.rng.choice([0, 1, -1 if lo < 0 else 2, 7, 255, 256] if hi > 256 else [0, 1, -1 if lo < 0 else 2, 7])
        if t == "uvarint" and r < 0.8:
            self.features.add("boundary_len")
            return self.rng.choice(UVARINT_EDGES)
        return self.rng.randint(lo, hi)

    def string(self, nullable, compact):
        rng = self.rng
        if nullable and rng.random() < 0.2:
            self.features.add("null")
            return None
        r = rng.random()
        if self.big and r < 0.04:
            self.features.add("boundary_len")
            n = rng.choice([16382, 16383, 16384, 32766, 32767])
            return "z" * n
        if r < 0.6:
            s = rng.choice(STR_POOL)
        else:
            n = rng.randint(1, 24)
            alphabet = "abcXYZ09-_.äß€中\U0001f680 "
            s = "".join(rng.choice(alphabet) for _ in range(n))
        if not s.isascii():
            self.features.add("non_ascii")
        if len(s.encode()) in (126, 127, 128, 255, 256):
            self.features.add("boundary_len")
        return s

    def bytes_(self, nullable):
        rng = self.rng
        if nullable and rng.random() < 0.2:
            self.features.add("null")
            return None
        r = rng.random()
        if self.big and r < 0.04:
            self.features.add("boundary_len")
            return bytes([rng.randrange(256)]) * rng.choice([16382, 16383, 16384, 2097151, 2097152])
        if r < 0.2:
            return b""
        if r < 0.35:
            self.features.add("boundary_len")
            return rng.randbytes(rng.choice([126, 127, 128]))
        return rng.randbytes(rng.randint(1, 20))

    def tagged(self):
        rng = self.rng
        if self.tags == "empty" or rng.random() < 0.4:
            return {}
        self.features.add("tags")
        n = rng.choice([1, 1, 2, 3])
        pool = list(TAG_POOL)
        if self.tags == "zero":
            pool = [0] + pool
        tags = rng.sample(pool, n)
        if self.tags == "zero" and 0 not in tags:
            tags[0] = 0
        out = {}
        for tag in sorted(tags):
            r = rng.random()
            if r < 0.2:
                data = b""
            elif r < 0.35:
                data = rng.randbytes(rng.choice([127, 128]))
            else:
                data = rng.randbytes(rng.randint(1, 6))
            out[tag] = data
        return out

    def value(self, t, depth=0):
        rng = self.rng
        if isinstance(t, str):
            if t in INT_RANGES:
                return self.integer(t)
            if t == "bool":
                return rng.random() < 0.5
            if t == "float64":
                return rng.choice(FLOATS) if rng.random() < 0.6 else rng.uniform(-1e9, 1e9)
            if t == "tagged_fields":
                return self.tagged()
            if t == "uuid":
                return rng.randbytes(16)
            if t.endswith("string"):
                return self.string("nullable" in t, t.startswith("compact"))
            if t.endswith("bytes") or t.endswith("records"):
                return self.bytes_("nullable" in t or t.endswith("records"))
            raise ValueError(t)
        if t[0] == "struct":
            return self.struct(t[1], depth)
        if t[0] == "array":
            _, elem, nullable, compact = t
            if nullable and rng.random() < 0.2:
                self.features.add("null")
                return None
            r = rng.random()
            if r < 0.2:
                self.features.add("empty_array")
                return []
            if self.big and depth == 0 and r < 0.26:
                self.features.add("boundary_len")
                n = rng.choice([126, 127, 128])
            elif depth == 0:
                n = rng.choice([1, 1, 2, 3])
            else:
                n = rng.choice([1, 1, 2])
            if depth > 0 or isinstance(elem, tuple):
                self.features.add("nested")
            sub = Gen(rng, self.tags, False) if n > 8 else self
            out = [sub.value(elem, depth + 1) for _ in range(n)]
            return out
        raise ValueError(t)

    def struct(self, schema, depth=0):
        return {name: self.value(t, depth) for name, t, _d in schema}


def strip_tags(schema, value):
    """copy of value with every tagged-field section emptied."""
    out = {}
    for name, t, _d in schema:
        v = value[name]
        if t == "tagged_fields":
            out[name] = {}
        elif isinstance(t, tuple) and t[0] == "array" and isinstance(t[1], tuple) and v is not None:
            out[name] = [strip_tags(t[1][1], item) for item in v]
        elif isinstance(t, tuple) and t[0] == "struct":
            out[name] = strip_tags(t[1], v)
        else:
            out[name] = v
    return out


def collect_tags(schema, value, acc):
    for name, t, _d in schema:
        v = value[name]
        if t == "tagged_fields":
            if v:
                acc.append(v)
        elif isinstance(t, tuple) and t[0] == "array" and isinstance(t[1], tuple) and v is not None:
            for item in v:
                collect_tags(t[1][1], item, acc)
        elif isinstance(t, tuple) and t[0] == "struct":
            collect_tags(t[1], v, acc)
    return acc


# =====================================================================================
# result recorder
# =====================================================================================

class Rec:
    def __init__(self, params):
        self.params = params
        self.res = {"evaluations": 0, "nontrivial": [], "violations": [], "inconclusive": [],
                    "counters": {}, "sets": {}, "samples": []}
        self._per_mech = {}
        self._nt = set()
        self._obs_examples = set()

    def count(self, name, n=1):
        c = self.res["counters"]
        c[name] = c.get(name, 0) + n

    def note(self, set_name, text):
        s = self.res["sets"].setdefault(set_name, [])
        if text not in s and len(s) < 400:
            s.append(text)

    def nontrivial(self, label, features):
        if features:
            s = sig([label, sorted(features)])
            if s not in self._nt:
                self._nt.add(s)
                self.res["nontrivial"].append(s)

    def fail(self, judged, mechanism, what, witness):
        """judged -> violation (capped per mechanism); otherwise observation."""
        if not judged:
            self.count("observation_failures")
            self.note("observations", mechanism)
            if mechanism not in self._obs_examples and self.params.get("kind") in ("static", "one"):
                self._obs_examples.add(mechanism)
                self.note("observation_examples", f"{mechanism}: {what[:300]}")
            return
        self.count("violating_cases")
        n = self._per_mech.get(mechanism, 0)
        self._per_mech[mechanism] = n + 1
        if n >= MAX_WITNESS_PER_MECH:
            self.count("violations_not_listed_duplicates")
            return
        self.res["violations"].append({"mechanism": mechanism, "what": what, "witness": witness})

    def inconclusive(self, text):
        if text not in self.res["inconclusive"] and len(self.res["inconclusive"]) < 40:
            self.res["inconclusive"].append(text)


# =====================================================================================
# one (class, value) case
# =====================================================================================

def make_instance(t: Target, args, L):
    cls = t.cls
    if cls.__name__.startswith("RequestHeader_v"):
        fake = _pytypes.SimpleNamespace(API_KEY=args[0], API_VERSION=args[1])
        if len(args) == 5:
            return cls(fake, correlation_id=args[2], client_id=args[3], tags=args[4])
        return cls(fake, correlation_id=args[2], client_id=args[3])
    return cls(*args)


def positional(inst):
    return norm([inst.__dict__[n] for n in inst.SCHEMA.names])


def lib_decode_all(cls, data: bytes):
    """library decode + number of bytes consumed"""
    bio = io.BytesIO(data)
    inst = cls.decode(bio)
    return inst, bio.tell()


def run_value_case(t: Target, value, L, rec: Rec, case_id, tags_mode="empty"):
    """checks (i) (ii) (iii) for one value.  -> list of (kind, what, extra) failures (not yet recorded)."""
    fails = []
    T = L.T
    try:
        ref = wire.encode_struct(t.schema, value)
        back, off = wire.decode_struct(t.schema, ref)
        if off != len(ref) or not same(norm(back), norm(value)):
            rec.inconclusive(f"oracle self-check failed for {t.name}: reference decode(encode(v)) != v")
            return fails
    except wire.WireError as e:
        rec.inconclusive(f"oracle could not encode its own generated value for {t.name}: {e}")
        return fails
    try:
        args = to_lib_struct(t.schema, t.cls.SCHEMA, value, T)
    except LayoutError as e:
        fails.append(("layout", f"value cannot be mapped onto the library schema: {e}", {"ref_hex": hexs(ref)}))
        return fails
    orig = norm(args)
    lib_bytes = None
    try:
        inst = make_instance(t, args, L)
        lib_bytes = inst.encode()
    except Exception as e:  # noqa: BLE001
        fails.append(("encode_raises", f"library encode raised {type(e).__name__}: {str(e)[:160]}",
                      {"ref_hex": hexs(ref)}))
    if lib_bytes is not None:
        rec.count("encodes_compared")
        if lib_bytes != ref:
            fails.append(("encode_mismatch", _first_diff(lib_bytes, ref),
                          {"lib_hex": hexs(lib_bytes), "ref_hex": hexs(ref)}))
    if t.cls.__name__.startswith("RequestHeader_v"):
        rec.note("observations", "request_header_decode_unusable: RequestHeader_v1/v2.decode passes schema "
                                 "values to a constructor that expects a request object (never called by clients)")
        return fails
    for which, data in (("own", lib_bytes), ("reference", ref)):
        if data is None or (which == "reference" and data == lib_bytes):
            if data is not None:
                rec.count("lib_decodes_compared")
            continue
        try:
            dec, used = lib_decode_all(t.cls, data)
            got = positional(dec)
        except Exception as e:  # noqa: BLE001
            fails.append((f"decode_{which}_raises", f"library decode of {which} bytes raised "
                          f"{type(e).__name__}: {str(e)[:160]}", {"data_hex": hexs(data)}))
            continue
        rec.count("lib_decodes_compared")
        if used != len(data):
            fails.append((f"decode_{which}_length", f"library decode of {which} bytes consumed {used} of "
                          f"{len(data)} bytes", {"data_hex": hexs(data)}))
        elif not same(got, orig):
            fails.append((f"decode_{which}_value", f"library decode of {which} bytes differs from the original: "
                          f"{_first_value_diff(orig, got)}", {"data_hex": hexs(data)}))
    return fails


def _first_diff(a: bytes, b: bytes) -> str:
    n = min(len(a), len(b))
    i = next((k for k in range(n) if a[k] != b[k]), n)
    return (f"library bytes ({len(a)}) != reference bytes ({len(b)}), first difference at offset {i}: "
            f"library ..{a[max(0, i - 4):i + 8].hex()} reference ..{b[max(0, i - 4):i + 8].hex()}")


def _first_value_diff(a, b, path="") -> str:
    if isinstance(a, list) and isinstance(b, list):
        if len(a) != len(b):
            return f"{path}: length {len(a)} vs {len(b)}"
        for i, (x, y) in enumerate(zip(a, b)):
            if not same(x, y):
                return _first_value_diff(x, y, f"{path}[{i}]")
    if isinstance(a, dict) and isinstance(b, dict):
        return f"{path}: {jsonable(a)!r} vs {jsonable(b)!r}"
    return f"{path}: {jsonable(a)!r} vs {jsonable(b)!r}"


def tagged_primitive_defect(tags: dict, L):
    """Does the library's TaggedFields primitive itself mis-handle this tag dict?
    -> None | 'rejects_tag_zero' | 'nonempty_roundtrip'"""
    TF = L.T.TaggedFields
    ref = wire.encode_tagged_fields(tags)
    try:
        lb = TF.encode(dict(tags))
    except AssertionError:
        return "rejects_tag_zero" if 0 in tags else "nonempty_roundtrip"
    except Exception:  # noqa: BLE001
        return "nonempty_roundtrip"
    if lb != ref:
        return "nonempty_roundtrip"
    return None


def check_target_value(t: Target, case_seed: str, L, rec: Rec, tags_mode, big):
    """One generated value through (i)-(iii); classification and recording."""
    rng = random.Random(case_seed)
    g = Gen(rng, tags_mode, big)
    value = g.struct(t.schema)
    rec.res["evaluations"] += 1
    rec.nontrivial(t.label, g.features)
    def witness_base():
        return {"class": t.name, "label": t.label, "value": jsonable(value),
                "shard": {"kind": "one", "class": t.name, "case_seed": case_seed,
                          "tags_mode": tags_mode, "big": big, "mode": "value"}}
    tag_dicts = collect_tags(t.schema, value, []) if tags_mode != "empty" else []
    if tag_dicts:
        rec.count("cases_with_nonempty_tags")
        # everything except the tag sections must hold on its own
        plain = strip_tags(t.schema, value)
        for kind, what, extra in run_value_case(t, plain, L, rec, case_seed):
            rec.fail(t.judged, f"{t.label}_{kind}", f"{t.name}: {what}",
                     {**witness_base(), "value": jsonable(plain), **extra})
        fails = run_value_case(t, value, L, rec, case_seed)
        if fails:
            defects = {tagged_primitive_defect(d, L) for d in tag_dicts} - {None}
            if defects:
                for d in sorted(defects):
                    rec.count("tagged_field_defect_cases")
                    kind, what, extra = fails[0]
                    rec.fail(True, f"tagged_fields_encode_{d}",
                             ("TaggedFields.encode asserts tag > 0 although tag 0 is a valid Kafka tag"
                              if d == "rejects_tag_zero" else
                              "TaggedFields.encode writes tag and data but not the data size, so a non-empty "
                              "tag section is not the Kafka layout and does not decode back to the original")
                             + f" (seen in {t.name}: {what})",
                             {**witness_base(), "tag_sections": jsonable(tag_dicts), **extra})
            else:
                for kind, what, extra in fails:
                    rec.fail(t.judged, f"{t.label}_{kind}", f"{t.name}: {what}", {**witness_base(), **extra})
        return value
    for kind, what, extra in run_value_case(t, value, L, rec, case_seed):
        rec.fail(t.judged, f"{t.label}_{kind}", f"{t.name}: {what}", {**witness_base(), **extra})
    return value


def check_reply_case(req_t: Target, case_seed: str, L, rec: Rec, big):
    """A reply laid out by the table for (api key, header version) must be parsed correctly by
    RESPONSE_TYPE, behind the response header form the request class announces."""
    cls = req_t.cls
    key = (cls.API_KEY, cls.API_VERSION)
    schema = wire.SCHEMAS[key]["response"]
    rng = random.Random(case_seed)
    g = Gen(rng, "empty", big)
    value = g.struct(schema)
    corr = rng.choice([0, 1, 2 ** 31 - 1, rng.randint(0, 2 ** 31 - 1)])
    rec.res["evaluations"] += 1
    api = snake(wire.SCHEMAS[key]["name"])
    mech = f"{api}_v{key[1]}_response_type_schema"
    witness = {"class": cls.__name__, "response_type": cls.RESPONSE_TYPE.__name__, "value": jsonable(value),
               "shard": {"kind": "one", "class": cls.__name__, "case_seed": case_seed, "big": big, "mode": "reply"}}
    try:
        header = wire.encode_response_header(key[0], key[1], corr)
        body = wire.encode_struct(schema, value)
    except wire.WireError as e:
        rec.inconclusive(f"oracle could not encode a reply for {cls.__name__}: {e}")
        return
    frame = header + body
    witness["frame_hex"] = hexs(frame)
    RT = cls.RESPONSE_TYPE
    try:
        inst = cls.__new__(cls)
        bio = io.BytesIO(frame)
        h = inst.parse_response_header(bio)
        if h.correlation_id != corr or bio.tell() != len(header):
            rec.fail(req_t.judged, f"{api}_v{key[1]}_response_header_form",
                     f"{cls.__name__}.parse_response_header consumed {bio.tell()} bytes"
                     f"{'' if h.correlation_id == corr else ' and misread the correlation id'}; the Kafka response "
                     f"header for version {key[1]} is {len(header)} bytes", witness)
            return
        dec = RT.decode(bio)
        used = bio.tell()
        got = positional(dec)
    except Exception as e:  # noqa: BLE001
        rec.count("reply_decodes_compared")
        rec.fail(req_t.judged, mech, f"reply to {cls.__name__} (header version {key[1]}) parsed with "
                 f"{RT.__name__} raised {type(e).__name__}: {str(e)[:120]}", witness)
        return
    rec.count("reply_decodes_compared")
    try:
        expect = norm(to_lib_struct(schema, RT.SCHEMA, value, L.T))
    except LayoutError as e:
        expect = None
        why = str(e)
    if used != len(frame):
        rec.fail(req_t.judged, mech, f"reply to {cls.__name__} (header version {key[1]}) parsed with {RT.__name__}: "
                 f"{used} of {len(frame)} bytes consumed - the schema used is not the one of version {key[1]}", witness)
    elif expect is None:
        rec.fail(req_t.judged, mech, f"{RT.__name__} schema cannot hold a version-{key[1]} reply: {why}", witness)
    elif not same(got, expect):
        rec.fail(req_t.judged, mech, f"reply to {cls.__name__} parsed with {RT.__name__} differs from what the "
                 f"broker sent: {_first_value_diff(expect, got)}", witness)


# =====================================================================================
# static checks: schema shapes, field order, flexible flags, RESPONSE_TYPE pairing
# =====================================================================================

def check_structure(targets, L, rec: Rec):
    T = L.T
    reach = set()
    for t in targets:
        ms, ls = my_schema_shape(t.schema), lib_shape(t.cls.SCHEMA, T)
        _collect_prims(t.cls.SCHEMA, T, reach)
        rec.res["evaluations"] += 1
        rec.count("structs_judged" if t.judged else "structs_observed_only")
        if not t.judged:
            rec.note("observation_only_classes", t.name)
        d = shape_diff(ms, ls)
        w = {"class": t.name, "table_shape": _short(ms), "library_shape": _short(ls),
             "shard": {"kind": "static"}}
        if d:
            rec.fail(t.judged, f"{t.label}_layout", f"{t.name}.SCHEMA differs from the Kafka layout at {d}", w)
        swaps, unmatched = name_report(t.schema, t.cls.SCHEMA, T)
        for s in swaps:
            rec.fail(t.judged, f"{t.label}_field_order", f"{t.name}: {s}", w)
        for u in unmatched:
            rec.note("field_names_not_matched", f"{t.name}{u}")
        if t.kind == "request":
            m = re.search(r"_v(\d+)$", t.name)
            if m and int(m.group(1)) != t.cls.API_VERSION:
                rec.note("observations", f"class_name_version: {t.name} declares API_VERSION={t.cls.API_VERSION}")
            flex = wire.SCHEMAS[t.key]["flexible"]
            if bool(t.cls.FLEXIBLE_VERSION) != flex:
                rec.fail(t.judged, f"{t.label}_header_form",
                         f"{t.name}.FLEXIBLE_VERSION={t.cls.FLEXIBLE_VERSION} but Kafka version {t.key[1]} of "
                         f"{wire.SCHEMAS[t.key]['name']} is {'flexible' if flex else 'not flexible'} "
                         f"(request header v{2 if flex else 1}, response header v{1 if flex else 0})", w)
            # RESPONSE_TYPE pairing, structural
            RT = t.cls.RESPONSE_TYPE
            rs = lib_shape(RT.SCHEMA, T)
            want = my_schema_shape(wire.SCHEMAS[t.key]["response"])
            rec.count("response_type_pairs_checked")
            d = shape_diff(want, rs)
            if d:
                api = snake(wire.SCHEMAS[t.key]["name"])
                rec.fail(t.judged, f"{api}_v{t.key[1]}_response_type_schema",
                         f"{t.name} writes version {t.key[1]} in the header but RESPONSE_TYPE={RT.__name__} whose "
                         f"schema differs from the version-{t.key[1]} response at {d}",
                         {"class": t.name, "response_type": RT.__name__, "table_shape": _short(want),
                          "library_shape": _short(rs), "shard": {"kind": "static"}})
            try:
                if int(RT.API_VERSION) != t.cls.API_VERSION:
                    rec.note("observations", f"response_type_version_attr: {t.name} (v{t.cls.API_VERSION}) -> "
                                             f"{RT.__name__} (API_VERSION={RT.API_VERSION})"
                                             + ("" if d else ", schemas identical: harmless"))
            except Exception:  # noqa: BLE001
                pass
    return reach


def _collect_prims(t, T, acc):
    if isinstance(t, T.Schema):
        for f in t.fields:
            _collect_prims(f, T, acc)
    elif isinstance(t, T.Array):
        acc.add(type(t).__name__)
        _collect_prims(t.array_of, T, acc)
    elif isinstance(t, T.String):
        acc.add(type(t).__name__)
    elif isinstance(t, type):
        acc.add(t.__name__)


# =====================================================================================
# headers
# =====================================================================================

CLIENT_IDS = ["aiokafka", "", "c", "клиент-1", "x" * 127, "x" * 128, None, "id with space"]


def check_headers(targets, L, rec: Rec, rng):
    for t in targets:
        if t.kind != "request":
            continue
        cls = t.cls
        inst = cls.__new__(cls)
        for cid in CLIENT_IDS:
            corr = rng.choice([0, 1, 2 ** 31 - 1, rng.randint(0, 2 ** 31 - 1)])
            rec.count("header_cases_checked")
            rec.res["evaluations"] += 1
            ref = wire.encode_request_header(cls.API_KEY, cls.API_VERSION, corr, cid)
            w = {"class": t.name, "correlation_id": corr, "client_id": cid, "ref_hex": hexs(ref),
                 "shard": {"kind": "static"}}
            try:
                lb = inst.build_request_header(correlation_id=corr, client_id=cid).encode()
            except Exception as e:  # noqa: BLE001
                rec.fail(t.judged, f"{t.label}_header_encode_raises",
                         f"{t.name}.build_request_header raised {type(e).__name__}: {e}", w)
                continue
            if lb != ref:
                w["lib_hex"] = hexs(lb)
                rec.fail(t.judged, f"{t.label}_header_form",
                         f"{t.name} request header bytes differ from Kafka header "
                         f"v{wire.request_header_version(cls.API_KEY, cls.API_VERSION)}: {_first_diff(lb, ref)}", w)
                continue
            k, v, c, ci, off = wire.decode_request_header(lb)
            if (k, v, c, ci, off) != (cls.API_KEY, cls.API_VERSION, corr, cid, len(lb)):
                rec.fail(t.judged, f"{t.label}_header_form", f"{t.name} header decodes to {(k, v, c, ci, off)}", w)


# =====================================================================================
# prepare() negotiation
# =====================================================================================

def builder_instance(B, L, rng):
    """A real builder instance with neutral arguments, or a bare object whose build() returns the
    class (still exercises prepare())."""
    f = FACTORIES.get(B.__name__)
    if f is not None:
        try:
            return B(**f(rng)), True
        except TypeError:
            pass
    inst = object.__new__(B)
    inst.build = lambda c: c.__new__(c)
    return inst, False


def check_negotiation(L, rec: Rec, rng):
    for B in L.builders:
        versions = sorted({c.API_VERSION for c in B._CLASSES})
        top = max(versions)
        inst, real = builder_instance(B, L, rng)
        if not real:
            rec.note("builders_without_factory", B.__name__)
        rec.note("builder_versions", f"{B.__name__}: {versions}")
        for lo in range(0, top + 3):
            for hi in range(lo, top + 3):
                rec.count("negotiation_pairs_checked")
                rec.res["evaluations"] += 1
                inter = [v for v in versions if lo <= v <= hi]
                expect = max(inter) if inter else None
                if expect is None:
                    rec.count("negotiation_disjoint_pairs")
                w = {"builder": B.__name__, "client_versions": versions, "broker_range": [lo, hi],
                     "expected": expect, "shard": {"kind": "static"}}
                mech = f"{snake(B.__name__)}_prepare_version_choice"
                try:
                    got = inst.prepare({B.API_KEY: (lo, hi)})
                except Exception as e:  # noqa: BLE001
                    if expect is not None:
                        w["raised"] = f"{type(e).__name__}: {e}"
                        rec.fail(True, mech, f"{B.__name__}.prepare(({lo},{hi})) raised {type(e).__name__} although "
                                 f"version {expect} is supported by both sides", w)
                    continue
                gv = getattr(type(got), "API_VERSION", getattr(got, "API_VERSION", None))
                w["got"] = f"{type(got).__name__} v{gv}"
                if expect is None:
                    rec.fail(True, mech, f"{B.__name__}.prepare(({lo},{hi})) returned {type(got).__name__} "
                             f"(v{gv}) although no common version exists; client has {versions}", w)
                elif gv != expect:
                    rec.fail(True, mech, f"{B.__name__}.prepare(({lo},{hi})) chose v{gv}; the highest common "
                             f"version is v{expect}" + ("" if lo <= gv <= hi else " and the choice is outside the broker range"), w)
                elif real:
                    # the version written in the header is the chosen one
                    hb = got.build_request_header(correlation_id=7, client_id="c").encode()
                    k, v, *_ = wire.decode_request_header(hb)
                    if (k, v) != (B.API_KEY, expect):
                        rec.fail(True, mech, f"{B.__name__}: header carries ({k},{v}) instead of ({B.API_KEY},{expect})", w)
        # a broker that advertises versions, but none for this API key (an older broker): no version lies inside an
        # advertised range, so nothing may be built (ApiVersions itself is the documented exception)
        if not getattr(B, "ALLOW_UNKNOWN_API_VERSION", False):
            other = {k: (0, 9) for k in (0, 1, 2, 3, 18) if k != B.API_KEY}
            rec.count("negotiation_unadvertised_key_checked")
            rec.res["evaluations"] += 1
            try:
                got = inst.prepare(other)
            except Exception:  # noqa: BLE001
                pass
            else:
                gv = getattr(type(got), "API_VERSION", getattr(got, "API_VERSION", None))
                rec.fail(True, f"{snake(B.__name__)}_prepare_builds_for_unadvertised_api_key",
                         f"{B.__name__}.prepare() built {type(got).__name__} (v{gv}) although the broker's version table "
                         f"{sorted(other)} does not advertise API key {B.API_KEY}",
                         {"builder": B.__name__, "broker_table": {str(k): list(v) for k, v in other.items()},
                          "shard": {"kind": "static"}})
        # no version table at all (not part of the statement): observation only
        try:
            got = inst.prepare({})
            rec.note("observations", f"prepare_without_versions: {B.__name__} -> {type(got).__name__}")
        except Exception as e:  # noqa: BLE001
            rec.note("prepare_without_versions_raises", f"{B.__name__}: {type(e).__name__}")


# =====================================================================================
# builders: neutral arguments, and the parameters the statement names
# =====================================================================================

def _s(rng, prefix):
    return f"{prefix}-{rng.randrange(10 ** 6)}"


_ACL = lambda rng: dict(resource_type=2, resource_name=_s(rng, "res"), resource_pattern_type_filter=3,  # noqa: E731
                        principal="User:" + _s(rng, "u"), host="*", operation=3, permission_type=3)

FACTORIES = {
    "ApiVersionRequest": lambda rng: {},
    "ListGroupsRequest": lambda rng: {},
    "ProduceRequest": lambda rng: dict(transactional_id=None, required_acks=rng.choice([-1, 0, 1]),
                                       timeout=rng.randint(1, 60000),
                                       topics=[(_s(rng, "t"), [(rng.randint(0, 50), rng.randbytes(9))])]),
    "FetchRequest": lambda rng: dict(max_wait_time=rng.randint(0, 5000), min_bytes=1, max_bytes=rng.randint(1, 2 ** 30),
                                     isolation_level=0,
                                     topics=[(_s(rng, "t"), [(rng.randint(0, 9), rng.randint(0, 2 ** 40), 1048576)])]),
    "OffsetRequest": lambda rng: dict(replica_id=-1, isolation_level=0, topics=[(_s(rng, "t"), [(0, -1), (1, -2)])]),
    "MetadataRequest": lambda rng: dict(topics=[_s(rng, "t")]),
    "OffsetCommitRequest": lambda rng: dict(consumer_group=_s(rng, "g"), consumer_group_generation_id=rng.randint(0, 999),
                                            consumer_id=_s(rng, "m"), retention_time=-1,
                                            topics=[(_s(rng, "t"), [(0, rng.randint(0, 2 ** 40), "meta")])]),
    "OffsetFetchRequest": lambda rng: dict(consumer_group=_s(rng, "g"), partitions=[(_s(rng, "t"), [0, 1])]),
    "JoinGroupRequest": lambda rng: dict(group=_s(rng, "g"), session_timeout=10000, rebalance_timeout=30000,
                                         member_id="", group_instance_id=None, protocol_type="consumer",
                                         group_protocols=[("range", rng.randbytes(5))]),
    "SyncGroupRequest": lambda rng: dict(group=_s(rng, "g"), generation_id=rng.randint(0, 99), member_id=_s(rng, "m"),
                                         group_instance_id=None, group_assignment=[(_s(rng, "m"), rng.randbytes(4))]),
    "HeartbeatRequest": lambda rng: dict(group=_s(rng, "g"), generation_id=rng.randint(0, 99), member_id=_s(rng, "m")),
    "LeaveGroupRequest": lambda rng: dict(group=_s(rng, "g"), member_id=_s(rng, "m")),
    "FindCoordinatorRequest": lambda rng: dict(coordinator_key=_s(rng, "g"), coordinator_type=0),
    "InitProducerIdRequest": lambda rng: dict(transactional_id=None, transaction_timeout_ms=rng.randint(1, 60000)),
    "AddPartitionsToTxnRequest": lambda rng: dict(transactional_id=_s(rng, "tx"), producer_id=rng.randint(0, 2 ** 40),
                                                  producer_epoch=rng.randint(0, 99), topics=[(_s(rng, "t"), [0, 3])]),
    "AddOffsetsToTxnRequest": lambda rng: dict(transactional_id=_s(rng, "tx"), producer_id=rng.randint(0, 2 ** 40),
                                               producer_epoch=rng.randint(0, 99), group_id=_s(rng, "g")),
    "EndTxnRequest": lambda rng: dict(transactional_id=_s(rng, "tx"), producer_id=rng.randint(0, 2 ** 40),
                                      producer_epoch=rng.randint(0, 99), transaction_result=rng.random() < 0.5),
    "TxnOffsetCommitRequest": lambda rng: dict(transactional_id=_s(rng, "tx"), group_id=_s(rng, "g"),
                                               producer_id=rng.randint(0, 2 ** 40), producer_epoch=rng.randint(0, 99),
                                               topics=[(_s(rng, "t"), [(0, rng.randint(0, 2 ** 40), None)])]),
    "CreateTopicsRequest": lambda rng: dict(create_topic_requests=[(_s(rng, "t"), 3, 1, [(0, [1, 2])], [("k", "v")])],
                                            timeout=rng.randint(1, 60000), validate_only=False),
    "DeleteTopicsRequest": lambda rng: dict(topics=[_s(rng, "t")], timeout=rng.randint(1, 60000)),
    "DescribeGroupsRequest": lambda rng: dict(groups=[_s(rng, "g")]),
    "SaslHandShakeRequest": lambda rng: dict(mechanism="SCRAM-SHA-256"),
    "SaslAuthenticateRequest": lambda rng: dict(payload=rng.randbytes(12)),
    "DescribeAclsRequest": _ACL, "CreateAclsRequest": _ACL, "DeleteAclsRequest": _ACL,
    "AlterConfigsRequest": lambda rng: dict(resources=[(2, _s(rng, "t"), [("k", "v"), ("n", None)])]),
    "DescribeConfigsRequest": lambda rng: dict(resources=[(2, _s(rng, "t"), ["k"]), (4, "1", None)]),
    "CreatePartitionsRequest": lambda rng: dict(topic_partitions=[(_s(rng, "t"), (6, [[1, 2], [2, 3]]))],
                                                timeout=rng.randint(1, 60000), validate_only=False),
    "DeleteGroupsRequest": lambda rng: dict(group_names=[_s(rng, "g")]),
    "DescribeClientQuotasRequest": lambda rng: dict(components=[("user", 0, _s(rng, "u")), ("client-id", 1, None)],
                                                    strict=False),
    "AlterPartitionReassignmentsRequest": lambda rng: dict(timeout_ms=rng.randint(1, 60000),
                                                           topics=[(_s(rng, "t"), [(0, [1, 2], {}), (1, None, {})], {})],
                                                           tags={}),
    "ListPartitionReassignmentsRequest": lambda rng: dict(timeout_ms=rng.randint(1, 60000),
                                                          topics=[(_s(rng, "t"), [0, 1], {})], tags={}),
    "DeleteRecordsRequest": lambda rng: dict(topics=[(_s(rng, "t"), [(0, rng.randint(0, 2 ** 40))])],
                                             timeout_ms=rng.randint(1, 60000)),
}


def _ts_of(decoded):
    return [p["timestamp"] for t in decoded["topics"] for p in t["partitions"]]


# builder -> {ctor kwarg: {"field": table field (top level) or extractor, "judged": bool,
#                          "values": [(value, is_non_default, expected decoded value)],
#                          "min_version": first version able to express a non-default (None = by table)}}
TXN = "txn-é-1"
PARAMS = {
    "ProduceRequest": {"transactional_id": dict(field="transactional_id", judged=True, what="transactional id",
                                                values=[(None, False, None), (TXN, True, TXN)])},
    "InitProducerIdRequest": {"transactional_id": dict(field="transactional_id", judged=True, what="transactional id",
                                                       values=[(None, False, None), (TXN, True, TXN)])},
    "AddPartitionsToTxnRequest": {"transactional_id": dict(field="transactional_id", judged=True,
                                                           what="transactional id", values=[(TXN, True, TXN)])},
    "AddOffsetsToTxnRequest": {"transactional_id": dict(field="transactional_id", judged=True,
                                                        what="transactional id", values=[(TXN, True, TXN)])},
    "EndTxnRequest": {"transactional_id": dict(field="transactional_id", judged=True,
                                               what="transactional id", values=[(TXN, True, TXN)])},
    "TxnOffsetCommitRequest": {"transactional_id": dict(field="transactional_id", judged=True,
                                                        what="transactional id", values=[(TXN, True, TXN)])},
    "FetchRequest": {
        "isolation_level": dict(field="isolation_level", judged=True, what="isolation level",
                                values=[(0, False, 0), (1, True, 1)]),
        "rack_id": dict(field="rack_id", judged=False, what="rack id", values=[("", False, ""), ("rack-a", True, "rack-a")]),
    },
    "OffsetRequest": {
        "isolation_level": dict(field="isolation_level", judged=True, what="isolation level",
                                values=[(0, False, 0), (1, True, 1)]),
        # ListOffsets v0 is the old "offsets before" API (max_num_offsets); a lookup by timestamp
        # that returns (timestamp, offset) exists from v1
        "topics": dict(field=_ts_of, judged=True, what="timestamp search", min_version=1,
                       values=[([("t", [(0, -1), (1, -2)])], False, [-1, -2]),
                               ([("t", [(0, 1500000000123)])], True, [1500000000123]),
                               ([("t", [(0, -1), (1, 0)])], True, [-1, 0]),
                               ([("t", [(3, 2 ** 63 - 1)])], True, [2 ** 63 - 1])]),
    },
    "FindCoordinatorRequest": {"coordinator_type": dict(field="key_type", judged=True, what="coordinator type",
                                                        values=[(0, False, 0), (1, True, 1)])},
    "DescribeGroupsRequest": {"include_authorized_operations": dict(
        field="include_authorized_operations", judged=True, what="authorized operations",
        values=[(False, False, False), (True, True, True)])},
    "MetadataRequest": {"allow_auto_topic_creation": dict(field="allow_auto_topic_creation", judged=False,
                                                          what="allow_auto_topic_creation",
                                                          values=[(None, False, True), (False, True, False)])},
    "JoinGroupRequest": {"group_instance_id": dict(field="group_instance_id", judged=False, what="group_instance_id",
                                                   values=[(None, False, None), ("inst-1", True, "inst-1")])},
    "SyncGroupRequest": {"group_instance_id": dict(field="group_instance_id", judged=False, what="group_instance_id",
                                                   values=[(None, False, None), ("inst-1", True, "inst-1")])},
    "CreateTopicsRequest": {"validate_only": dict(field="validate_only", judged=False, what="validate_only",
                                                  values=[(False, False, False), (True, True, True)])},
    "DescribeConfigsRequest": {"include_synonyms": dict(field="include_synonyms", judged=False, what="include_synonyms",
                                                        values=[(False, False, False), (True, True, True)])},
}


def _combos(spec):
    names = sorted(spec)
    out = [{}]
    for n in names:
        out = [{**c, n: v} for c in out for v in spec[n]["values"]]
    return out


def check_builders(L, rec: Rec, rng):
    for B in L.builders:
        name = B.__name__
        fac = FACTORIES.get(name)
        if fac is None:
            rec.note("builders_without_factory", name)
            continue
        spec = PARAMS.get(name, {})
        versions = sorted({c.API_VERSION for c in B._CLASSES})
        api = snake(wire.API_NAMES.get(B.API_KEY, name))
        for v in versions:
            table = wire.SCHEMAS.get((B.API_KEY, v))
            if table is None:
                continue
            fields = {f[0] for f in table["request"]}
            for combo in _combos(spec):
                kwargs = fac(rng)
                kwargs.update({k: val[0] for k, val in combo.items()})
                rec.count("builder_param_cases_checked")
                rec.res["evaluations"] += 1
                nondefault = [k for k, val in combo.items() if val[1]]

                def expressible(k):
                    ps = spec[k]
                    if ps.get("min_version") is not None:
                        return v >= ps["min_version"]
                    return ps["field"] in fields
                w = {"builder": name, "version": v, "kwargs": jsonable(kwargs), "shard": {"kind": "static"}}
                try:
                    st = B(**kwargs).prepare({B.API_KEY: (v, v)})
                    lb = st.encode()
                except L.Incompatible as e:
                    cannot = [k for k in nondefault if not expressible(k)]
                    if cannot:
                        rec.count("builder_params_rejected_incompatible")
                        if len(nondefault) == 1:
                            rec.note("params_rejected", f"{name} v{v}: {spec[cannot[0]]['what']}")
                    else:
                        rec.note("observations", f"spurious_incompatible: {name} v{v} raised for {sorted(nondefault)}: {e}")
                    continue
                except Exception as e:  # noqa: BLE001
                    rec.fail(True, f"{api}_v{v}_builder_raises",
                             f"{name} cannot build/encode version {v}: {type(e).__name__}: {str(e)[:200]}", w)
                    continue
                w["lib_hex"] = hexs(lb)
                if st.API_VERSION != v:
                    rec.fail(True, f"{snake(name)}_prepare_version_choice",
                             f"{name}.prepare(({v},{v})) built {type(st).__name__}", w)
                    continue
                try:
                    dec, off = wire.decode_struct(table["request"], lb)
                    if off != len(lb):
                        raise wire.WireError(f"{len(lb) - off} trailing bytes")
                    if wire.encode_struct(table["request"], dec) != lb:
                        raise wire.WireError("re-encoding the decoded request gives different bytes")
                except wire.WireError as e:
                    rec.fail(True, f"{api}_v{v}_builder_bytes",
                             f"{name} v{v}: built request is not a valid Kafka {wire.API_NAMES[B.API_KEY]} v{v} "
                             f"request: {e}", w)
                    continue
                rec.count("builder_requests_decoded_by_table")
                for k, (val, nd, expect) in combo.items():
                    ps = spec[k]
                    if not nd and not expressible(k):
                        continue
                    if expressible(k):
                        got = ps["field"](dec) if callable(ps["field"]) else dec[ps["field"]]
                        ok = same(norm(got), norm(expect))
                        if ok and nd:
                            rec.count("builder_params_found_encoded")
                        if not ok:
                            mech = f"{snake(name)}_{snake(k)}_wrong_value_encoded"
                            rec.fail(ps["judged"], mech, f"{name} v{v}: {ps['what']}={val!r} was given, the encoded "
                                     f"request carries {got!r}", w)
                    elif nd:
                        mech = f"{snake(name)}_{snake(k)}_silently_dropped"
                        what = (f"{name} v{v}: {ps['what']}={val!r} cannot be expressed by version {v}, yet the "
                                f"request was built without IncompatibleBrokerVersion (parameter silently dropped)")
                        if ps["judged"]:
                            rec.fail(True, mech, what, w)
                        else:
                            rec.note("unjudged_params_dropped", f"{name} v{v}: {ps['what']}")


# =====================================================================================
# primitives
# =====================================================================================

def check_primitives(L, rec: Rec, rng, reach, n_random):
    T = L.T
    compact_reached = bool(reach & {"CompactString", "CompactBytes", "CompactArray", "TaggedFields"})

    def run(label, judged, lib_t, enc, dec, values):
        for v in values:
            rec.count("primitive_cases_checked" if judged else "primitive_cases_observed_only")
            rec.res["evaluations"] += 1
            w = {"primitive": label, "value": jsonable(v), "shard": {"kind": "static"}}
            try:
                ref = enc(v)
            except wire.WireError as e:
                rec.inconclusive(f"oracle cannot encode in-range {label} value {v!r}: {e}")
                continue
            try:
                lb = lib_t.encode(v)
            except Exception as e:  # noqa: BLE001
                rec.fail(judged, f"primitive_{label}_encode_raises", f"{label}.encode({jsonable(v)!r}) raised "
                         f"{type(e).__name__}: {str(e)[:120]}", {**w, "ref_hex": hexs(ref)})
                lb = None
            if lb is not None and lb != ref:
                rec.fail(judged, f"primitive_{label}_encode_mismatch",
                         f"{label}.encode({jsonable(v)!r}) = {hexs(lb, 24)}, Kafka encoding is {hexs(ref, 24)}",
                         {**w, "lib_hex": hexs(lb), "ref_hex": hexs(ref)})
            for which, data in (("own", lb), ("reference", ref)):
                if data is None or (which == "reference" and data == lb):
                    continue
                try:
                    bio = io.BytesIO(data)
                    got = lib_t.decode(bio)
                    used = bio.tell()
                except Exception as e:  # noqa: BLE001
                    rec.fail(judged, f"primitive_{label}_decode_{which}_raises",
                             f"{label}.decode of {which} bytes {hexs(data, 24)} raised {type(e).__name__}",
                             {**w, "data_hex": hexs(data)})
                    continue
                if used != len(data) or not same(norm(got), norm(v)):
                    rec.fail(judged, f"primitive_{label}_decode_{which}_value",
                             f"{label}.decode of {which} bytes {hexs(data, 24)} gives {jsonable(got)!r}, "
                             f"original {jsonable(v)!r}", {**w, "data_hex": hexs(data)})

    P = wire.PRIMITIVES
    for label, lib_t, my in (("Int8", T.Int8, "int8"), ("Int16", T.Int16, "int16"), ("Int32", T.Int32, "int32"),
                             ("Int64", T.Int64, "int64"), ("UInt32", T.UInt32, "uint32")):
        lo, hi = INT_RANGES[my]
        vals = [lo, lo + 1, -1 if lo < 0 else 1, 0, 1, hi - 1, hi] + [rng.randint(lo, hi) for _ in range(n_random)]
        run(label, label in reach, lib_t, P[my][0], P[my][1], vals)
    run("Float64", "Float64" in reach, T.Float64, P["float64"][0], P["float64"][1],
        FLOATS + [rng.uniform(-1e300, 1e300) for _ in range(n_random)])
    run("Boolean", "Boolean" in reach, T.Boolean, P["bool"][0], P["bool"][1], [True, False])
    strings = [None] + STR_POOL + ["z" * 16383, "z" * 16384, "z" * 32767] + \
        [Gen(rng).string(True, False) for _ in range(n_random)]
    run("String", "String" in reach, T.String("utf-8"), P["nullable_string"][0], P["nullable_string"][1], strings)
    run("CompactString", "CompactString" in reach, T.CompactString("utf-8"), P["compact_nullable_string"][0],
        P["compact_nullable_string"][1], strings)
    blobs = [None, b"", b"\x00", rng.randbytes(126), rng.randbytes(127), rng.randbytes(128), rng.randbytes(16383),
             rng.randbytes(16384), b"q" * 2097151, b"q" * 2097152] + [Gen(rng).bytes_(True) for _ in range(n_random)]
    run("Bytes", "Bytes" in reach, T.Bytes, P["nullable_bytes"][0], P["nullable_bytes"][1], blobs)
    run("CompactBytes", "CompactBytes" in reach, T.CompactBytes, P["compact_nullable_bytes"][0],
        P["compact_nullable_bytes"][1], blobs)
    uv = UVARINT_EDGES + [rng.randint(0, 2 ** 32 - 1) for _ in range(n_random)] + \
        [rng.randint(0, 2 ** rng.randint(1, 32) - 1) for _ in range(n_random)]
    run("UnsignedVarInt32", compact_reached or "UnsignedVarInt32" in reach, T.UnsignedVarInt32,
        wire.encode_uvarint, wire.decode_uvarint, uv)
    # arrays of a primitive, incl. null / empty / boundary sizes
    arrs = [None, [], [0], [-1, 2 ** 31 - 1, -2 ** 31], list(range(126)), list(range(127)), list(range(128))] + \
        [[rng.randint(-2 ** 31, 2 ** 31 - 1) for _ in range(rng.randint(1, 6))] for _ in range(n_random)]
    for label, lib_t, compact in (("Array", T.Array(T.Int32), False), ("CompactArray", T.CompactArray(T.Int32), True)):
        t = ("array", "int32", True, compact)

        def enc(v, t=t):
            out = []
            wire._encode_type(t, v, out, "array")
            return b"".join(out)

        def dec(buf, off=0, t=t):
            return wire._decode_type(t, buf, off, "array")
        run(label, label in reach, lib_t, enc, dec, arrs)
    # tagged fields: empty section is judged here; non-empty sections are classified narrowly
    run("TaggedFields_empty", "TaggedFields" in reach, T.TaggedFields, wire.encode_tagged_fields,
        wire.decode_tagged_fields, [{}])
    judged = "TaggedFields" in reach
    for tags in ([{1: b"ab"}, {1: b""}, {5: b"\x01\x02\x03", 127: b"x"}, {128: b"y" * 128}, {2 ** 31 - 1: b"z"},
                  {0: b"ab"}, {0: b"", 3: b"q"}]
                 + [Gen(rng, "nonempty").tagged() for _ in range(n_random)]):
        if not tags:
            continue
        rec.count("primitive_cases_checked" if judged else "primitive_cases_observed_only")
        rec.res["evaluations"] += 1
        d = tagged_primitive_defect(tags, L)
        ref = wire.encode_tagged_fields(tags)
        w = {"primitive": "TaggedFields", "value": jsonable(tags), "ref_hex": hexs(ref), "shard": {"kind": "static"}}
        if d == "rejects_tag_zero":
            rec.fail(judged, "tagged_fields_encode_rejects_tag_zero",
                     f"TaggedFields.encode({jsonable(tags)!r}) asserts tag > 0; Kafka tags start at 0", w)
        elif d:
            lb, back = None, None
            try:
                lb = T.TaggedFields.encode(dict(tags))
                back = T.TaggedFields.decode(io.BytesIO(lb))
            except Exception as e:  # noqa: BLE001
                back = f"<{type(e).__name__} raised>"
            w["lib_hex"] = hexs(lb)
            rec.fail(judged, "tagged_fields_encode_nonempty_roundtrip",
                     f"TaggedFields.encode({jsonable(tags)!r}) = {hexs(lb, 24)} (no size varint); Kafka layout is "
                     f"{hexs(ref, 24)}; decoding the library bytes gives {jsonable(back)!r}", w)
        # decode of the Kafka layout must work whatever encode does
        try:
            got = T.TaggedFields.decode(io.BytesIO(ref))
            if got != tags:
                rec.fail(judged, "primitive_TaggedFields_decode_reference_value",
                         f"TaggedFields.decode({hexs(ref, 24)}) = {jsonable(got)!r}, expected {jsonable(tags)!r}", w)
        except Exception as e:  # noqa: BLE001
            rec.fail(judged, "primitive_TaggedFields_decode_reference_raises", f"{type(e).__name__}: {e}", w)
    # signed varints: referenced by no schema -> observation only
    for label, lib_t, enc, dec, bits in (("VarInt32", T.VarInt32, wire.encode_varint, wire.decode_varint, 32),
                                         ("VarInt64", T.VarInt64, wire.encode_varlong, wire.decode_varlong, 64)):
        lo, hi = -2 ** (bits - 1), 2 ** (bits - 1) - 1
        vals = [0, 1, -1, 63, 64, -64, -65, 8191, 8192, -8192, -8193, lo, hi] + \
            [rng.randint(lo, hi) for _ in range(n_random)]
        run(label, label in reach, lib_t, enc, dec, vals)


# =====================================================================================
# shards
# =====================================================================================

def shards(tier, seed):
    if tier == "quick":
        n_value_shards, per_class, prim_random = 15, 150, 300
    else:
        n_value_shards, per_class, prim_random = 30, 2500, 5000
    out = [{"kind": "static", "seed": seed, "prim_random": prim_random, "timeout_s": 1800}]
    for s in range(n_value_shards):
        out.append({"kind": "values", "seed": seed * 100003 + s, "per_class": per_class, "timeout_s": 3000})
    return out


def _setup(params):
    L = load_lib()
    rec = Rec(params)
    targets, untabled, excluded, judged_req = build_targets(L)
    seen = {}
    for t in targets:  # unique labels (ListGroupsRequest_v1/_v2 both declare API_VERSION 1)
        if t.label in seen:
            t.label = f"{t.label}_{snake(t.name)}"
        seen[t.label] = t
    for n in untabled:
        rec.note("untabled_classes", n)
        rec.inconclusive(f"class {n} has no entry in vf.wire_tables: not judged")
    for n in excluded:
        rec.note("excluded_classes", n)
    rec.note("library_root", L.root)
    return L, rec, targets


def run_shard(params):
    L, rec, targets = _setup(params)
    kind = params.get("kind")
    if kind == "static":
        rng = random.Random(f"static:{params.get('seed', 0)}")
        reach = check_structure(targets, L, rec)
        for p in sorted(reach):
            rec.note("primitives_reachable", p)
        check_headers(targets, L, rec, rng)
        check_negotiation(L, rec, rng)
        check_builders(L, rec, rng)
        check_primitives(L, rec, rng, reach, int(params.get("prim_random", 100)))
        for v in rec.res["violations"]:      # replay = the same static shard
            v["witness"]["shard"] = {"kind": "static", "seed": params.get("seed", 0),
                                     "prim_random": int(params.get("prim_random", 100))}
    elif kind == "values":
        per = int(params["per_class"])
        base = params["seed"]
        for t in targets:
            flexible = any(f[1] == "tagged_fields" for f in t.schema)
            for i in range(per):
                if flexible:
                    mode = ("empty", "nonempty", "zero", "empty")[i % 4] if i % 8 else "nonempty"
                else:
                    mode = "empty"
                big = (i % 12 == 5)
                cs = f"{base}:{t.name}:{i}"
                try:
                    v = check_target_value(t, cs, L, rec, mode, big)
                    if i == 0 and len(rec.res["samples"]) < 3 and t.kind != "aux":
                        rec.res["samples"].append({"class": t.name, "case_seed": cs, "value": jsonable(v),
                                                   "reference_hex": hexs(wire.encode_struct(t.schema, v), 80)})
                except Exception as e:  # noqa: BLE001
                    import traceback
                    rec.inconclusive(f"checker error on {t.name} case {cs}: {type(e).__name__}: {e} "
                                     f"{traceback.format_exc()[-400:]}")
            if t.kind == "request":
                for i in range(max(2, per // 2)):
                    cs = f"{base}:{t.name}:reply:{i}"
                    try:
                        check_reply_case(t, cs, L, rec, big=(i % 12 == 5))
                    except Exception as e:  # noqa: BLE001
                        rec.inconclusive(f"checker error on reply case {cs}: {type(e).__name__}: {e}")
    elif kind == "one":
        t = next((x for x in targets if x.name == params["class"]), None)
        if t is None:
            rec.inconclusive(f"class {params['class']} not found")
        elif params.get("mode") == "reply":
            check_reply_case(t, params["case_seed"], L, rec, params.get("big", False))
        else:
            check_target_value(t, params["case_seed"], L, rec, params.get("tags_mode", "empty"), params.get("big", False))
    else:
        rec.inconclusive(f"unknown shard kind {kind!r}")
    return rec.res


def replay(witness):
    return run_shard(witness.get("shard", {"kind": "static", "seed": 0}))
