"""C09 - record batches round-trip and both codec implementations agree.

Per shard: generate record-sequence cases, let BOTH library builders (compiled extension built
fresh from the .pyx by vf.extbuild, and the pure-Python one in an AIOKAFKA_NO_EXTENSIONS=1
interpreter) encode them, then let both library decoders decode both encodings, reference-encoded
batches (control, LogAppendTime, real offsets) and mixed-format concatenations with trailing
partial batches.  The independent codec vf.refrecords decodes and validates every byte string.

Child protocol: ``python -m vf.props.c09 --child <C|Py> <ext_dir|-> <ops.pkl> <out.pkl>``; the
child appends ("start", id) / ("done", id, result) pickles to out.pkl, so a child that dies is
attributable to one op and the remaining ops are resumed in a new child.
"""
from __future__ import annotations

import os
import pickle
import random
import shutil
import subprocess
import sys
import tempfile
import traceback
from concurrent.futures import ThreadPoolExecutor

from vf import refrecords as R

PROPERTY_ID = "C09"
LEVEL = "exploration"
RULE = (
    "Cases are drawn from a seeded generator (VERIF_SEED, shard, index): a record sequence (null/empty/"
    "boundary-sized keys and values, 0..n headers with null values and non-ASCII keys, decreasing timestamps, "
    "timestamp deltas beyond int32, record/value/header sizes placed on the varint boundaries 63|64, 8191|8192, "
    "1048575|1048576), magic 0/1/2, codec, transactional flag and producer id/epoch/sequence extremes, and a "
    "batch_size placed -2..+2 bytes around the encoded size of a prefix.  Each case is built by the compiled and "
    "the pure-Python builder, each encoding is decoded by both library decoders and by the reference decoder and "
    "checked by the reference validator; reference-encoded control / LogAppendTime / offset-assigned batches and "
    "mixed-magic concatenations with a trailing partial batch go through both MemoryRecords implementations.  "
    "A case is non-trivial when at least one record was accepted and all three decoders consumed both encodings "
    "(build cases), or when a concatenation holds >= 2 batches; distinct = distinct shape signature (magic, "
    "codec, record-count bucket, null/empty/boundary classes of key/value/headers, timestamp pattern, "
    "batch-limit placement, producer-field class; for concatenations the sequence of (magic, codec, origin) and "
    "the partial-tail class)."
)
ASSUMPTIONS = [
    "Builders are driven the way the producer drives them: offsets 0,1,2,... in append order, non-negative "
    "timestamps, bytes keys/values, append() stops at the first refusal.",
    "Byte identity between the two builders is not required (their compress-only-if-smaller policies differ); "
    "the codec bits of a v2 batch may therefore be the requested codec or 0.",
    "At size == batch_size exactly the two implementations may differ ('>' vs '>='); both outcomes are accepted.",
    "A producer-side compressed v0/v1 wrapper carries offset 0 and timestamp 0 (the broker rewrites both); the "
    "validator does not require wrapper offset/timestamp on builder output, only on reference-built fetch data.",
    "vf.refrecords (written from the Kafka format definition, cross-checked against both library codecs by this "
    "very check) is the trusted oracle.",
]
REQUIRED_COUNTERS = [
    "build_cases", "decodes:C->C", "decodes:C->Py", "decodes:Py->C", "decodes:Py->Py", "decodes:Ref->C",
    "decodes:Ref->Py", "ref_validations", "ref_decodes", "concat_cases", "concat_mixed_magic",
    "concat_with_partial_tail", "concat_ok:C:same_magic", "concat_ok:Py:same_magic", "concat_ok:Py:mixed_magic",
    "size_checks", "limit_accept_checks", "limit_refuse_checks",
]

PY = "/venv/bin/python"
HERE = os.path.dirname(os.path.dirname(os.path.dirname(os.path.abspath(__file__))))

QUICK_SHARDS, QUICK_CASES = 16, 150
THOROUGH_SHARDS, THOROUGH_CASES = 160, 520

# --------------------------------------------------------------------------- generation

SMALL_BOUNDARIES = [0, 1, 2, 62, 63, 64, 65, 127, 128, 8190, 8191, 8192, 8193, 16383, 16384]
LARGE_BOUNDARIES = [1048574, 1048575, 1048576, 1048577]
TS_DELTAS = [0, 1, -1, 63, 64, -64, -65, 8191, 8192, -8192, -8193, 1048575, 1048576, 2 ** 31 - 1, 2 ** 31,
             -(2 ** 31), -(2 ** 31) - 1, 2 ** 35, 2 ** 41 + 12345, 2 ** 55]
HEADER_KEYS = ["h", "", "key", "ключ", "键", "clé-é", "\U0001f511k", "x" * 63, "y" * 64, "é" * 32, "\x00nul"]


def _blob(rng, allow_large):
    r = rng.random()
    if r < 0.10:
        return None
    if r < 0.18:
        return b""
    if r < 0.55:
        return rng.randbytes(rng.randint(1, 40))
    if r < 0.60:
        return bytes(rng.randint(1, 300))          # compressible
    if allow_large and r < 0.62:
        n = rng.choice(LARGE_BOUNDARIES)
        return (rng.randbytes(64) * (n // 64 + 1))[:n]
    n = rng.choice(SMALL_BOUNDARIES)
    if rng.random() < 0.5:
        return rng.randbytes(n)
    return (b"ab" * n)[:n]


def _headers(rng):
    r = rng.random()
    if r < 0.45:
        return []
    if r < 0.50:
        n = rng.choice([63, 64, 65])
        return [("k", None if i % 3 == 0 else b"v") for i in range(n)]
    out = []
    for _ in range(rng.randint(1, 5)):
        k = rng.choice(HEADER_KEYS)
        q = rng.random()
        if q < 0.3:
            v = None
        elif q < 0.45:
            v = b""
        elif q < 0.9:
            v = rng.randbytes(rng.randint(1, 20))
        else:
            v = rng.randbytes(rng.choice([63, 64, 8191, 8192]))
        out.append((k, v))
    return out


def _timestamps(rng, n):
    mode = rng.choice(["inc", "const", "dec", "jumps", "bigdelta", "zero", "huge"])
    if mode == "zero":
        return mode, [0] * n
    base = rng.choice([1, 1_600_000_000_000, 2 ** 40, 2 ** 56 + 7])
    if mode == "huge":
        base = 2 ** 62 - 1 - n
    if mode == "const":
        return mode, [base] * n
    if mode in ("inc", "huge"):
        return mode, [base + i * rng.choice([1, 1, 7]) for i in range(n)]
    if mode == "dec":
        return mode, [base + (n - i) * 3 for i in range(n)]
    out = [base]
    for _ in range(n - 1):
        d = rng.choice(TS_DELTAS)
        if mode == "jumps":
            d = rng.choice(TS_DELTAS[:13])
        out.append(max(0, base + d))
    return mode, out


def _v2_record_size(i, ts_delta, key, value, headers):
    return len(R.encode_record_v2(i, ts_delta, key, value, headers))


def _legacy_record_size(magic, key, value):
    return 12 + (14 if magic == 0 else 22) + len(key or b"") + len(value or b"")


def _fit_value_for_body(rng, target_body, i, ts_delta, key, headers):
    """A value length such that the v2 record BODY (after its length varint) is target_body bytes."""
    for vlen in range(max(0, target_body - 40 - len(key or b"")), target_body + 1):
        rec = R.encode_record_v2(i, ts_delta, key, b"\x00" * vlen, headers)
        ln, p = R.decode_varint(rec, 0)
        if ln == target_body:
            return rng.randbytes(vlen)
    return None


def gen_build_case(rng, tier, allow_large):
    magic = rng.choices([2, 1, 0], [5, 3, 2])[0]
    if magic == 2:
        codec = rng.choices([0, 1, 2, 3, 4], [4, 2, 2, 2, 2])[0]
    elif magic == 1:
        codec = rng.choices([0, 1, 2, 3], [4, 2, 2, 2])[0]
    else:
        codec = rng.choices([0, 1, 2], [4, 2, 2])[0]
    r = rng.random()
    if r < 0.55:
        n = rng.randint(1, 6)
    elif r < 0.85:
        n = rng.randint(7, 30)
    elif r < 0.97:
        n = rng.choice([63, 64, 65, 66, 129])
    else:
        n = 300 if tier == "quick" else rng.choice([300, 8193])
    tiny = n > 30
    ts_mode, tss = _timestamps(rng, n)
    records = []
    for i in range(n):
        if tiny:
            key = rng.choice([None, b"", b"k"])
            value = rng.choice([None, b"", b"v", b"val%d" % i])
            headers = [] if rng.random() < 0.8 or magic < 2 else [("h", None)]
        else:
            key = _blob(rng, False)
            value = _blob(rng, allow_large and i < 2)
            headers = _headers(rng) if magic == 2 else []
            if magic == 2 and rng.random() < 0.15:
                target = rng.choice([63, 64, 8191, 8192] + ([1048575, 1048576] if allow_large and i < 1 else []))
                v = _fit_value_for_body(rng, target, i, tss[i] - tss[0], key if key and len(key) < 30 else None, [])
                if v is not None:
                    key = key if key and len(key) < 30 else None
                    value, headers = v, []
        records.append((tss[i], key, value, headers))
    # cumulative uncompressed size after each record, by the reference encoder
    sizes = []
    total = 61 if magic == 2 else 0
    for i, (ts, key, value, headers) in enumerate(records):
        total += _v2_record_size(i, ts - tss[0], key, value, headers) if magic == 2 else _legacy_record_size(magic, key, value)
        sizes.append(total)
    limit_kind = "huge"
    batch_size = total + 1000
    limit_at = None
    if n > 1 and rng.random() < 0.5:
        limit_at = rng.randint(1, n - 1)
        d = rng.choice([-2, -1, 0, 0, 1, 2])
        batch_size = sizes[limit_at] + d
        limit_kind = f"S[k]{d:+d}"
    elif rng.random() < 0.1:
        batch_size = rng.choice([0, 1, 61, 62])
        limit_kind = "tiny"
    case = dict(kind="build", magic=magic, codec=codec, records=records, batch_size=batch_size, ts_mode=ts_mode,
                limit_kind=limit_kind, limit_at=limit_at, sizes=sizes, transactional=False, pid=-1, epoch=-1,
                base_seq=-1, late_state=False)
    if magic == 2:
        q = rng.random()
        if q < 0.35:
            case.update(pid=rng.choice([0, 1, 4242, 2 ** 31, 2 ** 63 - 1]), epoch=rng.choice([0, 1, 32767]),
                        base_seq=rng.choice([0, 1, 2 ** 31 - 1, 2 ** 31 - 1 - n]),
                        transactional=rng.random() < 0.5, late_state=rng.random() < 0.4)
    return case


def case_shape(case):
    recs = case["records"]

    def cls(b):
        if b is None:
            return "N"
        n = len(b)
        return "E" if n == 0 else "s" if n < 63 else "b63" if n in (63, 64) else "m" if n < 8191 else \
            "b8k" if n in (8191, 8192) else "l" if n < 1048575 else "b1M"
    n = len(recs)
    return ("build", case["magic"], case["codec"], "1" if n == 1 else "few" if n <= 6 else "some" if n <= 30 else
            "b64" if n < 300 else "many", "".join(sorted({cls(r[1]) for r in recs})),
            "".join(sorted({cls(r[2]) for r in recs})),
            "".join(sorted({("0" if not r[3] else "n" if any(h[1] is None for h in r[3]) else "h") +
                            ("u" if any(not h[0].isascii() for h in r[3]) else "") for r in recs})),
            case["ts_mode"], case["limit_kind"], case["transactional"],
            "noprod" if case["pid"] == -1 else "maxpid" if case["pid"] == 2 ** 63 - 1 else "prod", case["late_state"])


def gen_refenc_case(rng):
    """A batch built by the REFERENCE encoder: what a broker hands to the decoders."""
    magic = rng.choices([2, 1, 0], [6, 3, 1])[0]
    n = rng.randint(1, 5)
    ts_mode, tss = _timestamps(rng, n)
    base = rng.choice([0, 1, 100, 2 ** 31 + 5, 2 ** 62])
    recs = []
    for i in range(n):
        recs.append((None, tss[i], _blob(rng, False), _blob(rng, False), _headers(rng) if magic == 2 else []))
    lat = rng.choice([None, None, 1_700_000_000_123, 5])
    framing = rng.choice(["xerial", "raw"])
    if magic == 2:
        variant = rng.choice(["plain", "plain", "control_commit", "control_abort", "gaps"])
        codec = rng.choice([0, 1, 2, 3, 4])
        pid, epoch, seq = rng.choice([(-1, -1, -1), (7, 0, 0), (2 ** 63 - 1, 32767, 2 ** 31 - 1)])
        txn = pid >= 0 and rng.random() < 0.5
        ple = rng.choice([-1, 0, 17, 2 ** 31 - 1])
        if variant.startswith("control"):
            ts = tss[0]
            pid, epoch = max(pid, 0), max(epoch, 0)
            buf = R.encode_control_batch(base, pid, epoch, variant == "control_commit", ts, coordinator_epoch=3,
                                         partition_leader_epoch=ple)
            key = bytes([0, 0, 0, 1 if variant == "control_commit" else 0])
            exp_recs = [(base, ts, 0, key, bytes([0, 0, 0, 0, 0, 3]), [])]
            exp = dict(magic=2, records=exp_recs, base_offset=base, next_offset=base + 1, timestamp_type=0,
                       is_transactional=True, is_control_batch=True, producer_id=pid, producer_epoch=epoch,
                       base_sequence=-1, last_offset_delta=0, first_timestamp=ts, max_timestamp=ts,
                       compression_types=[0])
            return dict(kind="refenc", label=f"v2:{variant}", bytes=buf, expected=[exp],
                        shape=("refenc", 2, variant, base > 2 ** 31))
        if variant == "gaps":          # a compacted batch: offset deltas with holes
            d = 0
            deltas = []
            for i in range(n):
                deltas.append(d)
                d += rng.choice([1, 2, 60, 64])
            recs = [(deltas[i],) + r[1:] for i, r in enumerate(recs)]
        else:
            deltas = list(range(n))
        buf = R.encode_batch_v2(recs, base_offset=base, codec=codec, pid=pid, epoch=epoch, base_seq=seq,
                                transactional=txn, log_append_time=lat, partition_leader_epoch=ple,
                                snappy_framing=framing)
        tstype = 1 if lat is not None else 0
        exp_recs = [(base + deltas[i], lat if lat is not None else r[1], tstype, r[2], r[3], r[4])
                    for i, r in enumerate(recs)]
        exp = dict(magic=2, records=exp_recs, base_offset=base, next_offset=base + deltas[-1] + 1,
                   timestamp_type=tstype, is_transactional=txn, is_control_batch=False, producer_id=pid,
                   producer_epoch=epoch, base_sequence=seq, last_offset_delta=deltas[-1], first_timestamp=tss[0],
                   max_timestamp=lat if lat is not None else max(tss), compression_types=[codec])
        return dict(kind="refenc", label=f"v2:{variant}:codec{codec}", bytes=buf, expected=[exp],
                    shape=("refenc", 2, variant, codec, framing if codec == 2 else "", lat is not None, txn,
                           pid == 2 ** 63 - 1, base > 2 ** 31, ts_mode))
    codec = rng.choice([0, 1, 2, 3] if magic == 1 else [0, 1, 2])
    if magic == 0:
        lat = None
    buf = R.encode_message_set(recs, magic, codec, base_offset=base, log_append_time=lat, snappy_framing=framing)
    tstype = None if magic == 0 else (1 if lat is not None else 0)

    def rec_exp(i, r):
        ts = None if magic == 0 else (lat if lat is not None else r[1])
        return (base + i, ts, tstype, r[2], r[3], [])
    if codec:
        expected = [dict(magic=magic, records=[rec_exp(i, r) for i, r in enumerate(recs)], next_offset=base + n)]
    else:
        expected = [dict(magic=magic, records=[rec_exp(i, r)], next_offset=base + i + 1) for i, r in enumerate(recs)]
    return dict(kind="refenc", label=f"v{magic}:codec{codec}", bytes=buf, expected=expected,
                shape=("refenc", magic, codec, framing if codec == 2 else "", lat is not None, base > 2 ** 31, n > 1,
                       ts_mode))


# --------------------------------------------------------------------------- child side

def _exc_info(e):
    tb = traceback.extract_tb(e.__traceback__)
    return dict(type=type(e).__name__, msg=str(e)[:300], tb=[f"{os.path.basename(f.filename)}:{f.name}" for f in tb][-6:])


class _Child:
    def __init__(self, impl, ext_dir):
        from vf import extbuild, repoimport
        self.impl = impl
        if impl == "C":
            extbuild.install_finder(ext_dir)
        elif not os.environ.get("AIOKAFKA_NO_EXTENSIONS"):
            raise RuntimeError("Py child needs AIOKAFKA_NO_EXTENSIONS=1")
        repoimport.use_repo()
        from aiokafka.record import default_records as dr, legacy_records as lr, memory_records as mr
        if impl == "C":
            extbuild.assert_served(ext_dir)
        for cls in (dr.DefaultRecordBatchBuilder, dr.DefaultRecordBatch, lr.LegacyRecordBatchBuilder,
                    lr.LegacyRecordBatch, mr.MemoryRecords):
            compiled = cls.__module__.startswith("aiokafka.record._crecords")
            if compiled != (impl == "C"):
                raise RuntimeError(f"{impl} child got {cls.__module__}.{cls.__name__}")
        self.dr, self.lr, self.mr = dr, lr, mr

    def build(self, p):
        magic = p["magic"]
        if magic == 2:
            if p["late_state"]:
                b = self.dr.DefaultRecordBatchBuilder(2, p["codec"], p["transactional"], -1, -1, -1, p["batch_size"])
            else:
                b = self.dr.DefaultRecordBatchBuilder(2, p["codec"], p["transactional"], p["pid"], p["epoch"],
                                                      p["base_seq"], p["batch_size"])
        else:
            b = self.lr.LegacyRecordBatchBuilder(magic, p["codec"], p["batch_size"])
        appends = []
        for i, (ts, key, value, headers) in enumerate(p["records"]):
            before = b.size()
            if magic == 2:
                sib = b.size_in_bytes(i, ts, key, value, headers)
                est = type(b).estimate_size_in_bytes(key, value, headers)
                meta = b.append(i, ts, key, value, headers)
            else:
                sib = b.size_in_bytes(i, ts, key, value)
                est = None
                meta = b.append(i, ts, key, value)
            after = b.size()
            m = None if meta is None else (meta.offset, meta.size, meta.timestamp, meta.crc)
            appends.append((before, after, sib, est, m))
            if meta is None:
                break
        if magic == 2 and p["late_state"]:
            b.set_producer_state(p["pid"], p["epoch"], p["base_seq"])
        state = (b.producer_id, b.producer_epoch, b.base_sequence) if magic == 2 else None
        size_before = b.size()
        buf = bytes(b.build())
        return dict(bytes=buf, appends=appends, size_before_build=size_before, size_after_build=b.size(),
                    state=state)

    def decode(self, buf):
        out = dict(batches=[], error=None)
        m = self.mr.MemoryRecords(buf)
        out["size_in_bytes"] = m.size_in_bytes()
        try:
            while m.has_next():
                cur = dict(cls=None, records=[])
                out["batches"].append(cur)
                b = m.next_batch()
                cur["cls"] = type(b).__name__.strip("_").removesuffix("Py")
                cur["crc_ok"] = b.validate_crc()
                for name in ("next_offset", "is_control_batch", "is_transactional", "producer_id"):
                    cur[name] = getattr(b, name)
                if cur["cls"] == "DefaultRecordBatch":
                    for name in ("base_offset", "magic", "crc", "attributes", "compression_type", "timestamp_type",
                                 "last_offset_delta", "first_timestamp", "max_timestamp", "producer_epoch",
                                 "base_sequence"):
                        cur[name] = getattr(b, name)
                for r in b:
                    cur["records"].append((r.offset, r.timestamp, r.timestamp_type, r.key, r.value,
                                           [tuple(h) for h in r.headers], r.checksum))
            out["tail"] = (m.has_next(), m.next_batch() is None)
        except Exception as e:
            out["error"] = _exc_info(e)
        return out


def child_main(argv):
    impl, ext_dir, infile, outfile = argv
    with open(infile, "rb") as f:
        ops = pickle.load(f)
    child = _Child(impl, ext_dir)
    with open(outfile, "ab") as out:
        for op in ops:
            pickle.dump(("start", op[1]), out)
            out.flush()
            try:
                res = child.build(op[2]) if op[0] == "build" else child.decode(op[2])
            except Exception as e:
                res = dict(op_error=_exc_info(e))
            pickle.dump(("done", op[1], res), out)
            out.flush()
    return 0


# --------------------------------------------------------------------------- parent side

def _child_env(impl):
    env = dict(os.environ)
    env["PYTHONPATH"] = HERE + os.pathsep + os.path.join(HERE, ".deps")
    env["PYTHONHASHSEED"] = "0"
    env.pop("AIOKAFKA_NO_EXTENSIONS", None)
    if impl == "Py":
        env["AIOKAFKA_NO_EXTENSIONS"] = "1"
    return env


def run_child(impl, ext_dir, ops, workdir, tag, timeout=900):
    """-> (results {id: result}, deaths [(id, description)], problems [str])."""
    results, deaths, problems = {}, [], []
    remaining = list(ops)
    attempt = 0
    while remaining:
        attempt += 1
        infile = os.path.join(workdir, f"{tag}-{impl}-{attempt}.in")
        outfile = os.path.join(workdir, f"{tag}-{impl}-{attempt}.out")
        with open(infile, "wb") as f:
            pickle.dump(remaining, f)
        try:
            cp = subprocess.run([PY, "-X", "faulthandler", "-m", "vf.props.c09", "--child", impl, ext_dir or "-",
                                 infile, outfile], cwd=HERE, env=_child_env(impl), timeout=timeout,
                                stdout=subprocess.PIPE, stderr=subprocess.STDOUT)
            rc, out = cp.returncode, cp.stdout.decode(errors="replace")
        except subprocess.TimeoutExpired as e:
            rc, out = "timeout", (e.stdout or b"").decode(errors="replace")
        started = None
        if os.path.exists(outfile):
            with open(outfile, "rb") as f:
                while True:
                    try:
                        item = pickle.load(f)
                    except Exception:
                        break
                    if item[0] == "start":
                        started = item[1]
                    else:
                        results[item[1]] = item[2]
                        started = None
        if rc == 0:
            break
        if started is None:
            problems.append(f"{impl} child ended rc={rc} outside any op: {out[-800:]}")
            break
        if rc == "timeout":
            problems.append(f"{impl} child exceeded {timeout}s inside op {started!r}")
            break
        deaths.append((started, f"rc={rc}: {out[-600:]}"))
        idx = [i for i, op in enumerate(remaining) if op[1] == started][0]
        remaining = remaining[idx + 1:]
    return results, deaths, problems


def _norm_headers(h):
    return [tuple(x) for x in h]


class Shard:
    def __init__(self, params):
        self.p = params
        self.viol = []
        self.counters = {}
        self.sets = {}
        self.nontrivial = set()
        self.samples = []
        self.inconclusive = []
        self.evaluations = 0

    def count(self, name, n=1):
        self.counters[name] = self.counters.get(name, 0) + n

    def note(self, name, value):
        self.sets.setdefault(name, set()).add(str(value))

    def violation(self, mechanism, what, **witness):
        if sum(1 for v in self.viol if v["mechanism"] == mechanism) >= 3:
            self.count("violations_suppressed_duplicates")
            return
        w = {"shard": {k: v for k, v in self.p.items() if k != "ext_dir"}}
        w.update(witness)
        self.viol.append({"mechanism": mechanism, "what": what, "witness": w})

    # ---- comparison of one decode result against expected batches
    def compare(self, got, expected, ref_views=None):
        """-> list of (field, detail, batch index or None); empty = equal."""
        diffs = _Diffs()
        if got.get("op_error"):
            return [("harness_exception:" + got["op_error"]["type"], str(got["op_error"]))]
        batches = got["batches"]
        err = got["error"]
        for k, exp in enumerate(expected):
            if k >= len(batches):
                if err:
                    diffs.append((f"exception:{err['type']}", f"after {len(batches)} batches: {err}"))
                else:
                    diffs.append(("batch_count", f"{len(batches)} batches decoded, {len(expected)} expected"))
                return diffs
            b = batches[k]
            want_cls = "DefaultRecordBatch" if exp["magic"] >= 2 else "LegacyRecordBatch"
            if b["cls"] is not None and b["cls"] != want_cls:
                diffs.append(("batch_class", f"batch {k} (magic {exp['magic']}) parsed as {b['cls']}"))
            if err and k == len(batches) - 1:
                diffs.append((f"exception:{err['type']}", f"in batch {k}: {err}"))
                return diffs
            recs = b["records"]
            exp_recs = exp["records"]
            if len(recs) != len(exp_recs):
                diffs.append(("record_count", f"batch {k}: {len(recs)} records, expected {len(exp_recs)}"))
            for j, (g, e) in enumerate(zip(recs, exp_recs)):
                for name, gi, ei in (("offset", g[0], e[0]), ("timestamp", g[1], e[1]),
                                     ("timestamp_type", g[2], e[2]), ("key", g[3], e[3]), ("value", g[4], e[4]),
                                     ("headers", _norm_headers(g[5]), _norm_headers(e[5]))):
                    if gi != ei:
                        diffs.append((f"record.{name}", f"batch {k} record {j}: got {_short(gi)}, expected {_short(ei)}"))
                if exp["magic"] >= 2 and g[6] is not None:
                    diffs.append(("record.checksum", f"batch {k} record {j}: v2 checksum {g[6]!r}"))
            if b.get("crc_ok") is not True:
                diffs.append(("validate_crc", f"batch {k}: validate_crc() = {b.get('crc_ok')!r} on a valid batch"))
            for name in ("base_offset", "next_offset", "timestamp_type", "is_transactional", "is_control_batch",
                         "producer_id", "producer_epoch", "base_sequence", "last_offset_delta", "first_timestamp",
                         "max_timestamp", "magic"):
                if name in exp and name in b and b[name] != exp[name]:
                    diffs.append((f"batch.{name}", f"batch {k}: got {b[name]!r}, expected {exp[name]!r}"))
            if exp["magic"] >= 2:
                if "compression_types" in exp and b.get("compression_type") not in exp["compression_types"]:
                    diffs.append(("batch.compression_type", f"batch {k}: {b.get('compression_type')!r}"))
            else:
                for name, want in (("is_control_batch", False), ("is_transactional", False), ("producer_id", None)):
                    if b.get(name) != want:
                        diffs.append((f"batch.{name}", f"legacy batch {k}: {b.get(name)!r}"))
            if ref_views is not None and k < len(ref_views):
                rv = ref_views[k]
                if exp["magic"] >= 2 and b.get("crc") != rv.crc:
                    diffs.append(("batch.crc", f"batch {k}: crc {b.get('crc')!r}, bytes hold {rv.crc}"))
                if exp["magic"] < 2:
                    for j, (g, r) in enumerate(zip(recs, rv.records)):
                        if g[6] != r.crc:
                            diffs.append(("record.checksum", f"batch {k} record {j}: {g[6]!r}, bytes hold {r.crc}"))
        if len(batches) > len(expected):
            extra = batches[len(expected)]
            if err and len(batches) == len(expected) + 1:
                diffs.append((f"tail_exception:{err['type']}", f"after all {len(expected)} batches: {err}"))
            else:
                diffs.append(("batch_count", f"{len(batches)} batches decoded, {len(expected)} expected "
                                             f"(extra: {extra.get('cls')})"))
        elif err and len(batches) == len(expected) and not diffs:
            diffs.append((f"tail_exception:{err['type']}", f"after all batches: {err}"))
        if not err and got.get("tail") != (False, True):
            diffs.append(("tail_state", f"after the last batch (has_next(), next_batch() is None) = {got.get('tail')}"))
        return diffs


class _Diffs(list):
    """(field, detail, batch_index) triples; append((field, detail)) looks the index up in the detail text."""

    def append(self, item):
        if len(item) == 2:
            import re
            m = re.search(r"batch (\d+)", item[1])
            item = (item[0], item[1], int(m.group(1)) if m else None)
        super().append(item)


def _short(x):
    if isinstance(x, (bytes, bytearray)) and len(x) > 24:
        return f"<{len(x)} bytes {bytes(x[:8]).hex()}..>"
    s = repr(x)
    return s if len(s) < 120 else s[:117] + "..."


def ref_expected_from_views(views):
    out = []
    for v in views:
        out.append(dict(magic=v.magic, records=[(r.offset, r.timestamp, v.timestamp_type, r.key, r.value, r.headers)
                                                for r in v.records]))
    return out


def build_expected(case, accepted):
    recs = case["records"][:accepted]
    magic = case["magic"]
    if magic == 2:
        tss = [r[0] for r in recs]
        return [dict(magic=2, records=[(i, r[0], 0, r[1], r[2], r[3]) for i, r in enumerate(recs)], base_offset=0,
                     next_offset=accepted, timestamp_type=0, is_transactional=case["transactional"],
                     is_control_batch=False, producer_id=case["pid"], producer_epoch=case["epoch"],
                     base_sequence=case["base_seq"], last_offset_delta=accepted - 1, first_timestamp=tss[0],
                     max_timestamp=max(tss), compression_types=[0, case["codec"]])]
    tst = None if magic == 0 else 0

    def one(i, r):
        return (i, None if magic == 0 else r[0], tst, r[1], r[2], [])
    if case["codec"]:
        return [dict(magic=magic, records=[one(i, r) for i, r in enumerate(recs)])]
    return [dict(magic=magic, records=[one(i, r)], next_offset=i + 1) for i, r in enumerate(recs)]


def check_build(sh: Shard, cid, case, impl, res):
    """Size accounting and batch limit for one builder run.  -> number of accepted records or None."""
    magic = case["magic"]
    tag = f"v{magic}:{impl}"
    if "op_error" in res:
        e = res["op_error"]
        sh.violation(f"build_raised:{tag}:{e['type']}", f"builder raised {e}", case=cid, impl=impl)
        return None
    appends = res["appends"]
    accepted = 0
    sizes = case["sizes"]
    base = 61 if magic == 2 else 0
    for i, (before, after, sib, est, meta) in enumerate(appends):
        growth_ref = sizes[i] - (sizes[i - 1] if i else base)
        if meta is None:
            sh.count("limit_refuse_checks")
            if i == 0:
                sh.violation(f"limit:{tag}:first_record_refused", f"first record refused with batch_size "
                             f"{case['batch_size']}", case=cid, impl=impl)
            elif before + growth_ref < case["batch_size"]:
                sh.violation(f"limit:{tag}:refused_below_batch_size",
                             f"record {i} refused although size {before}+{growth_ref} < batch_size {case['batch_size']}",
                             case=cid, impl=impl)
            if after != before:
                sh.violation(f"size:{tag}:refused_append_changed_size", f"size() {before}->{after} on refusal",
                             case=cid, impl=impl)
            if i and before + growth_ref == case["batch_size"]:
                sh.note("boundary_eq_outcomes", f"{impl}:refused")
            break
        accepted += 1
        sh.count("size_checks")
        off, msize, mts, mcrc = meta
        growth = after - before
        if i == 0 and magic == 2 and before != 61:
            sh.violation(f"size:{tag}:empty_builder_size", f"size() of an empty v2 builder is {before}", case=cid)
        if growth != growth_ref:
            sh.violation(f"size:{tag}:growth_ne_reference_record_size",
                         f"record {i}: size() grew by {growth}, the record encodes to {growth_ref} bytes",
                         case=cid, impl=impl)
        if msize != growth:
            sh.violation(f"size:{tag}:metadata_size_ne_growth", f"record {i}: metadata.size {msize}, size() grew {growth}",
                         case=cid, impl=impl)
        if sib != growth:
            sh.violation(f"size:{tag}:size_in_bytes_ne_growth", f"record {i}: size_in_bytes() {sib}, size() grew {growth}",
                         case=cid, impl=impl)
        if est is not None and est < 61 + growth:
            sh.violation(f"size:{tag}:estimate_below_actual", f"record {i}: estimate_size_in_bytes {est} < 61+{growth}",
                         case=cid, impl=impl)
        if off != i:
            sh.violation(f"metadata:{tag}:offset", f"record {i}: metadata.offset {off}", case=cid, impl=impl)
        if magic >= 1 and mts != case["records"][i][0]:
            sh.violation(f"metadata:{tag}:timestamp", f"record {i}: metadata.timestamp {mts}, given "
                         f"{case['records'][i][0]}", case=cid, impl=impl)
        if i > 0:
            sh.count("limit_accept_checks")
            if after > case["batch_size"]:
                sh.violation(f"limit:{tag}:accepted_over_batch_size",
                             f"record {i} accepted, size() {after} > batch_size {case['batch_size']}", case=cid, impl=impl)
            if after == case["batch_size"]:
                sh.note("boundary_eq_outcomes", f"{impl}:accepted")
    if accepted:
        want = sizes[accepted - 1]
        if res["size_before_build"] != want:
            sh.violation(f"size:{tag}:size_ne_uncompressed_length",
                         f"size() before build() = {res['size_before_build']}, uncompressed encoding is {want} bytes",
                         case=cid, impl=impl)
        if res["size_after_build"] != len(res["bytes"]):
            sh.violation(f"size:{tag}:size_after_build_ne_len",
                         f"size() after build() = {res['size_after_build']}, built {len(res['bytes'])} bytes",
                         case=cid, impl=impl)
        if magic == 2 and tuple(res["state"]) != (case["pid"], case["epoch"], case["base_seq"]):
            sh.violation(f"producer_state:{tag}", f"builder reports {res['state']}", case=cid, impl=impl)
    return accepted


def check_bytes(sh: Shard, cid, case, impl, res, accepted, expected):
    """Reference validator + reference decoder on builder output.  -> ref views or None."""
    buf = res["bytes"]
    magic = case["magic"]
    tag = f"v{magic}:{impl}"
    sh.count("ref_validations")
    problems = R.validate_buffer(buf)
    for p in problems:
        code = p.split(": ", 1)[1].split(":")[0] if p.startswith("batch ") else p.split(":")[0]
        sh.violation(f"malformed:{tag}:{code}", f"reference validator: {p}", case=cid, impl=impl,
                     bytes_hex=buf[:160].hex())
    try:
        views = R.parse_batches(buf)
    except R.RefFormatError as e:
        sh.violation(f"malformed:{tag}:unparseable", f"reference decoder: {e}", case=cid, impl=impl,
                     bytes_hex=buf[:160].hex())
        return None
    sh.count("ref_decodes")
    got = dict(batches=[dict(cls=None, crc_ok=v.crc_ok, is_control_batch=v.is_control,
                             is_transactional=v.is_transactional, producer_id=None if v.magic < 2 else v.pid, records=[
        (r.offset, r.timestamp, v.timestamp_type, r.key, r.value, r.headers, None if v.magic >= 2 else r.crc)
        for r in v.records]) for v in views], error=None, tail=(False, True))
    exp = [{k: v for k, v in e.items() if k in ("magic", "records")} for e in expected]
    diffs = sh.compare(got, exp)
    if sum(v.length for v in views) != len(buf):
        diffs.append(("trailing_bytes", f"{len(buf) - sum(v.length for v in views)} bytes after the last batch"))
    for fieldname, detail, _k in diffs:
        sh.violation(f"roundtrip:v{magic}:enc={impl}:dec=Ref:{fieldname}", detail, case=cid, impl=impl,
                     bytes_hex=buf[:160].hex())
    if magic == 2 and views:
        v = views[0]
        e = expected[0]
        hdr = dict(base_offset=v.base_offset, is_transactional=v.is_transactional, is_control_batch=v.is_control,
                   producer_id=v.pid, producer_epoch=v.epoch, base_sequence=v.base_seq,
                   last_offset_delta=v.last_offset_delta, first_timestamp=v.first_timestamp,
                   max_timestamp=v.max_timestamp, timestamp_type=v.timestamp_type)
        for k, val in hdr.items():
            if val != e[k]:
                sh.violation(f"header:{tag}:{k}", f"batch header {k} = {val!r}, expected {e[k]!r}", case=cid, impl=impl,
                             bytes_hex=buf[:61].hex())
        if v.codec not in e["compression_types"]:
            sh.violation(f"header:{tag}:codec", f"codec bits {v.codec}", case=cid, impl=impl)
        if v.codec == 0 and case["codec"]:
            sh.count(f"compression_skipped:{impl}")
        if v.partition_leader_epoch != -1:
            sh.violation(f"header:{tag}:partition_leader_epoch", f"{v.partition_leader_epoch}", case=cid, impl=impl)
    return views


def run_shard(params):
    sh = Shard(params)
    rng = random.Random(f"C09/{params['seed']}/{params['shard']}")
    tier = params.get("tier", "quick")
    ext_dir = params.get("ext_dir")
    own_tmp = None
    if not ext_dir or not os.path.isdir(ext_dir):
        from vf import extbuild
        own_tmp = tempfile.mkdtemp(prefix="vf-c09-ext-")
        ext_dir = extbuild.build("plain", own_tmp)
    workdir = tempfile.mkdtemp(prefix="vf-c09-")
    try:
        _run(sh, rng, tier, ext_dir, workdir, params)
    finally:
        shutil.rmtree(workdir, ignore_errors=True)
        if own_tmp:
            shutil.rmtree(own_tmp, ignore_errors=True)
    return dict(evaluations=sh.evaluations, nontrivial=sorted(sh.nontrivial), violations=sh.viol,
                inconclusive=sh.inconclusive, counters=sh.counters, sets={k: sorted(v) for k, v in sh.sets.items()},
                samples=sh.samples)


def _run(sh: Shard, rng, tier, ext_dir, workdir, params):
    n_cases = params["cases"]
    large_budget = params.get("large", 1)
    cases = {}
    for i in range(n_cases):
        allow_large = large_budget > 0 and rng.random() < 0.05
        c = gen_build_case(rng, tier, allow_large)
        if any(len(r[2] or b"") > 100000 for r in c["records"]):
            large_budget -= 1
        cases[("b", i)] = c
    refenc = {("r", i): gen_refenc_case(rng) for i in range(max(8, n_cases // 3))}

    # ---- phase 1: both builders
    ops = [("build", cid, {k: c[k] for k in ("magic", "codec", "records", "batch_size", "transactional", "pid",
                                                "epoch", "base_seq", "late_state")}) for cid, c in cases.items()]
    with ThreadPoolExecutor(2) as ex:
        futs = {impl: ex.submit(run_child, impl, ext_dir, ops, workdir, "build") for impl in ("C", "Py")}
        built = {impl: f.result() for impl, f in futs.items()}
    for impl, (_res, deaths, problems) in built.items():
        for cid, desc in deaths:
            sh.violation(f"crash:{impl}:build:v{cases[cid]['magic']}", f"builder process died: {desc}", case=cid)
        sh.inconclusive.extend(problems)

    # ---- evaluate builds, prepare decode ops
    decode_ops = []          # ("decode", id, bytes)
    decode_meta = {}         # id -> (label, expected, ref_views, cid, enc)
    pieces = []              # valid single buffers for concatenation: (bytes, expected, label)
    for cid, case in cases.items():
        sh.count("build_cases")
        sh.evaluations += 1
        outs = {}
        for impl in ("C", "Py"):
            res = built[impl][0].get(cid)
            if res is None:
                continue
            sh.count(f"builds:{impl}")
            accepted = check_build(sh, cid, case, impl, res)
            if not accepted:
                continue
            expected = build_expected(case, accepted)
            sh.count("records_built", accepted)
            views = check_bytes(sh, cid, case, impl, res, accepted, expected)
            outs[impl] = (res["bytes"], expected, accepted)
            did = ("d", cid, impl)
            decode_ops.append(("decode", did, res["bytes"]))
            decode_meta[did] = (f"v{case['magic']}", expected, views, cid, impl)
            if views is not None and len(res["bytes"]) < 20000:
                pieces.append((res["bytes"], expected, f"v{case['magic']}c{case['codec']}{impl}"))
        if len(outs) == 2:
            same = outs["C"][0] == outs["Py"][0]
            sh.count("byte_identical_builds" if same else "byte_different_builds")
            if outs["C"][2] != outs["Py"][2]:
                sh.count("accept_count_differs_between_builders")
        case["_built"] = sorted(outs)
    for rid, rc in refenc.items():
        sh.count("refenc_cases")
        sh.evaluations += 1
        problems = R.validate_buffer(rc["bytes"], check_wrapper_offset=True, check_wrapper_timestamp=True)
        if problems:
            sh.inconclusive.append(f"reference encoder output rejected by reference validator: {problems[:2]}")
            continue
        did = ("d", rid, "Ref")
        decode_ops.append(("decode", did, rc["bytes"]))
        decode_meta[did] = (rc["label"].split(":")[0], rc["expected"], R.parse_batches(rc["bytes"]), rid, "Ref")
        if len(rc["bytes"]) < 20000:
            pieces.append((rc["bytes"], rc["expected"], "ref:" + rc["label"]))

    # ---- concatenations
    concats = {}
    n_concat = max(10, n_cases // 3)
    by_magic = {}
    for p in pieces:
        by_magic.setdefault(p[1][0]["magic"], []).append(p)
    for i in range(n_concat if pieces else 0):
        k = rng.randint(2, 6)
        chosen = []
        if rng.random() < 0.4:
            # scenario class "same magic": exercises the splitter and the partial tail independently of
            # anything that depends on per-batch format selection
            pool = by_magic[rng.choice(sorted(by_magic))]
            chosen = [rng.choice(pool) for _ in range(k)]
        else:
            if len(by_magic) > 1:
                magics = rng.sample(sorted(by_magic), 2)
                chosen = [rng.choice(by_magic[magics[0]]), rng.choice(by_magic[magics[1]])]
                rng.shuffle(chosen)
                k -= 2
            chosen += [rng.choice(pieces) for _ in range(k)]
        tail_kind = rng.choice(["none", "lt12", "header", "most", "minus1"])
        tail = b""
        if tail_kind != "none":
            src = rng.choice(pieces)[0]
            first_len = 12 + int.from_bytes(src[8:12], "big")
            cut = {"lt12": rng.randint(1, 11), "header": rng.randint(12, min(first_len - 1, 70)),
                   "most": rng.randint(min(first_len - 1, 13), first_len - 1), "minus1": first_len - 1}[tail_kind]
            tail = src[:cut]
        buf = b"".join(c[0] for c in chosen) + tail
        expected = [e for c in chosen for e in c[1]]
        cid = ("c", i)
        concats[cid] = dict(pieces=[c[2] for c in chosen], tail=tail_kind, expected=expected, bytes=buf,
                            magics=[e["magic"] for e in expected])
        decode_ops.append(("decode", ("d", cid, "Cat"), buf))
        decode_meta[("d", cid, "Cat")] = ("concat", expected, None, cid, "Cat")

    # ---- phase 2: both decoders
    with ThreadPoolExecutor(2) as ex:
        futs = {impl: ex.submit(run_child, impl, ext_dir, decode_ops, workdir, "decode") for impl in ("C", "Py")}
        decoded = {impl: f.result() for impl, f in futs.items()}
    for impl, (_res, deaths, problems) in decoded.items():
        for did, desc in deaths:
            label, expected, _v, cid, enc = decode_meta[did]
            if enc == "Cat":
                mech = _concat_mechanism(impl, None, concats[cid], died=True)
                sh.violation(mech, f"{impl} MemoryRecords decoder process died on a concatenation of valid batches: "
                             f"{desc[-300:]}", case=cid, pieces=concats[cid]["pieces"], tail=concats[cid]["tail"],
                             bytes_hex=concats[cid]["bytes"][:400].hex())
            else:
                sh.violation(f"crash:{impl}:decode:{label}:enc={enc}", f"decoder process died: {desc[-300:]}", case=cid)
        sh.inconclusive.extend(problems)

    fully_decoded = {}
    for did, (label, expected, views, cid, enc) in decode_meta.items():
        for dec in ("C", "Py"):
            got = decoded[dec][0].get(did)
            if got is None:
                continue
            if enc == "Cat":
                continue
            sh.count(f"decodes:{enc}->{dec}")
            sh.count("records_decoded", sum(len(b["records"]) for b in got.get("batches", [])))
            diffs = sh.compare(got, expected, views)
            for fieldname, detail, _k in diffs:
                sh.violation(f"roundtrip:{label}:enc={enc}:dec={dec}:{fieldname}", detail, case=cid,
                             bytes_hex=_bytes_of(did, built, refenc)[:200].hex())
            if not diffs:
                fully_decoded[cid] = fully_decoded.get(cid, 0) + 1
    for cid, case in cases.items():
        if fully_decoded.get(cid, 0) == 4:
            sh.nontrivial.add(_sig(case_shape(case)))
            if len(sh.samples) < 2:
                sh.samples.append(_sample_build(cid, case, built))
    for rid, rc in refenc.items():
        if fully_decoded.get(rid, 0) == 2:
            sh.nontrivial.add(_sig(rc["shape"]))
            if len(sh.samples) < 3 and rid[1] == 0:
                sh.samples.append(dict(kind="reference-encoded", label=rc["label"], bytes_hex=rc["bytes"][:120].hex(),
                                       batches=len(rc["expected"])))

    # ---- concatenation verdicts
    for cid, cc in concats.items():
        sh.count("concat_cases")
        sh.evaluations += 1
        mixed = len(set(cc["magics"])) > 1
        if mixed:
            sh.count("concat_mixed_magic")
        if cc["tail"] != "none":
            sh.count("concat_with_partial_tail")
        ok = 0
        for dec in ("C", "Py"):
            got = decoded[dec][0].get(("d", cid, "Cat"))
            if got is None:
                continue
            sh.count(f"concat_decodes:{dec}")
            diffs = sh.compare(got, cc["expected"])
            if got.get("size_in_bytes") != len(cc["bytes"]):
                diffs.append(("size_in_bytes", f"{got.get('size_in_bytes')} != {len(cc['bytes'])}"))
            if not diffs:
                ok += 1
                sh.count(f"concat_ok:{dec}:" + ("mixed_magic" if mixed else "same_magic"))
                continue
            mech = _concat_mechanism(dec, got, cc, diffs=diffs)
            sh.violation(mech, f"{dec} MemoryRecords over {len(cc['expected'])} valid batches (magics {cc['magics']}, "
                         f"tail {cc['tail']}): " + "; ".join(d[1] for d in diffs[:3]), case=cid, pieces=cc["pieces"],
                         tail=cc["tail"], decoder=dec, bytes_hex=cc["bytes"][:600].hex(), bytes_len=len(cc["bytes"]))
        if ok == 2:
            sh.count("concat_ok_both_decoders:" + ("mixed_magic" if mixed else "same_magic"))
            sh.nontrivial.add(_sig(("concat", tuple(cc["pieces"]), cc["tail"])))
            if mixed and not any(s.get("kind") == "concatenation" for s in sh.samples):
                sh.samples.append(dict(kind="concatenation", pieces=cc["pieces"], partial_tail=cc["tail"],
                                       total_bytes=len(cc["bytes"]), batches=len(cc["expected"])))


def _bytes_of(did, built, refenc):
    _d, cid, enc = did
    if enc == "Ref":
        return refenc[cid]["bytes"]
    return built[enc][0][cid]["bytes"]


def _parsed_as(batch, err_for_batch):
    if batch.get("cls"):
        return batch["cls"]
    if err_for_batch:
        names = " ".join(err_for_batch.get("tb", []))
        if "DefaultRecordBatch" in names or "default_records" in names:
            return "DefaultRecordBatch"
        if "LegacyRecordBatch" in names or "legacy_records" in names:
            return "LegacyRecordBatch"
    return None


def _concat_mechanism(dec, got, cc, diffs=None, died=False):
    """Narrow classifier for a MemoryRecords failure over concatenated valid batches.

    Every piece of a concatenation decodes correctly on its own (checked separately), so a failure here
    is a defect of the splitter.  If the FIRST failing batch has a magic different from the first batch
    of the buffer (and, where the batch class or the traceback is visible, was handed to the parser of
    the first batch's format) the failure is classified as 'decoded with the first batch's magic'."""
    magics = cc["magics"]

    def cls_of(m):
        return "DefaultRecordBatch" if m >= 2 else "LegacyRecordBatch"
    if died:
        if len(set(magics)) > 1:
            return f"memoryrecords:{dec}:crash_on_mixed_magic_concatenation"
        return f"memoryrecords:{dec}:crash_on_concatenation"
    ks = [d[2] for d in diffs if d[2] is not None]
    first = diffs[0][0] if diffs else "unknown"
    if ks:
        k = min(ks)
        if k < len(magics) and magics[k] != magics[0]:
            batches = got["batches"]
            pa = _parsed_as(batches[k], got["error"] if k == len(batches) - 1 else None) if k < len(batches) else None
            if pa is None or pa == cls_of(magics[0]) or cls_of(magics[k]) == cls_of(magics[0]):
                return f"memoryrecords:{dec}:batch_decoded_with_first_batch_magic"
            return f"memoryrecords:{dec}:batch_parsed_as_wrong_format"
    if first.startswith("tail_exception") or first in ("tail_state",):
        return f"memoryrecords:{dec}:trailing_partial:{first}"
    scope = "mixed_magic" if len(set(magics)) > 1 else "same_magic"
    return f"memoryrecords:{dec}:concat_{scope}:{first}"


def _sig(obj):
    import hashlib
    import json
    return hashlib.sha1(json.dumps(obj, sort_keys=True, default=str).encode()).hexdigest()[:16]


def _sample_build(cid, case, built):
    recs = case["records"]
    out = dict(kind="build", magic=case["magic"], codec=case["codec"], batch_size=case["batch_size"],
               limit=case["limit_kind"], records=[dict(ts=r[0], key=_short(r[1]), value=_short(r[2]),
                                                       headers=[(h[0], _short(h[1])) for h in r[3]][:3])
                                                  for r in recs[:3]], n_records=len(recs))
    for impl in ("C", "Py"):
        res = built[impl][0].get(cid)
        if res and "bytes" in res:
            out[f"bytes_{impl}_hex"] = res["bytes"][:96].hex()
            out[f"len_{impl}"] = len(res["bytes"])
    return out


# --------------------------------------------------------------------------- runner interface

def prepare(tier, seed, scratch):
    from vf import extbuild
    return {"ext_dir": extbuild.build("plain", os.path.join(scratch, "ext"))}


def shards(tier, seed):
    n, cases = (QUICK_SHARDS, QUICK_CASES) if tier == "quick" else (THOROUGH_SHARDS, THOROUGH_CASES)
    return [dict(seed=seed, shard=i, cases=cases, large=1 if tier == "quick" else 3, timeout_s=1800)
            for i in range(n)]


def replay(witness):
    params = dict(witness["shard"])
    params.pop("ext_dir", None)
    return run_shard(params)


if __name__ == "__main__":
    if len(sys.argv) > 1 and sys.argv[1] == "--child":
        sys.exit(child_main(sys.argv[2:6]))
