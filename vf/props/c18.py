"""C18 -- SCRAM login proves the password and authenticates the server.

Monitor: the real `aiokafka.conn.ScramAuthenticator` is driven message by message (its `_step()`,
the function `step()` runs in the executor; a few exchanges per shard go through `step()` itself on
a real event loop) against `vf.refmodels_direct.ScramServer`, an RFC 5802 server built from
hashlib/hmac.  Three kinds of exchange:
  honest   -- the server knows the password: it must find nothing wrong with the client's two
              messages (gs2 header, escaped username, nonce, c=biws, combined nonce, proof) and the
              client must complete (third `_step` returns None).
  tamper   -- the honest exchange with exactly one field of one server message changed in flight;
  impostor -- a server without the password that sends a well-formed challenge and guesses `v=`.
              In both the client must raise before completing: `_step` must never return None.
A fourth kind, `login`, runs a few parameter sets per shard through the real
`aiokafka.conn.create_conn(... security_protocol="SASL_PLAINTEXT")` on the simulated network against a
peer that speaks ApiVersions / SaslHandshake (v0: raw tokens, v1: SaslAuthenticate frames) and answers
the SCRAM messages from the same reference server - honestly, as an impostor, or with an EMPTY / error
reply in place of one of its two messages: connect() may return only if a server that knows the
password sent its genuine final message.
Only the authenticator's uuid4 nonce source is rebound (to a seeded generator) so that a seed
reproduces a run.
"""
from __future__ import annotations

import asyncio
import random
import time
import uuid

from vf import refmodels_direct as ref
from vf.repoimport import use_repo
from vf.runner import sig

PROPERTY_ID = "C18"
LEVEL = "exploration"

N_SHARDS = {"quick": 16, "thorough": 48}
PARAM_SETS = {"quick": 64, "thorough": 200}     # per shard
LOGIN_SETS = {"quick": 4, "thorough": 16}       # of which also run through connect() (16 logins each)

RULE = (
    "Per shard a seeded stream of parameter sets (mechanism SHA-256/512 alternating; username from a pool "
    "with ',', '=', literal '=2C'/'=3D', non-ASCII, long and random names; password ASCII / non-ASCII "
    "(NFKC-stable) / with ',' '='; salt 1..64 random bytes with 1, 16, 64 forced; iteration count 1..20000: "
    "60% <= 64, 30% <= 4096, 10% <= 20000 with 1, 4096 and 20000 forced; server nonce extension of 1..40 "
    "printable characters, sometimes containing '=').  Each parameter set runs: 1 honest exchange; every "
    "nonce tampering x2 transcripts; salt (bit flip, other salt, shorter, longer), iteration count (+1, -1, x2, "
    "1) x2 transcripts; server signature: one flipped bit in every byte (all bits of every byte when the "
    "iteration count <= 64), every proper prefix, extension, zeros, signature for another password, e= error; "
    "impostor guesses (random, zeros, echo of the proof, H(proof), HMAC(proof, auth), unkeyed HMAC, empty, "
    "signatures for wrong passwords); 1 replay exchange (a peer that replays the two server messages recorded from the honest exchange: the client nonce must be fresh, the login must abort).  All randomness from random.Random(seed, shard).  An exchange is "
    "non-trivial when the client produced its first message and processed a server reply; distinct = sha1 "
    "of (mechanism, username, password, salt, iterations, variant kind) -- the index of the flipped signature "
    "bit / the prefix length is not part of the signature, so distinct_nontrivial undercounts the exchanges."
)
ASSUMPTIONS = [
    "The reference server does not apply SASLprep (Kafka's broker does not either); generated credentials are "
    "NFKC-stable so that a SASLprep-applying server would compute the same keys.",
    "A server nonce equal to the client nonce plus any (even empty) suffix counts as 'extending' it (RFC 5802 "
    "only requires the client to check the prefix); tampered nonces are used only when they do not start with "
    "the client nonce.",
    "'Aborts' = any exception out of the authenticator step before it reports completion.",
    "The SaslHandshake/SaslAuthenticate driver in conn.py (_do_sasl_handshake) is driven by the `login` exchanges only "
    "(a few parameter sets per shard, both handshake versions); SSL is not part of them.",
]
REQUIRED_COUNTERS = ["honest_exchanges", "honest_completed", "tampered_nonce", "tampered_salt", "tampered_iterations",
                     "tampered_signature", "impostor_exchanges", "client_aborted_after_server_first",
                     "client_aborted_after_server_final", "exchanges_through_step_on_loop",
                     "rotation_exchanges_against_old_password_server", "rotation_exchanges_against_new_password_server",
                     "login_honest_completed", "login_rogue_server_refused", "login_handshake_v0", "login_handshake_v1",
                     "replayed_server_messages_refused"]

USERNAMES = [
    "user", "alice@example.com", "a,b", "a=b", "=,=,", ",", "=", ",=2C", "=3D", "u=2Cser=3D", "==2C,,=3D=",
    "пользователь", "用户,名=x", "jürgen", "ユーザー=,", " spaced name ", "x" * 200, "n=user,r=nonce", "n,,n=evil",
]
PASSWORDS = ["pencil", "пароль", "密码123", "p,=w", "üüüüüüüüüü", "correct horse battery staple", "pass=2Cword",
             "p", "ÆØÅæøå", "x" * 300]
WRONG_PASSWORDS = ["", "password", "pencil ", "Pencil", "admin"]


class Lib:
    _inst = None

    def __init__(self):
        self.root = use_repo()
        import logging
        logging.getLogger("aiokafka").setLevel(logging.CRITICAL + 1)
        from aiokafka import conn
        self.conn = conn
        self.Scram = conn.ScramAuthenticator
        self.loop = None

    @classmethod
    def get(cls):
        if cls._inst is None:
            cls._inst = cls()
        return cls._inst

    def seed_nonces(self, rng):
        class _UUID:
            @staticmethod
            def uuid4():
                return uuid.UUID(int=rng.getrandbits(128), version=4)
        self.conn.uuid = _UUID



class SaslPeer:
    """Broker side of a SASL/SCRAM login on the simulated network.  `wire` says what is done to the server's two SCRAM
    messages on their way out: None (as the reference server wrote them), ("empty", k) - the k-th server message is
    replaced by zero bytes with error code 0, ("error", k) - by an error reply (v1) / a closed connection (v0)."""

    def __init__(self, server, hv, wire, mechanism):
        self.server, self.hv, self.wire, self.mechanism = server, hv, wire, mechanism
        self.n_msgs = 0
        self.sent_genuine_final = False
        self.trace = []

    def accept(self, link):
        return self

    def on_disconnect(self, link):
        self.trace.append("peer_sees_close")

    def _scram(self, token):
        """-> bytes to send, or None to signal an error"""
        self.n_msgs += 1
        k = self.n_msgs
        try:
            out = self.server.on_client_first(token) if k == 1 else self.server.on_client_final(token) if k == 2 else b""
        except Exception as e:  # noqa: BLE001  (a reference server handed garbage)
            self.trace.append(f"server_raised:{type(e).__name__}")
            return None
        if self.wire and self.wire[1] == k:
            self.trace.append(f"{self.wire[0]}@{k}")
            return b"" if self.wire[0] == "empty" else None
        if k == 2 and self.server.mode == "honest" and self.server.accepted:
            self.sent_genuine_final = True
        return out

    def on_frame(self, link, frame):
        import struct
        link.done_request()
        if link.state.get("raw"):
            out = self._scram(bytes(frame))
            if out is None:
                link.close()
            else:
                link.send_frame(out)
            return
        api, ver, corr = struct.unpack(">hhi", frame[:8])
        (cl,) = struct.unpack(">h", frame[8:10])
        body = frame[10 + max(cl, 0):]
        self.trace.append(f"api{api}v{ver}")
        if api == 18:
            apis = [(18, 0, 0), (17, 0, self.hv), (36, 0, 1)]
            link.send_frame(struct.pack(">ihi", corr, 0, len(apis)) + b"".join(struct.pack(">hhh", *a) for a in apis))
        elif api == 17:
            m = self.mechanism.encode()
            link.send_frame(struct.pack(">ihi", corr, 0, 1) + struct.pack(">h", len(m)) + m)
            if ver == 0:
                link.state["raw"] = True
        elif api == 36:
            (n,) = struct.unpack(">i", body[:4])
            out = self._scram(bytes(body[4:4 + n]))
            if out is None:
                msg = b"Authentication failed"
                rep = struct.pack(">ihh", corr, 58, len(msg)) + msg + struct.pack(">i", 0)
            else:
                rep = struct.pack(">ihh", corr, 0, -1) + struct.pack(">i", len(out)) + out
            if ver >= 1:
                rep += struct.pack(">q", 0)
            link.send_frame(rep)
        else:
            self.trace.append("unexpected_api")
            link.close()


class Checker:
    def __init__(self, lib, rng):
        self.lib = lib
        self.rng = rng
        self.counters = {}
        self.violations = {}
        self.nontrivial = []
        self.samples = []
        self.via_loop_budget = 0
        self._last_note = None

    def count(self, k, n=1):
        self.counters[k] = self.counters.get(k, 0) + n

    def violate(self, mech, what, witness):
        self.count(f"violating_exchanges_{mech}")
        old = self.violations.get(mech)
        size = len(str(witness))
        if old is None or size < len(str(old["witness"])):
            self.violations[mech] = {"mechanism": mech, "what": what, "witness": witness}

    # -- one exchange ----------------------------------------------------------------------
    def exchange(self, p, server, via_loop=False):
        """Returns (completed, stage_of_abort, exception, transcript)."""
        lib = self.lib
        auth = lib.Scram(loop=lib.loop, sasl_plain_password=p["password"], sasl_plain_username=p["username"],
                         sasl_mechanism=p["mechanism"])
        if via_loop:
            def step(payload):
                return lib.loop.run_until_complete(auth.step(payload))
            self.count("exchanges_through_step_on_loop")
        else:
            step = auth._step
        transcript = []
        stage = "client_first"
        try:
            r = step(None)
            if r is None:
                return True, None, None, transcript
            client_first, expect = r
            transcript.append(("C", client_first))
            server_first = server.on_client_first(client_first)
            transcript.append(("S", server_first))
            stage = "server_first"
            r = step(server_first)
            if r is None:
                return True, None, None, transcript
            client_final, expect = r
            transcript.append(("C", client_final))
            server_final = server.on_client_final(client_final)
            transcript.append(("S", server_final))
            stage = "server_final"
            r = step(server_final)
            if r is None:
                return True, None, None, transcript
            transcript.append(("C", r[0]))
            return False, "extra_message", None, transcript
        except Exception as e:  # noqa: BLE001
            return False, stage, e, transcript

    def witness(self, p, variant, transcript):
        return {"mechanism": p["mechanism"], "username": p["username"], "password": p["password"],
                "salt_hex": p["salt"].hex(), "iterations": p["iterations"], "server_nonce_ext": p["ext"],
                "variant": variant,
                "transcript": [(who, m.decode("utf-8", "replace")[:300]) for who, m in transcript]}

    def make_server(self, p, **kw):
        return ref.ScramServer(p["mechanism"], p["username"], kw.pop("password", p["password"]), p["salt"],
                               p["iterations"], p["ext"], **kw)

    def note(self, p, variant):
        # the flipped bit index / prefix length is left out of the signature: one signature per
        # (parameter set, variant kind), so distinct_nontrivial is a conservative count
        if isinstance(variant, list) and variant[0] == "tamper" and variant[1][0] == "signature":
            variant = ["tamper", list(variant[1][:2])]
        key = (p["mechanism"], p["username"], p["password"], p["salt"], p["iterations"], str(variant))
        if key != self._last_note:
            self._last_note = key
            self.nontrivial.append(sig([p["mechanism"], p["username"], p["password"], p["salt"].hex(), p["iterations"], variant]))

    # -- the three kinds -------------------------------------------------------------------
    def honest(self, p):
        server = self.make_server(p, mode="honest")
        via_loop = self.via_loop_budget > 0
        if via_loop:
            self.via_loop_budget -= 1
        done, stage, exc, tr = self.exchange(p, server, via_loop=via_loop)
        self.count("honest_exchanges")
        self.note(p, "honest")
        for kind, detail in server.problems:
            self.violate(kind, f"honest server: {detail}", self.witness(p, "honest", tr))
        if not done:
            self.violate("scram_rejects_honest_server",
                         f"client aborted at {stage} with {exc!r} although the server knows the password",
                         self.witness(p, "honest", tr))
        else:
            self.count("honest_completed")
            if server.accepted:
                self.count("honest_server_accepted_proof")
        if any(c in p["username"] for c in ",="):
            self.count("honest_usernames_needing_escape")
        if not p["username"].isascii():
            self.count("honest_usernames_non_ascii")
        if not p["password"].isascii():
            self.count("honest_passwords_non_ascii")
        if len(self.samples) < 2 and done and any(c in p["username"] for c in ",="):
            self.samples.append(self.witness(p, "honest", tr))

    def must_abort(self, p, server, variant, family, mech):
        done, stage, exc, tr = self.exchange(p, server)
        if variant[0] == "nonce" and server.tampered_nonce_extends:
            self.count("skipped_tampered_nonce_still_extends")
            return
        self.count(f"tampered_{variant[0]}" if family == "tamper" else "impostor_exchanges")
        self.note(p, [family, variant])
        if done:
            self.violate(mech, f"client completed authentication against {family} server, variant {variant}",
                         self.witness(p, [family, variant], tr))
        else:
            self.count(f"client_aborted_after_{stage}")
            self.count(f"abort_exception_{type(exc).__name__}")

    def tampers(self, p):
        rng = self.rng
        hlen = 32 if p["mechanism"].endswith("256") else 64
        for transcript in ("server", "wire"):
            for kind in ref.NONCE_TAMPERS:
                self.must_abort(p, self.make_server(p, mode="tamper", tamper=("nonce", kind), transcript=transcript),
                                ("nonce", kind, transcript), "tamper", "scram_accepts_nonce_not_extending_client_nonce")
            salt = p["salt"]
            flipped = bytearray(salt)
            bit = rng.randrange(len(salt) * 8)
            flipped[bit // 8] ^= 1 << (bit % 8)
            other = rng.randbytes(len(salt))
            salts = [("bitflip", bytes(flipped)), ("other", other), ("longer", salt + b"\x00")]
            if len(salt) > 1:
                salts.append(("shorter", salt[:-1]))
            for name, s2 in salts:
                if s2 == salt:
                    continue
                self.must_abort(p, self.make_server(p, mode="tamper", tamper=("salt", s2), transcript=transcript),
                                ("salt", name, transcript), "tamper", "scram_accepts_tampered_salt")
            it = p["iterations"]
            for name, i2 in (("plus1", it + 1), ("minus1", it - 1), ("double", it * 2), ("one", 1)):
                if i2 == it or i2 < 1 or i2 > 40000:
                    continue
                self.must_abort(p, self.make_server(p, mode="tamper", tamper=("iterations", i2), transcript=transcript),
                                ("iterations", name, transcript), "tamper", "scram_accepts_tampered_iteration_count")
        # server-final: the signature
        if p["iterations"] <= 64:
            bits = range(hlen * 8)
            self.count("parameter_sets_with_every_signature_bit_flipped")
        else:
            bits = [b * 8 + rng.randrange(8) for b in range(hlen)]
        for bit in bits:
            self.must_abort(p, self.make_server(p, mode="tamper", tamper=("signature", ("flipbit", bit))),
                            ("signature", "flipbit", bit), "tamper", "scram_accepts_bad_server_signature")
        for n in range(hlen):
            self.must_abort(p, self.make_server(p, mode="tamper", tamper=("signature", ("truncate", n))),
                            ("signature", "truncate", n), "tamper", "scram_accepts_truncated_server_signature")
        self.must_abort(p, self.make_server(p, mode="tamper", tamper=("signature", ("extend", 1))),
                        ("signature", "extend", 1), "tamper", "scram_accepts_extended_server_signature")
        self.must_abort(p, self.make_server(p, mode="tamper", tamper=("signature", ("zero",))),
                        ("signature", "zero"), "tamper", "scram_accepts_bad_server_signature")
        for wp in WRONG_PASSWORDS:
            if wp != p["password"]:
                self.must_abort(p, self.make_server(p, mode="tamper", tamper=("signature", ("other_password", wp))),
                                ("signature", "other_password", wp), "tamper", "scram_accepts_bad_server_signature")
        self.must_abort(p, self.make_server(p, mode="tamper", tamper=("signature", ("error",))),
                        ("signature", "error"), "tamper", "scram_accepts_server_error_as_success")

    def rotation(self, p):
        """A second login in the same process with the same mechanism, user name, salt and iteration count but ANOTHER
        password (password rotation; a wrong password typed after a right one): (a) against a server that still knows only
        the first password the client must not complete, (b) against a server that knows the new password it must."""
        new_pw = p["password"] + "-rotated" if self.rng.random() < 0.5 else self.rng.choice([w for w in WRONG_PASSWORDS if w != p["password"]])
        p2 = dict(p, password=new_pw)
        server = self.make_server(p2, mode="honest", password=p["password"])      # knows the OLD password only
        done, stage, exc, tr = self.exchange(p2, server)
        self.count("rotation_exchanges_against_old_password_server")
        self.note(p2, ["rotation", "old_password_server"])
        if done:
            self.violate("scram_completes_with_server_that_knows_another_password",
                         "after a login with another password for the same user/salt/iterations, the client completed "
                         "authentication against a server that does not know its current password",
                         self.witness(p2, ["rotation", "server knows " + repr(p["password"])], tr))
        else:
            self.count(f"client_aborted_after_{stage}")
        self.honest(p2)                                                           # knows the NEW password
        self.count("rotation_exchanges_against_new_password_server")


    # -- through connect() -----------------------------------------------------------------
    def login(self, p, server, hv, wire, variant):
        """One connect() of a real AIOKafkaConnection against a SaslPeer; -> (connected, exception, peer)."""
        from vf.simloop import SimNet, run_sim
        lib = self.lib
        peer = SaslPeer(server, hv, wire, p["mechanism"])
        net = SimNet(seed=self.rng.getrandbits(30), lat=(0.0002, 0.002), fragment=True)
        net.listen("broker", 9092, peer)
        out = {"connected": False, "exc": None}

        async def main(loop):
            try:
                conn = await lib.conn.create_conn("broker", 9092, request_timeout_ms=5000, security_protocol="SASL_PLAINTEXT",
                                                  sasl_mechanism=p["mechanism"], sasl_plain_username=p["username"],
                                                  sasl_plain_password=p["password"])
            except Exception as e:  # noqa: BLE001
                out["exc"] = e
                return
            out["connected"] = conn.connected()
            conn.close()

        try:
            run_sim(main, seed=1, net=net, max_virtual_s=120, max_events=20000)
        except Exception as e:  # noqa: BLE001
            out["exc"] = e
            out["harness_error"] = True
        self.count(f"login_handshake_v{hv}")
        self.count("login_exchanges")
        self.note(p, ["login", hv, variant])
        return out, peer

    def logins(self, p):
        rng = self.rng
        for hv in (0, 1):
            # honest broker
            server = self.make_server(p, mode="honest")
            out, peer = self.login(p, server, hv, None, "honest")
            w = dict(self.witness(p, ["login", hv, "honest"], []), peer_trace=peer.trace, error=repr(out["exc"]))
            if out.get("harness_error"):
                self.count("login_harness_errors")
            elif not out["connected"]:
                self.violate("login_fails_with_honest_server", f"connect() via SaslHandshake v{hv} failed with {out['exc']!r} although "
                             "the broker knows the password", w)
            else:
                self.count("login_honest_completed")
                for kind, detail in server.problems:
                    self.violate(kind, f"honest server (login via connect(), handshake v{hv}): {detail}", w)
            # brokers that never prove they know the password
            hlen = 32 if p["mechanism"].endswith("256") else 64
            rogues = [("empty_first", self.make_server(p, mode="honest"), ("empty", 1)),
                      ("empty_final", self.make_server(p, mode="honest"), ("empty", 2)),
                      ("error_final", self.make_server(p, mode="honest"), ("error", 2)),
                      ("impostor_empty_final", ref.ScramServer(p["mechanism"], p["username"], None, rng.randbytes(8), 4, p["ext"],
                                                               mode="impostor", guess=("zeros",)), ("empty", 2)),
                      ("impostor_random", ref.ScramServer(p["mechanism"], p["username"], None, rng.randbytes(8), 4, p["ext"],
                                                          mode="impostor", guess=("random", rng.randbytes(hlen))), None),
                      ("other_password", self.make_server(p, mode="honest", password=p["password"] + "x"), None),
                      ("tampered_signature", self.make_server(p, mode="tamper", tamper=("signature", ("flipbit", rng.randrange(hlen * 8)))), None)]
            for name, server, wire in rogues:
                out, peer = self.login(p, server, hv, wire, name)
                if out.get("harness_error"):
                    self.count("login_harness_errors")
                    continue
                if out["connected"] and not peer.sent_genuine_final:
                    self.violate(f"login_completes_with_broker_that_never_proved_the_password:{name}",
                                 f"connect() via SaslHandshake v{hv} returned a connected connection although the broker's "
                                 f"genuine server-final message never reached the client (broker behaviour: {name})",
                                 dict(self.witness(p, ["login", hv, name], []), peer_trace=peer.trace))
                elif out["connected"]:
                    self.count("login_rogue_variant_was_actually_genuine")
                else:
                    self.count("login_rogue_server_refused")
                    self.count(f"login_refused_with_{type(out['exc']).__name__}")

    def replays(self, p):
        """A peer that does not know the password but recorded an earlier genuine login of the same user replays the
        server's two messages verbatim.  The client's nonce must be fresh for every login (RFC 5802 5.1), so the replayed
        server-first message cannot extend it and the login must abort."""
        honest = self.make_server(p, mode="honest")
        done, _stage, _exc, tr = self.exchange(p, honest)
        if not done:
            return          # reported by honest()
        rec = [m for who, m in tr if who == "S"]
        cfirst = [m for who, m in tr if who == "C"][0]

        class Replayer:
            problems, accepted, tampered_nonce_extends, mode = [], False, False, "replay"

            def on_client_first(self, raw):
                self.second_first = raw
                return rec[0]

            def on_client_final(self, raw):
                return rec[1]
        rp = Replayer()
        done2, stage, exc, tr2 = self.exchange(p, rp)
        self.count("replay_exchanges")
        self.note(p, ["replay"])
        nonce = lambda m: dict(x.split(b"=", 1) for x in m.split(b",")[2:] if b"=" in x).get(b"r")     # noqa: E731
        if nonce(cfirst) == nonce(getattr(rp, "second_first", b"")):
            self.violate("scram_client_nonce_reused_across_logins",
                         f"two logins of one process sent the same client nonce {nonce(cfirst)!r}",
                         self.witness(p, ["replay"], tr + tr2))
        if done2:
            self.violate("scram_completes_with_replayed_server_messages",
                         "the client completed a login against a peer that only replayed the server messages recorded from an "
                         "earlier login (it does not know the password)", self.witness(p, ["replay"], tr + tr2))
        else:
            self.count("replayed_server_messages_refused")
            self.count(f"client_aborted_after_{stage}")

    def impostors(self, p):
        rng = self.rng
        hlen = 32 if p["mechanism"].endswith("256") else 64
        guesses = [("random", rng.randbytes(hlen)), ("random", rng.randbytes(hlen)), ("random", rng.randbytes(hlen - 1)),
                   ("zeros",), ("echo_proof",), ("hash_proof",), ("hmac_proof",), ("unkeyed",), ("empty",)]
        guesses += [("wrong_password", wp) for wp in WRONG_PASSWORDS if wp != p["password"]]
        for g in guesses:
            # the impostor picks its own salt and a cheap iteration count
            q = dict(p, salt=rng.randbytes(rng.randint(1, 32)), iterations=rng.choice((1, 2, 16, 4096 if rng.random() < 0.1 else 8)))
            server = ref.ScramServer(q["mechanism"], q["username"], None, q["salt"], q["iterations"], q["ext"],
                                     mode="impostor", guess=g)
            name = [g[0]] if g[0] == "random" else list(g)
            self.must_abort(q, server, ("impostor", name), "impostor", "scram_accepts_impostor_without_password")


def random_params(rng, index):
    mech = ("SCRAM-SHA-256", "SCRAM-SHA-512")[index % 2]
    x = rng.random()
    if x < 0.55:
        user = rng.choice(USERNAMES)
    else:
        alphabet = "abcXYZ019,,==-_.@ äßжñ字"
        user = "".join(rng.choice(alphabet) for _ in range(rng.randint(1, 24)))
    if rng.random() < 0.6:
        pw = rng.choice(PASSWORDS)
    else:
        alphabet = "abcdefXYZ0123456789,=!$%& äöüßжщñ字パ"
        pw = "".join(rng.choice(alphabet) for _ in range(rng.randint(1, 40)))
    forced_salt = {0: 1, 1: 16, 2: 64}.get(index)
    salt = rng.randbytes(forced_salt or rng.randint(1, 64))
    forced_it = {0: 1, 1: 4096, 2: 20000, 3: 2}.get(index)
    if forced_it:
        it = forced_it
    else:
        y = rng.random()
        it = rng.randint(1, 64) if y < 0.6 else rng.randint(65, 4096) if y < 0.9 else rng.randint(4097, 20000)
    ext_alphabet = "abcdefghijklmnopqrstuvwxyzABCDEFGHIJKLMNOPQRSTUVWXYZ0123456789+/!#$%&()*-.:;<>?@[]^_{|}~" + ("=" if rng.random() < 0.3 else "")
    ext = "".join(rng.choice(ext_alphabet) for _ in range(rng.randint(1, 40)))
    return {"mechanism": mech, "username": user, "password": pw, "salt": salt, "iterations": it, "ext": ext}


# ------------------------------------------------------------------------------------------
# runner interface
# ------------------------------------------------------------------------------------------

def shards(tier: str, seed: int):
    return [{"shard": s, "count": PARAM_SETS[tier], "seed": seed, "timeout_s": 1800} for s in range(N_SHARDS[tier])]


def run_shard(params):
    t0 = time.time()
    lib = Lib.get()
    rng = random.Random(f"C18/{params['seed']}/{params['shard']}")
    lib.seed_nonces(rng)
    res = {"evaluations": 0, "nontrivial": [], "violations": [], "inconclusive": [],
           "counters": {}, "sets": {"repo_root": [lib.root]}, "samples": []}
    if not ref.hi_selfcheck():
        res["inconclusive"].append("oracle ScramServer failed its RFC 7677 test vector / Hi() cross-check")
        return res
    lib.loop = asyncio.new_event_loop()
    try:
        ck = Checker(lib, rng)
        ck.via_loop_budget = 6
        ck.count("oracle_rfc7677_vector_checked")
        for i in range(params["count"]):
            p = random_params(rng, i if params["shard"] % 4 == 0 else i + 4)
            ck.honest(p)
            ck.tampers(p)
            ck.impostors(p)
            ck.rotation(p)
            ck.replays(p)
            if i < LOGIN_SETS[params.get("tier", "quick")]:
                ck.logins(p)
            ck.count("parameter_sets")
            ck.count(f"parameter_sets_{p['mechanism']}")
            if p["iterations"] > 4096:
                ck.count("parameter_sets_iterations_over_4096")
    finally:
        lib.loop.close()
    res["evaluations"] = sum(v for k, v in ck.counters.items()
                             if k in ("honest_exchanges", "impostor_exchanges", "rotation_exchanges_against_old_password_server",
                                      "login_exchanges", "replay_exchanges")
                             or k.startswith("tampered_"))
    res["violations"] = list(ck.violations.values())
    res["nontrivial"] = ck.nontrivial
    res["samples"] = ck.samples
    res["counters"] = dict(ck.counters)
    res["counters"]["cpu_ms"] = int((time.time() - t0) * 1000)
    return res


def replay(witness):
    lib = Lib.get()
    rng = random.Random("replay")
    lib.seed_nonces(rng)
    lib.loop = asyncio.new_event_loop()
    try:
        ck = Checker(lib, rng)
        p = {"mechanism": witness["mechanism"], "username": witness["username"], "password": witness["password"],
             "salt": bytes.fromhex(witness["salt_hex"]), "iterations": witness["iterations"], "ext": witness["server_nonce_ext"]}
        ck.honest(p)
        ck.tampers(p)
        ck.impostors(p)
        if isinstance(witness.get("variant"), list) and witness["variant"][:1] == ["login"]:
            ck.logins(p)
    finally:
        lib.loop.close()
    return {"evaluations": 1, "violations": list(ck.violations.values())}
