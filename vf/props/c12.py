"""C12 - responses reach exactly their requests; connection failure fails all waiters.

A real AIOKafkaConnection runs on the virtual-time loop against a scripted in-memory peer.
The oracle is a small sequential model of "one connection, FIFO matching" evaluated over what
was OBSERVED at the boundary: send times, deadlines, cancel times, and the virtual time at
which each response frame (or fatal fault) was completely delivered to the client's transport.
"""
from __future__ import annotations

import asyncio
import random
import struct

from vf import repoimport
from vf.runner import sig

PROPERTY_ID = "C12"
LEVEL = "exploration"
RULE = ("case = (1..8 pipelined requests of mixed flexible/non-flexible API types with staggered send times; "
        "per-waiter mode normal/timeout/cancel-before/cancel-after; peer reply delays; chunking of the reply "
        "byte stream at seeded or enumerated positions; optional fatal fault at a reply position: wrong/"
        "duplicate/zero correlation id, truncated body, unsolicited frame, EOF/reset at a byte, bad size; "
        "correlation counter preset near 2^31); plus, per random shard, scenarios in which the transport's write() raises BrokenPipeError on the next send while the peer stays silent (1..5 requests outstanding). Non-trivial = >=2 requests and at least one of "
        "{chunk cut, timeout, cancel, fault}. Distinct = signature over (request kinds, modes, fault kind+"
        "position, number of cuts, wrap).")
ASSUMPTIONS = [
    "peer responses are hand-packed with struct (independent of aiokafka.protocol)",
    "expected outcome per waiter computed from observed delivery times at the transport boundary; ties in "
    "virtual time between a deadline and an arrival are excluded by construction (random float latencies)",
    "FindCoordinator v0 + correlation id 0 is its own scenario class (deliberate library quirk)",
]
REQUIRED_COUNTERS = ["waiters_checked", "results_matched", "fatal_faults_injected", "waiters_failed_by_fault",
                     "timeouts_observed", "cancels_observed", "write_failure_cases"]

T_REQ = 5.0  # request timeout (virtual seconds)


# ---- hand-packed responses ----------------------------------------------------------------------
def _s(x):
    if x is None:
        return struct.pack(">h", -1)
    b = x.encode()
    return struct.pack(">h", len(b)) + b


KINDS = ["metadata5", "metadata1", "delrec2", "listreass0", "findco0", "findco1", "heartbeat1", "heartbeat0", "listgroups1"]
FLEX = {"delrec2", "listreass0"}


def response_body(kind, marker):
    if kind == "metadata5":  # throttle, brokers[], cluster_id, controller_id, topics[]
        return struct.pack(">ii", marker, 0) + _s(None) + struct.pack(">ii", 7, 0)
    if kind == "metadata1":  # brokers[], controller_id, topics[]
        return struct.pack(">iii", 0, marker, 0)
    if kind == "delrec2":    # throttle, topics(compact []), tags
        return struct.pack(">i", marker) + b"\x01" + b"\x00"
    if kind == "listreass0":  # throttle, error_code, error_message(compact nullable), topics(compact []), tags
        return struct.pack(">ih", marker, 0) + b"\x00" + b"\x01" + b"\x00"
    if kind == "findco0":    # error_code, node_id, host, port
        return struct.pack(">hi", 0, marker) + _s("h") + struct.pack(">i", 9092)
    if kind == "findco1":    # throttle, error_code, error_message, node_id, host, port
        return struct.pack(">ih", marker, 0) + _s(None) + struct.pack(">i", 3) + _s("h") + struct.pack(">i", 9092)
    if kind == "listgroups1":  # throttle, error_code, groups[(group, protocol_type)]: the body ENDS with a string
        return struct.pack(">ihi", marker, 0, 1) + _s("grp") + _s("consumer")
    if kind == "heartbeat1":
        return struct.pack(">ih", marker, 0)
    if kind == "heartbeat0":
        return struct.pack(">h", marker % 30000)
    raise KeyError(kind)


def marker_of(kind, resp):
    if kind in ("metadata5", "delrec2", "listreass0", "findco1", "heartbeat1", "listgroups1"):
        return resp.throttle_time_ms
    if kind == "metadata1":
        return resp.controller_id
    if kind == "findco0":
        return resp.coordinator_id if hasattr(resp, "coordinator_id") else resp.node_id
    if kind == "heartbeat0":
        return resp.error_code
    raise KeyError(kind)


def response_header(kind, corr):
    # flexible response header = correlation id + tagged fields.  Brokers send an empty section today (delrec2 below); the
    # protocol allows fields there, so one kind carries one (tag 7, two bytes): the body starts behind it
    if kind == "listreass0":
        return struct.pack(">i", corr) + b"\x01\x07\x02ab"
    return struct.pack(">i", corr) + (b"\x00" if kind in FLEX else b"")


def make_request(kind):
    from aiokafka.protocol.admin import DeleteRecordsRequest, ListPartitionReassignmentsRequest
    from aiokafka.protocol.coordination import FindCoordinatorRequest
    from aiokafka.protocol.group import HeartbeatRequest
    from aiokafka.protocol.metadata import MetadataRequest
    if kind in ("metadata5", "metadata1"):
        return MetadataRequest(["t"])
    if kind == "delrec2":
        return DeleteRecordsRequest([("t", [(0, 5)])], 1000, tags={})
    if kind == "listreass0":
        return ListPartitionReassignmentsRequest(1000, [], {})
    if kind in ("findco0", "findco1"):
        return FindCoordinatorRequest("g", 0)
    if kind == "listgroups1":
        from aiokafka.protocol.admin import ListGroupsRequest
        return ListGroupsRequest()
    return HeartbeatRequest("g", 1, "m")


VERSIONS = {"metadata5": (3, 5), "metadata1": (3, 1), "delrec2": (21, 2), "listreass0": (46, 0),
            "findco0": (10, 0), "findco1": (10, 1), "heartbeat1": (12, 1), "heartbeat0": (12, 0), "listgroups1": (16, 1)}


def bad_corr(f, corr, prev):
    k = f["kind"]
    bad = {"corr_zero": 0, "corr_plus1": (corr + 1) % 2**31, "corr_minus1": (corr - 1) % 2**31,
           "corr_dup": prev if prev is not None else (corr + 7) % 2**31,
           "corr_random": f.get("value", 5)}[k]
    if bad == corr:
        bad = (corr + 11) % 2**31
    return bad


# ---- scripted peer ------------------------------------------------------------------------------
class Peer:
    """Receives request frames; replies per script. Keeps reply order = request order."""

    def __init__(self, case, log):
        self.case = case
        self.log = log
        self.seen = []          # (api_key, version, corr)
        self.link = None
        self.replied = 0
        self.last_reply_t = 0.0
        self.dead = False
        self.mute = False
        self.qorder = []        # filled by the harness at send time: queue position -> case request index

    def req(self, p):
        return self.case["reqs"][self.qorder[p]]

    def accept(self, link):
        self.link = link
        return self

    def on_disconnect(self, link):
        self.log.append(("peer_sees_close", link.net.loop.time()))

    def on_frame(self, link, frame):
        api, ver, corr = struct.unpack(">hhi", frame[:8])
        link.done_request()  # pipelining: keep reading
        if api == 18:
            body = struct.pack(">ih", corr, 0) + struct.pack(">i", 1) + struct.pack(">hhh", 18, 0, 0)
            link.send_frame(body, cuts=[])
            return
        i = len(self.seen)
        self.seen.append((api, ver, corr))
        loop = link.net.loop
        if self.case["mode"] == "bulk":
            if len(self.seen) == len(self.case["reqs"]):
                loop.call_at(loop.time() + 0.01, self._bulk)
            return
        d = self.req(i)["reply_delay"]
        if d is None or self.mute:
            self.mute = True   # a broker that stops answering stops for good (replies are FIFO)
            return
        when = max(self.last_reply_t + 1e-6, loop.time() + d)
        self.last_reply_t = when
        link.net.call_at(when, self._reply, i)

    def frame_for(self, i):
        """bytes for reply position i (with size prefix), and whether it is a fatal fault."""
        case = self.case
        kind = self.req(i)["kind"]
        corr = self.seen[i][2]
        marker = self.req(i)["marker"]
        f = case.get("fault")
        if f and f["pos"] == i:
            k = f["kind"]
            if k in ("corr_zero", "corr_plus1", "corr_minus1", "corr_dup", "corr_random"):
                bad = bad_corr(f, corr, self.seen[i - 1][2] if i > 0 else None)
                payload = response_header(kind, bad) + response_body(kind, marker)
                return struct.pack(">i", len(payload)) + payload, "fatal"
            if k == "truncated_body":
                body = response_body(kind, marker)
                payload = response_header(kind, corr) + body[: f["keep"] % len(body)]
                return struct.pack(">i", len(payload)) + payload, "fatal"
            if k == "bad_size":
                return struct.pack(">i", f["value"]) + b"\x00\x01", "fatal_then_close"
            if k in ("eof_at", "reset_at"):
                payload = response_header(kind, corr) + response_body(kind, marker)
                data = struct.pack(">i", len(payload)) + payload
                return data[: f["keep"] % len(data)], k
        payload = response_header(kind, corr) + response_body(kind, marker)
        return struct.pack(">i", len(payload)) + payload, "ok"

    def _reply(self, i):
        if self.dead:
            return
        data, what = self.frame_for(i)
        cuts = self.req(i).get("cuts")
        f = self.case.get("fault")
        if (f and f["kind"] == "eof_at" and f.get("glue") and f["pos"] == i + 1 and what == "ok"
                and len(self.seen) > i + 1 and self.req(i + 1)["reply_delay"] is not None and not self.mute):
            # clean EOF exactly on the frame boundary after reply i, delivered in the SAME callback as reply i's
            # bytes, while request i+1 is already outstanding (the reader task cannot run between the two)
            self.link.send_glued_eof(data)
            self.replied += 1
            self.dead = True
            self.glued = True
            return
        self.link.send(data, cuts=cuts)
        self.replied += 1
        if what == "eof_at" or what == "fatal_then_close":
            self.link.close()
            self.dead = True
        elif what == "reset_at":
            self.link.reset()
            self.dead = True
        f = self.case.get("fault")
        if f and f["kind"] == "unsolicited" and f["pos"] == i and not self.dead:
            payload = response_header("metadata1", 12345) + response_body("metadata1", 99)
            self.link.send(struct.pack(">i", len(payload)) + payload, cuts=[])

    def _bulk(self):
        if self.dead:
            return
        stream = b""
        self.frame_ends = []
        for i in range(len(self.seen)):
            data, what = self.frame_for(i)
            stream += data
            self.frame_ends.append(len(stream))
            if what != "ok":
                break
            f = self.case.get("fault")
            if f and f["kind"] == "unsolicited" and f["pos"] == i:
                payload = response_header("metadata1", 12345) + response_body("metadata1", 99)
                stream += struct.pack(">i", len(payload)) + payload
                break
        self.link.send(stream, cuts=self.case.get("bulk_cuts", []))
        if what in ("eof_at", "fatal_then_close"):
            self.link.close()
        elif what == "reset_at":
            self.link.reset()


# ---- case generation ----------------------------------------------------------------------------
FAULT_KINDS = ["corr_zero", "corr_plus1", "corr_minus1", "corr_dup", "corr_random", "truncated_body",
               "bad_size", "eof_at", "reset_at", "unsolicited"]


def gen_case(rng: random.Random, idx):
    n = rng.choice([1, 2, 2, 3, 3, 4, 5, 6, 8])
    reqs = []
    t = 0.0
    for i in range(n):
        kind = rng.choice(KINDS)
        t += rng.choice([0.0, 0.0, rng.uniform(0, 0.5), rng.uniform(0, T_REQ * 0.9)])
        m = rng.random()
        mode = "normal"
        if m < 0.15:
            mode = "timeout"
        elif m < 0.27:
            mode = "cancel_before"
        elif m < 0.35:
            mode = "cancel_after"
        reqs.append({"kind": kind, "marker": 1000 + idx % 1000 * 10 + i, "send_at": t, "mode": mode,
                     "reply_delay": rng.uniform(0.001, 0.05), "cuts": None})
    # peer reply delays: a "timeout" waiter needs its reply later than its deadline; because replies are FIFO
    # this also delays later ones (they may then time out too - the model computes that from observations)
    for r in reqs:
        if r["mode"] == "timeout":
            r["reply_delay"] = T_REQ + rng.uniform(0.05, 1.0) if rng.random() < 0.8 else None
        if r["mode"] == "cancel_before":
            r["cancel_at"] = r["send_at"] + rng.uniform(0.0001, 0.002)
            r["reply_delay"] = rng.uniform(0.05, 0.5)
        if r["mode"] == "cancel_after":
            r["cancel_at"] = r["send_at"] + r["reply_delay"] + rng.uniform(0.5, 1.0)
    case = {"idx": idx, "reqs": reqs, "mode": "stream", "wrap": rng.random() < 0.25}
    if rng.random() < 0.45:
        kind = rng.choice(FAULT_KINDS)
        pos = rng.randrange(n)
        f = {"kind": kind, "pos": pos}
        if kind == "corr_random":
            f["value"] = rng.randrange(2**31)
        if kind == "truncated_body":
            f["keep"] = rng.randrange(0, 4) if rng.random() < 0.4 else rng.randrange(0, 64)    # taken modulo the body length
        if kind == "bad_size":
            f["value"] = rng.choice([-1, -2**31, 2**31 - 1, 2**30])
        if kind in ("eof_at", "reset_at"):
            f["keep"] = rng.randrange(0, 64)
            if kind == "eof_at" and pos >= 1 and rng.random() < 0.4:
                f["keep"], f["glue"] = 0, True      # EOF on the frame boundary, glued to the previous reply's bytes
        case["fault"] = f
    if rng.random() < 0.15:
        # chunk-split mode: all replies in one stream cut at seeded positions
        case["mode"] = "bulk"
        for r in reqs:
            r["send_at"] = 0.0
            r["mode"] = "normal"
            r["reply_delay"] = 0.01
            r.pop("cancel_at", None)
        case["bulk_cuts"] = sorted(rng.sample(range(1, 40), rng.randint(1, 3)))
    else:
        for r in reqs:
            if rng.random() < 0.5:
                r["cuts"] = sorted(rng.sample(range(1, 24), rng.randint(1, 3)))
    return case


def enum_split_cases(kinds, fault=None):
    """every 1- and 2-cut split of the bulk reply stream of a small pipelined case."""
    base = {"idx": 0, "mode": "bulk", "wrap": False,
            "reqs": [{"kind": k, "marker": 500 + i, "send_at": 0.0, "mode": "normal", "reply_delay": 0.01,
                      "cuts": None} for i, k in enumerate(kinds)]}
    if fault:
        base["fault"] = fault
    total = sum(4 + len(response_header(k, 1)) + len(response_body(k, 1)) for k in kinds)
    for a in range(1, total):
        c = dict(base, bulk_cuts=[a])
        yield c
    for a in range(1, total, 2):
        for b in range(a + 1, total, 3):
            yield dict(base, bulk_cuts=[a, b])


# ---- run one case -------------------------------------------------------------------------------
def run_case(case, seed):
    from aiokafka import errors as Errors
    from aiokafka.conn import create_conn
    from vf.simloop import SimNet, run_sim

    log = []
    peer = Peer(case, log)
    net = SimNet(seed=seed, lat=(0.0002, 0.003), fragment=False)
    net.listen("peer", 9092, peer)
    obs = {"waiters": [], "arrivals": [], "on_close": [], "errors": []}

    async def main(loop):
        def on_close(conn, reason):
            obs["on_close"].append((loop.time(), str(reason)))

        conn = await create_conn("peer", 9092, request_timeout_ms=int(T_REQ * 1000), on_close=on_close)
        conn._versions = {api: (v, v) for api, v in VERSIONS.values()}
        if case.get("wrap"):
            conn._correlation_id = 2**31 - 3
        # observe complete-delivery times at the transport boundary
        tr = conn._writer.transport
        orig = tr._deliver
        total = {"n": 0}

        def deliver(kind, data):
            if kind == "data":
                total["n"] += len(data)
            obs["arrivals"].append((loop.time(), kind, total["n"]))
            return orig(kind, data)

        tr._deliver = deliver
        t0 = loop.time()
        obs["t0"] = t0
        seq = {"n": 0}

        async def waiter(i, r):
            await asyncio.sleep(r["send_at"])
            w = {"i": i, "kind": r["kind"], "t_send": loop.time() - t0}
            obs["waiters"].append(w)
            try:
                # pin the version for this request (version table is per api key)
                api, v = VERSIONS[r["kind"]]
                conn._versions[api] = (v, v)
                aw = conn.send(make_request(r["kind"]))
            except Exception as e:  # send() raised synchronously
                w.update(outcome="send_raised", exc=type(e).__name__, is_kafka=isinstance(e, Errors.KafkaError),
                         t_done=loop.time() - t0)
                return
            w["qpos"] = seq["n"]
            seq["n"] += 1
            peer.qorder.append(i)
            try:
                resp = await aw
                w.update(outcome="result", marker=marker_of(r["kind"], resp), rtype=type(resp).__name__)
            except asyncio.CancelledError:
                w.update(outcome="cancelled")
            except asyncio.TimeoutError:
                w.update(outcome="timeout")
            except Exception as e:
                w.update(outcome="error", exc=type(e).__name__, is_kafka=isinstance(e, Errors.KafkaError),
                         is_conn=isinstance(e, (Errors.KafkaConnectionError, Errors.CorrelationIdError)))
            w["t_done"] = loop.time() - t0
            w["order"] = len([x for x in obs["waiters"] if "t_done" in x])

        tasks = []
        for i, r in enumerate(case["reqs"]):
            t = asyncio.ensure_future(waiter(i, r))
            tasks.append(t)
            if "cancel_at" in r:
                loop.call_at(loop.time() + r["cancel_at"], t.cancel)
        horizon = max(r["send_at"] for r in case["reqs"]) + 2 * T_REQ + 3
        await asyncio.sleep(horizon)
        obs["pending"] = [i for i, t in enumerate(tasks) if not t.done()]
        obs["connected"] = conn.connected()
        obs["transport_closing"] = tr.is_closing() or tr.lost
        for t in tasks:
            t.cancel()
        conn.close()
        await asyncio.sleep(0.1)

    try:
        run_sim(main, seed=seed, net=net, max_virtual_s=600, max_events=200000)
    except Exception as e:  # harness-level failure: inconclusive, not a verdict
        obs["errors"].append(f"{type(e).__name__}: {e}")
    obs["peer_seen"] = peer.seen
    obs["frame_ends"] = getattr(peer, "frame_ends", None)
    return obs


# ---- a transport whose write() raises ------------------------------------------------------------
def run_write_failure(seed, n, answered, kinds):
    """n pipelined requests, the peer answers the first `answered` and then stays silent (no EOF, no reset); the next
    send() finds that writer.write() raises BrokenPipeError - the only sign of the broken connection this client ever
    gets.  Stock asyncio transports report a dead peer through connection_lost()/EOF (covered at every byte by the cases
    above); transports that raise from write() exist (the library has a branch for them), so the harness arms one.
    Expected (property): that send() raises a connection error, every outstanding waiter fails with a connection error at
    that very moment - not when its request timeout expires - on_close is called once, the transport is closed."""
    from aiokafka import errors as Errors
    from aiokafka.conn import create_conn
    from vf.simloop import SimNet, run_sim
    log = []
    case = {"idx": -1, "mode": "normal", "fault": None,
            "reqs": [{"kind": k, "marker": 700 + i, "send_at": 0.0, "mode": "normal", "cuts": None,
                      "reply_delay": (0.01 if i < answered else None)} for i, k in enumerate(kinds[:n])]}
    peer = Peer(case, log)
    net = SimNet(seed=seed, lat=(0.0002, 0.003), fragment=False)
    net.listen("peer", 9092, peer)
    obs = {"waiters": [], "on_close": [], "errors": []}

    async def main(loop):
        def on_close(conn, reason):
            obs["on_close"].append((loop.time(), str(reason)))
        conn = await create_conn("peer", 9092, request_timeout_ms=int(T_REQ * 1000), on_close=on_close)
        conn._versions = {api: (v, v) for api, v in VERSIONS.values()}
        tr = conn._writer.transport
        t0 = loop.time()

        async def waiter(i, kind):
            w = {"i": i, "kind": kind}
            obs["waiters"].append(w)
            api, v = VERSIONS[kind]
            conn._versions[api] = (v, v)
            try:
                aw = conn.send(make_request(kind))
            except Exception as e:  # noqa: BLE001
                w.update(outcome="send_raised", exc=type(e).__name__, is_conn=isinstance(e, Errors.KafkaConnectionError),
                         t_done=loop.time() - t0)
                return
            peer.qorder.append(i)
            try:
                await aw
                w.update(outcome="result")
            except asyncio.TimeoutError:
                w.update(outcome="timeout")
            except Exception as e:  # noqa: BLE001
                w.update(outcome="error", exc=type(e).__name__, is_conn=isinstance(e, Errors.KafkaConnectionError))
            w["t_done"] = loop.time() - t0
        tasks = [asyncio.ensure_future(waiter(i, k)) for i, k in enumerate(kinds[:n])]
        await asyncio.sleep(0.5)

        def broken_write(data):
            raise BrokenPipeError("simulated: write on a broken connection")
        tr.write = broken_write
        obs["t_break"] = loop.time() - t0
        tasks.append(asyncio.ensure_future(waiter(n, kinds[n % len(kinds)])))
        await asyncio.sleep(2 * T_REQ + 1)
        obs["pending"] = [i for i, t in enumerate(tasks) if not t.done()]
        obs["connected"] = conn.connected()
        obs["transport_closing"] = tr.is_closing() or tr.lost
        for t in tasks:
            t.cancel()
        conn.close()
        await asyncio.sleep(0.1)
    try:
        run_sim(main, seed=seed, net=net, max_virtual_s=600, max_events=100000)
    except Exception as e:  # noqa: BLE001
        obs["errors"].append(f"{type(e).__name__}: {e}")
    V = []
    if obs["errors"]:
        return None, obs
    tb = obs["t_break"]
    wit = {"n": n, "answered": answered, "kinds": kinds[:n + 1], "seed": seed, "waiters": obs["waiters"], "on_close": obs["on_close"]}
    last = obs["waiters"][-1]
    if not (last.get("outcome") == "send_raised" and last.get("is_conn")):
        V.append(("send_on_broken_transport_does_not_raise_connection_error",
                  f"send() whose writer.write() raised BrokenPipeError ended as {last.get('outcome')}/{last.get('exc')}", wit))
    for w in obs["waiters"][answered:n]:
        if w.get("outcome") != "error" or not w.get("is_conn") or w.get("t_done", 1e9) > tb + 0.05:
            V.append(("waiter_not_failed_when_write_on_the_connection_failed",
                      f"request {w['i']} was outstanding when a write on its connection raised BrokenPipeError at t={tb:.2f}; it "
                      f"ended as {w.get('outcome')}/{w.get('exc')} at t={w.get('t_done')}", wit))
            break
    if obs["connected"]:
        V.append(("connection_reports_connected_after_write_failure", "connected() is True after writer.write() raised", wit))
    if not obs["transport_closing"]:
        V.append(("transport_open_after_write_failure", "transport not closed after writer.write() raised", wit))
    if len(obs["on_close"]) != 1:
        V.append((f"on_close_called_{len(obs['on_close'])}_times_after_write_failure", "on_close callback count", wit))
    return V, obs


# ---- oracle -------------------------------------------------------------------------------------
def frame_len(kind):
    return 4 + len(response_header(kind, 1)) + len(response_body(kind, 1))


def judge(case, obs):
    """returns (violations, stats)"""
    V = []
    stats = {"waiters_checked": 0, "results_matched": 0, "fatal_faults_injected": 0, "waiters_failed_by_fault": 0,
             "timeouts_observed": 0, "cancels_observed": 0, "send_raised_after_close": 0}
    if obs["errors"]:
        stats["_why"] = "harness error"
        return None, stats
    reqs = case["reqs"]
    f = case.get("fault")
    # queue position -> waiter (requests that were appended to the connection's queue, in order)
    ws = sorted([w for w in obs["waiters"] if "qpos" in w], key=lambda w: w["qpos"])
    for p, w in enumerate(ws):
        if w["qpos"] != p:
            stats["_why"] = "qpos"
            return None, stats
    # delivery times observed at the transport
    t0 = obs["t0"]

    def time_of_bytes(nbytes):
        for (t, kind, tot) in obs["arrivals"]:
            if kind == "data" and tot >= nbytes:
                return t - t0
        return None

    def time_of_kind(kind):
        for (t, k, tot) in obs["arrivals"]:
            if k == kind:
                return t - t0
        return None

    # cumulative stream layout as the peer produced it: frame k complete at byte offset E[k]
    E = []
    off = 0
    fatal_at = None       # stream byte count at which the client has everything needed to detect the fault
    fatal_kind = None
    n_answered = 0
    for p, w in enumerate(ws):
        r = reqs[w["i"]]
        if case["mode"] != "bulk" and r["reply_delay"] is None:
            break   # peer stops answering here (FIFO: nothing later is answered either)
        if p >= len(obs["peer_seen"]):
            break
        if f and f["pos"] == p and f["kind"] != "unsolicited":
            k = f["kind"]
            if k in ("eof_at", "reset_at"):
                keep = f["keep"] % frame_len(r["kind"])
                off += keep
                fatal_at, fatal_kind = ("kind", "eof" if k == "eof_at" else "reset"), k
            elif k == "bad_size":
                off += 6
                fatal_at, fatal_kind = ("bytes", off - 2), k   # the 4 size bytes suffice for a negative size
                if f["value"] > 0:
                    fatal_at = ("kind", "eof")
            elif k == "truncated_body":
                off += 4 + len(response_header(r["kind"], 1)) + (f["keep"] % len(response_body(r["kind"], 1)))
                t_arr = time_of_bytes(off)
                abandoned_at = min(w["t_send"] + T_REQ, r.get("cancel_at", float("inf")))
                if t_arr is not None and abandoned_at < t_arr:
                    # the body of a reply nobody waits for any more is never decoded: the library drops the
                    # frame (correlation id still checked). Not a malformed frame any waiter could observe.
                    E.append(off)
                    n_answered += 1
                    stats["truncated_reply_to_abandoned_request"] = 1
                    continue
                fatal_at, fatal_kind = ("bytes", off), k
            else:
                off += frame_len(r["kind"])
                fatal_at, fatal_kind = ("bytes", off), k
            fatal_pos = p
            break
        off += frame_len(r["kind"])
        E.append(off)
        n_answered += 1
        if f and f["kind"] == "unsolicited" and f["pos"] == p:
            # an extra frame follows reply p: fatal only if no request is outstanding when it is complete,
            # otherwise it is taken for request p+1's reply -> correlation mismatch. Fatal either way.
            off += frame_len("metadata1")
            fatal_at, fatal_kind = ("bytes", off), "unsolicited"
            fatal_pos = p + 1
            break
    t_fatal = None
    if fatal_at is not None:
        t_fatal = time_of_bytes(fatal_at[1]) if fatal_at[0] == "bytes" else time_of_kind(fatal_at[1])
        if t_fatal is None:
            # fault bytes never reached the client (e.g. client was already closed): undecidable case
            stats["_why"] = "fault bytes never arrived"
            return None, stats
        stats["fatal_faults_injected"] += 1
    quirk = False
    if (fatal_kind in ("corr_zero", "corr_plus1", "corr_minus1", "corr_dup", "corr_random")
            and reqs[ws[fatal_pos]["i"]]["kind"] == "findco0"
            and bad_corr(f, obs["peer_seen"][fatal_pos][2],
                         obs["peer_seen"][fatal_pos - 1][2] if fatal_pos > 0 else None) == 0):
        # own scenario class: the library deliberately accepts correlation id 0 for FindCoordinator v0
        closed_then = any(abs(t - t0 - t_fatal) < 1e-6 for t, _ in obs["on_close"])
        if not closed_then:
            stats["waiters_checked"] += 1
            return [("findcoordinator_v0_accepts_correlation_id_0",
                     "a FindCoordinator v0 request in flight: a reply whose correlation id is 0 instead of the one "
                     "sent is accepted and the connection stays open (deliberate 'Kafka 0.8.2 quirk' in "
                     "conn._handle_frame)", {"waiters": ws, "t_fatal": t_fatal})], stats
    for p, w in enumerate(ws):
        r = reqs[w["i"]]
        deadline = w["t_send"] + T_REQ
        cancel = r.get("cancel_at")
        # decisive network time for this waiter
        t_net, net_outcome = None, None
        if p < len(E):
            t_net, net_outcome = time_of_bytes(E[p]), "result"
            if t_net is None:
                stats["_why"] = f"frame {p} never arrived"
                return None, stats
        if t_fatal is not None and t_net is None:
            t_net, net_outcome = t_fatal, "kafka_error"
        if t_fatal is not None and w["t_send"] > t_fatal:
            exp = "kafka_error"
        else:
            cands = [(deadline, "timeout")]
            if cancel is not None:
                cands.append((cancel, "cancelled"))
            if t_net is not None:
                cands.append((t_net, net_outcome))
            cands.sort()
            if len(cands) > 1 and abs(cands[0][0] - cands[1][0]) < 1e-9:
                stats["_why"] = "tie"
                return None, stats  # tie: undecidable
            exp = cands[0][1]
        got = w.get("outcome", "pending")
        stats["waiters_checked"] += 1
        if got == "timeout":
            stats["timeouts_observed"] += 1
        if got == "cancelled":
            stats["cancels_observed"] += 1
        wit = {"waiter": w, "expected": exp, "request": r, "t_fatal": t_fatal, "fatal_kind": fatal_kind}
        if exp == "result":
            if got != "result":
                V.append(("expected_result_got_" + got + ("_" + w.get("exc", "") if got == "error" else ""),
                          f"waiter {p} ({r['kind']}) should have received its response but ended {got} {w.get('exc','')}", wit))
            else:
                if w["marker"] != (r["marker"] % 30000 if r["kind"] == "heartbeat0" else r["marker"]):
                    V.append(("foreign_result", f"waiter {p} received a response generated for another request "
                              f"(marker {w['marker']} != {r['marker']})", wit))
                else:
                    stats["results_matched"] += 1
                if abs(w["t_done"] - t_net) > 1e-6:
                    V.append(("result_not_delivered_when_complete", f"waiter {p} resolved at {w['t_done']} but its "
                              f"frame was complete at {t_net}", wit))
        elif exp == "kafka_error":
            ok = (got == "error" and w.get("is_conn")) or (got == "send_raised" and w.get("is_kafka"))
            if got == "result" and fatal_kind == "corr_zero" and r["kind"] == "findco0" and p == fatal_pos:
                quirk = True
                V.append(("findcoordinator_v0_accepts_correlation_id_0",
                          "a FindCoordinator v0 waiter accepted a reply whose correlation id (0) is not the one sent", wit))
            elif not ok:
                V.append((f"waiter_not_failed_with_connection_error_after_{fatal_kind}:got_{got}"
                          + ("_" + w.get("exc", "") if got in ("error", "send_raised") else ""),
                          f"after fatal fault {fatal_kind} waiter {p} ended {got} {w.get('exc','')} instead of a connection error", wit))
            else:
                stats["waiters_failed_by_fault"] += 1
                if got == "send_raised":
                    stats["send_raised_after_close"] += 1
                elif w["t_send"] <= t_fatal and abs(w["t_done"] - t_fatal) > 1e-6:
                    V.append(("waiter_failed_late_after_fault", f"waiter {p} failed at {w['t_done']}, fault was "
                              f"observable at {t_fatal}", wit))
        elif exp == "timeout":
            if got != "timeout":
                V.append(("expected_timeout_got_" + got, f"waiter {p} should have timed out, ended {got}", wit))
        elif exp == "cancelled":
            if got != "cancelled":
                V.append(("expected_cancelled_got_" + got, f"waiter {p} was cancelled before its reply, ended {got}", wit))
    # result completion order follows request order
    res = [w for w in ws if w.get("outcome") == "result"]
    if [w["qpos"] for w in sorted(res, key=lambda w: (w["t_done"], w["order"]))] != [w["qpos"] for w in res]:
        V.append(("results_out_of_request_order", "results resolved out of request order", {"waiters": ws}))
    if obs["pending"]:
        V.append(("waiter_left_pending", f"waiters {obs['pending']} still pending long after every deadline",
                  {"pending": obs["pending"]}))
    if t_fatal is not None and not quirk:
        if obs["connected"]:
            V.append((f"connection_reports_connected_after_{fatal_kind}", "connected() is True after a fatal fault", {}))
        if not obs["transport_closing"]:
            V.append((f"transport_open_after_{fatal_kind}", "transport not closed after a fatal fault", {}))
        if len(obs["on_close"]) != 1:
            V.append((f"on_close_called_{len(obs['on_close'])}_times_after_{fatal_kind}",
                      "on_close callback not invoked exactly once", {"on_close": obs["on_close"]}))
        elif abs(obs["on_close"][0][0] - t0 - t_fatal) > 1e-6:
            V.append(("connection_closed_late_after_fault", "close happened later than the fault became observable",
                      {"on_close": obs["on_close"], "t_fatal": t_fatal}))
    return V, stats


def case_signature(case):
    f = case.get("fault")
    return sig([[(r["kind"], r["mode"], len(r["cuts"] or [])) for r in case["reqs"]], case["mode"],
                (f["kind"], f["pos"]) if f else None, len(case.get("bulk_cuts", [])), case["wrap"]])


def nontrivial(case):
    if len(case["reqs"]) < 2:
        return False
    return bool(case.get("fault") or case.get("bulk_cuts") or any(r["mode"] != "normal" or r["cuts"] for r in case["reqs"]))


# ---- runner interface ---------------------------------------------------------------------------
def shards(tier, seed):
    n_shards = 16
    per = 320 if tier == "quick" else 12000
    out = [{"seed": seed * 1000 + s, "n": per, "kind": "random"} for s in range(n_shards)]
    combos = [["metadata5", "delrec2"], ["findco0", "listreass0"], ["heartbeat1", "metadata1"], ["delrec2", "findco1"]]
    faults = [None, {"kind": "corr_plus1", "pos": 1}, {"kind": "truncated_body", "pos": 0, "keep": 2}]
    if tier == "thorough":
        combos += [["metadata5", "delrec2", "heartbeat0"], ["listreass0", "listreass0"], ["findco0", "findco0"]]
        faults += [{"kind": "corr_dup", "pos": 1}, {"kind": "corr_zero", "pos": 0}, {"kind": "bad_size", "pos": 1, "value": -1}]
    for c in combos:
        for f in faults:
            out.append({"seed": seed, "kind": "splits", "kinds": c, "fault": f})
    return out


def run_shard(params):
    repoimport.use_repo()
    import logging
    logging.disable(logging.CRITICAL)
    res = {"evaluations": 0, "nontrivial": [], "violations": [], "inconclusive": [], "counters": {}, "sets": {},
           "samples": []}
    fault_kinds = set()
    undecided = 0

    def handle(case, seed):
        nonlocal undecided
        obs = run_case(case, seed)
        V, stats = judge(case, obs)
        res["evaluations"] += 1
        if V is None:
            undecided += 1
            if obs["errors"]:
                res["inconclusive"].append(f"harness error in case {case['idx']}: {obs['errors'][0]}")
            return
        for k, v in stats.items():
            res["counters"][k] = res["counters"].get(k, 0) + v
        if nontrivial(case):
            res["nontrivial"].append(case_signature(case))
        if case.get("fault"):
            fault_kinds.add(case["fault"]["kind"])
        for mech, what, wit in V:
            res["violations"].append({"mechanism": mech, "what": what,
                                      "witness": {"case": case, "seed": seed, "detail": wit}})
        if len(res["samples"]) < 2 and nontrivial(case):
            res["samples"].append({"case": case, "waiters": obs["waiters"]})

    if params["kind"] == "random":
        rng = random.Random(params["seed"])
        for i in range(params["n"]):
            case = gen_case(rng, i)
            handle(case, params["seed"] * 100003 + i)
        for i in range(max(4, params["n"] // 40)):
            n = rng.randint(1, 5)
            answered = rng.randint(0, n - 1)
            kinds = [rng.choice(KINDS) for _ in range(n + 1)]
            V, obs = run_write_failure(params["seed"] * 7919 + i, n, answered, kinds)
            res["evaluations"] += 1
            if V is None:
                res["inconclusive"].append(f"harness error in write-failure case: {obs['errors'][0]}")
                continue
            res["counters"]["write_failure_cases"] = res["counters"].get("write_failure_cases", 0) + 1
            res["counters"]["waiters_outstanding_at_write_failure"] = \
                res["counters"].get("waiters_outstanding_at_write_failure", 0) + (n - answered)
            for mech, what, wit in V:
                res["violations"].append({"mechanism": mech, "what": what, "witness": {"write_failure": wit}})
    else:
        for j, case in enumerate(enum_split_cases(params["kinds"], params.get("fault"))):
            case["idx"] = j
            handle(case, params["seed"] + j)
    res["counters"]["undecidable_cases_skipped"] = undecided
    res["sets"]["fault_kinds"] = sorted(fault_kinds)
    return res


def replay(witness):
    repoimport.use_repo()
    import logging
    logging.disable(logging.CRITICAL)
    if "write_failure" in witness:
        wf = witness["write_failure"]
        V, _obs = run_write_failure(wf["seed"], wf["n"], wf["answered"], wf["kinds"])
        return {"evaluations": 1, "violations": [{"mechanism": m, "what": w, "witness": {"write_failure": d}} for m, w, d in (V or [])]}
    case, seed = witness["case"], witness["seed"]
    obs = run_case(case, seed)
    V, stats = judge(case, obs)
    return {"evaluations": 1, "violations": [{"mechanism": m, "what": w, "witness": {"case": case, "seed": seed, "detail": d}}
                                              for m, w, d in (V or [])]}
