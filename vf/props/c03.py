"""C03 - consumer yields each visible record once, in offset order, from its position.

Per-partition cursor oracle (vf.consume_sim.judge_cursor) over every getone/getmany/position/seek/pause/resume
event of a real group-less AIOKafkaConsumer reading generated logs from the simulated cluster.
"""
from __future__ import annotations

import random

from vf import repoimport
from vf.runner import sig

PROPERTY_ID = "C03"
LEVEL = "exploration"
RULE = ("history = real AIOKafkaConsumer (manual assignment) over 1-3 generated partition logs (v0/v1/v2 and mixed, "
        "compressed wrappers, compaction gaps incl. removed last record, empty and control batches, transactional "
        "batches), partly loaded up front and partly appended while consuming; 1-3 tasks issuing seeded mixes of "
        "getone/getmany(max_records, partitions)/seek/pause/resume/position; 3 brokers with leader moves, retriable "
        "fetch errors, resets, lost replies, delays; responses cut at every batch boundary or by small "
        "max_partition_fetch_bytes, optional trailing partial batch; fetch v1..v11; compiled and pure-Python codec; in half "
        "of the histories the replies of all brokers reach the client on a common 10/50 ms lattice (several fetch tasks "
        "finish in one pass of the fetch routine) and a third drain through single getone() calls allowed to block for "
        "3 request timeouts (a lost wake-up is not repaired by calling again). "
        "Non-trivial = at least one seek or pause issued by a worker task within 0.6 virtual s of a fetch reply for "
        "that partition. Distinct = signature over (log shape parameters, op kinds sequence, fault kinds hit).")
ASSUMPTIONS = [
    "visible record = data record of a non-control batch below the bound (HW, or LSO at read_committed) that is not "
    "part of an aborted transaction at read_committed; ground truth read from the simulator's log with the reference codec",
    "N2: a fetch is served from the batch containing the fetch offset (the first batch may start before it)",
    "a response holding only a partial batch (RecordTooLarge path of old brokers) is not generated",
    "seek targets stay within [0, log end] (out-of-range resets belong to C13)",
]
REQUIRED_COUNTERS = ["histories_judged", "records_checked", "seeks", "records_after_seek_checked", "positions_checked",
                     "pause_windows", "getmany_subset_calls", "drained_partitions", "seek_with_fetch_in_flight",
                     "histories_pure_python_codec", "histories_compiled_codec", "mixed_magic_histories",
                     "patient_drain_histories", "patient_getone_records", "reply_lattice_histories",
                     "coincident_data_and_empty_fetch_replies"]


def prepare(tier, seed, scratch):
    from vf.simharness import prepare_codec
    return prepare_codec(scratch)


def shards(tier, seed):
    n = 16
    per = 30 if tier == "quick" else 500
    return [{"seed": seed * 6151 + s + 3, "n": per, "pure_python": (s % 4 == 3), "timeout_s": 3000} for s in range(n)]


def run_shard(params):
    from vf.simharness import quiet_logging, setup_codec
    codec = setup_codec(params, params.get("pure_python"))
    repoimport.use_repo()
    from vf import consume_sim
    quiet_logging()
    res = {"evaluations": 0, "nontrivial": [], "violations": [], "inconclusive": [], "counters": {}, "sets": {},
           "samples": []}
    if params.get("ext_build_error") and not params.get("pure_python"):
        res["inconclusive"].append("extension build failed: " + params["ext_build_error"])
    rng = random.Random(params["seed"])
    hits, shapes = set(), set()
    for i in range(params["n"]):
        P = consume_sim.gen_params(rng, i, params.get("tier", "quick"))
        if params.get("force"):
            P.update(params["force"])
        H = consume_sim.run_history(P)
        res["evaluations"] += 1
        if H["errors"] or H["sim_errors"]:
            res["inconclusive"].append(f"history seed={P['seed']}: {H['errors'][:1]} {str(H['sim_errors'][:1])[:300]}")
            continue
        V, st = consume_sim.judge_cursor(H)
        st.pop("_cursors", None)
        st["histories_judged"] = 1
        st["histories_pure_python_codec"] = 1 if params.get("pure_python") else 0
        st["histories_compiled_codec"] = 0 if params.get("pure_python") else 1
        st["mixed_magic_histories"] = 1 if len(P["magics"]) > 1 else 0
        for k, v in st.items():
            res["counters"][k] = res["counters"].get(k, 0) + v
        hits.update(H["fault_hits"])
        shapes.add(f"magics={P['magics']} txn={P['txn']} iso={P['isolation']} fetch_v{P['fetch_max_version']}")
        for e in H["events"]:
            if e["op"] == "exception":
                V.append((f"api_call_raised_{e['exc']}", f"{e['during']} raised {e['exc']}: {e['msg']}", {"event": e}))
        if st["seek_with_fetch_in_flight"] or st["pause_windows"]:
            res["nontrivial"].append(sig([P["magics"], P["txn"], P["compaction"], P["fetch_one_batch"], P["n_parts"],
                                          [e["op"] for e in H["events"] if e["task"] >= 0][:40], sorted(H["fault_hits"])]))
        seen = set()
        for mech, what, detail in V:
            if mech in seen:
                continue
            seen.add(mech)
            res["violations"].append({"mechanism": mech, "what": what + f" [codec: {codec}]",
                                      "witness": {"params": P, "pure_python": bool(params.get("pure_python")), "detail": detail}})
        if not res["samples"] and st["seeks"] > 2:
            res["samples"].append({"params": P, "events": [
                {k: (v if k != "recs" else [(r["p"], r["o"]) for r in v]) for k, v in e.items()} for e in H["events"][:25]]})
    res["sets"]["fault_kinds_hit"] = sorted(hits)
    res["sets"]["log_shapes"] = sorted(shapes)[:60]
    res["sets"]["codec"] = [codec]
    return res


def replay(witness):
    from vf.simharness import quiet_logging, setup_codec
    setup_codec({}, witness.get("pure_python"))
    repoimport.use_repo()
    from vf import consume_sim
    quiet_logging()
    H = consume_sim.run_history(witness["params"])
    V, st = consume_sim.judge_cursor(H)
    return {"evaluations": 1, "violations": [{"mechanism": m, "what": w, "witness": {"params": witness["params"], "detail": d}}
                                              for m, w, d in V]}
