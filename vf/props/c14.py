"""C14 -- assignors give each subscribed partition exactly one subscribed owner, balanced.

Monitor: icontract `ensure` postconditions applied from here (no repository change) to the three
real `assign()` functions.  The condition functions never fail the call: they hand (input, result)
to the JUDGE, which evaluates the predicates of vf.refmodels_direct (the property statement written
as loops) and records what it saw.  Every evaluation is counted; a run in which a contract was never
evaluated is inconclusive (REQUIRED_COUNTERS).

The cluster is the real `aiokafka.cluster.ClusterMetadata`, filled through its real
`update_metadata()`; a topic "without metadata" is simply absent from the metadata response, so
`partitions_for_topic()` returns None and `topics()` omits it, exactly as in production.
"""
from __future__ import annotations

import itertools
import json
import random
import time
import types

from vf import refmodels_direct as ref
from vf.repoimport import use_repo
from vf.runner import sig

PROPERTY_ID = "C14"
LEVEL = "exploration"

MAX_M, MAX_T, MAX_P = 4, 3, 4          # the bounded space of the quantifier
QUICK_M, QUICK_T = 3, 2                # quick tier: exhaustive sub-space
N_STRIPES = {"quick": 4, "thorough": 32}
N_RANDOM_SHARDS = {"quick": 12, "thorough": 32}
RANDOM_PER_SHARD = {"quick": 1500, "thorough": 12000}   # quick: 12*1500 = 18000 random chains

RULE = (
    "Exhaustive part: every input of the bounded space {1..M members m0..} x {1..T topics t0..} x "
    "{each topic: no metadata | 0..4 partitions} x {every non-empty subscription per member} "
    "(thorough M=4,T=3: 609,144 inputs = 24 + 4,320 + 604,800 for 1,2,3 topics; quick M=3,T=2: 1,422), "
    "enumerated in a fixed order and striped over shards; on each input the contracts of range, "
    "roundrobin, sticky (no user data) are evaluated, plus sticky a second time on the same input "
    "with the members' previous assignment carried through the real on_assignment()/metadata() user "
    "data encoding.  Random part: inputs with up to 12 members, 8 topics, 12 partitions (topics "
    "without metadata, empty topics, identical / independent / nested subscriptions, shuffled "
    "subscription order, varied names), sticky run as a chain of 1-4 rounds with member, "
    "subscription and partition changes between rounds (returning members carry stale user data; a "
    "few rounds get garbage or conflicting user data).  All randomness from random.Random(seed, shard). "
    "An input is non-trivial when it has >= 2 members and >= 2 partitions that must be assigned; "
    "distinct = distinct enumeration index (exhaustive) or distinct sha1 of the canonical "
    "(layout, subscriptions, user data) of a judged round (random)."
)
ASSUMPTIONS = [
    "A group has at least one member and every member subscribes to at least one topic (the quantifier's "
    "'every non-empty subscription'); assign() with an empty member map is not judged.",
    "The result is judged as returned by assign() (member -> ConsumerProtocolMemberAssignment.assignment); "
    "a member missing from the result counts as holding nothing.",
    "Set iteration order inside the library (cluster.topics()) is fixed by PYTHONHASHSEED=0, as in every "
    "registered command; topic/member names are varied in the random part instead.",
    "Conflicting / unparsable user data in the random part is judged only for validity and KIP-54 balance, "
    "which the statement demands for every input.",
]
REQUIRED_COUNTERS = [
    "contract_evals_range", "contract_evals_roundrobin",
    "contract_evals_sticky_fresh", "contract_evals_sticky_userdata",
]

MEMBER_NAMES = ["m0", "m1", "m2", "m3"]
TOPIC_NAMES = ["t0", "t1", "t2"]
PART_STATES = [None, 0, 1, 2, 3, 4]


# ------------------------------------------------------------------------------------------
# the bounded space
# ------------------------------------------------------------------------------------------

def space_size(max_m: int, max_t: int) -> int:
    return sum(len(PART_STATES) ** t * sum((2 ** t - 1) ** m for m in range(1, max_m + 1))
               for t in range(1, max_t + 1))


def nonempty_subsets(topics):
    out = []
    for r in range(1, len(topics) + 1):
        out.extend(itertools.combinations(topics, r))
    return out


def exhaustive_inputs(max_m: int, max_t: int):
    """Yields (index, layout, subs) in a fixed order, smallest inputs first."""
    idx = 0
    for t in range(1, max_t + 1):
        topics = TOPIC_NAMES[:t]
        subsets = nonempty_subsets(topics)
        for states in itertools.product(PART_STATES, repeat=t):
            layout = {tp: (None if s is None else tuple(range(s))) for tp, s in zip(topics, states)}
            for m in range(1, max_m + 1):
                names = MEMBER_NAMES[:m]
                for combo in itertools.product(subsets, repeat=m):
                    yield idx, layout, dict(zip(names, combo))
                    idx += 1


# ------------------------------------------------------------------------------------------
# harness around the real library objects (shared with C15)
# ------------------------------------------------------------------------------------------

class Lib:
    """Everything imported from the checkout under test, loaded once per worker."""

    _inst = None

    def __init__(self):
        self.root = use_repo()
        import logging
        logging.getLogger("aiokafka").setLevel(logging.CRITICAL + 1)  # assignors warn per topic without metadata
        import icontract
        from aiokafka.cluster import ClusterMetadata
        from aiokafka.coordinator.assignors.range import RangePartitionAssignor
        from aiokafka.coordinator.assignors.roundrobin import RoundRobinPartitionAssignor
        from aiokafka.coordinator.assignors.sticky.sticky_assignor import StickyPartitionAssignor
        from aiokafka.coordinator.protocol import (
            ConsumerProtocolMemberAssignment,
            ConsumerProtocolMemberMetadata,
        )
        self.icontract = icontract
        self.ClusterMetadata = ClusterMetadata
        self.Range = RangePartitionAssignor
        self.RoundRobin = RoundRobinPartitionAssignor
        self.Sticky = StickyPartitionAssignor
        self.MemberMetadata = ConsumerProtocolMemberMetadata
        self.MemberAssignment = ConsumerProtocolMemberAssignment
        from aiokafka.structs import TopicPartition
        self.TopicPartition = TopicPartition
        self._clusters = {}
        self._member_classes = {}
        # termination monitor on the executor's balancing loops (vf/stickyguard.py)
        from aiokafka.coordinator.assignors.sticky import sticky_assignor as _sa
        from vf import stickyguard
        stickyguard.install(_sa)
        self.stickyguard = stickyguard

    @classmethod
    def get(cls):
        if cls._inst is None:
            cls._inst = cls()
        return cls._inst

    def cluster(self, layout):
        """Real ClusterMetadata for {topic: iterable[int] | None}; partitions are reported to
        update_metadata() in descending order so that nothing depends on response order."""
        key = tuple(sorted((t, None if p is None else tuple(sorted(p))) for t, p in layout.items()))
        c = self._clusters.get(key)
        if c is None:
            c = self.ClusterMetadata()
            resp = types.SimpleNamespace(
                API_VERSION=1, brokers=[(0, "broker0", 9092, None)], controller_id=0,
                topics=[(0, t, False, [(0, p, 0, [0], [0]) for p in sorted(parts, reverse=True)])
                        for t, parts in key if parts is not None],
            )
            c.update_metadata(resp)
            if len(self._clusters) > 4096:
                self._clusters.clear()
            self._clusters[key] = c
        return c

    def sticky_member(self, name):
        """One StickyPartitionAssignor subclass per group member: member_assignment / generation are
        CLASS attributes in the library, so each simulated member needs its own class."""
        k = self._member_classes.get(name)
        if k is None:
            k = type("StickyMember_" + "".join(ch if ch.isalnum() else "_" for ch in name), (self.Sticky,), {})
            self._member_classes[name] = k
        return k

    def reset_sticky_members(self):
        for k in self._member_classes.values():
            k.member_assignment = None
            k.generation = self.Sticky.DEFAULT_GENERATION_ID
        self.Sticky.member_assignment = None
        self.Sticky.generation = self.Sticky.DEFAULT_GENERATION_ID

    def wire(self, md):
        """JoinGroup carries the metadata as bytes; the leader decodes them."""
        return self.MemberMetadata.decode(md.encode())


def flatten(result):
    """member -> [(topic, partition)] straight from the returned structs (duplicates preserved)."""
    out = {}
    for member, a in result.items():
        tps = []
        for topic, parts in a.assignment:
            for p in parts:
                tps.append((topic, p))
        out[member] = tps
    return out


def jsonable_layout(layout):
    return {t: (None if p is None else sorted(p)) for t, p in sorted(layout.items())}


def jsonable_subs(subs):
    return {m: list(v) for m, v in sorted(subs.items())}


def jsonable_assignment(a):
    return {m: [list(tp) for tp in sorted(v)] for m, v in sorted(a.items())}


# ------------------------------------------------------------------------------------------
# the judge + the contracts
# ------------------------------------------------------------------------------------------

def stale_unsubscribed_claims(layout, subs, witness, flat=None):
    """Narrow classifier for one specific defect: member a reports (user data) a partition p of a
    topic it no longer subscribes to, while another member reports p with a higher generation.
    With `flat`: True when some such p ended up with a.  Without: the list of (a, p)."""
    claims = witness.get("user_data_claims") or {}
    found = []
    for a, c in claims.items():
        if not isinstance(c, dict) or a not in subs:
            continue
        for t, p in c["partitions"]:
            if t in subs[a] or layout.get(t) is None or p not in layout[t]:
                continue
            for b, d in claims.items():
                if b != a and isinstance(d, dict) and d["generation"] > c["generation"] and [t, p] in d["partitions"]:
                    found.append((a, (t, p)))
    if flat is None:
        return found
    return any(tp in flat.get(a, ()) for a, tp in found)


class ContractNeverFails(Exception):
    """error= of the recording contracts; conditions return True, so this is never raised."""


class Judge:
    def __init__(self):
        self.counters = {}
        self.violations = []
        self.ctx = None
        self.last_problems = []

    def count(self, name, n=1):
        self.counters[name] = self.counters.get(name, 0) + n

    def begin(self, label, layout, subs, witness):
        self.ctx = {"label": label, "layout": layout, "subs": subs, "witness": witness}
        self.last_problems = []

    def _record(self, assignor, problems, flat):
        ctx = self.ctx
        for kind, detail in problems:
            if kind.startswith(("range_", "roundrobin_", "sticky_")):
                mech = kind
            else:
                mech = f"{assignor}_{kind}"
            if mech == "sticky_owner_not_subscribed" and stale_unsubscribed_claims(ctx["layout"], ctx["subs"], ctx["witness"], flat):
                mech = "sticky_unsubscribed_previous_owner_gets_partition"
            if mech == "sticky_kip54_imbalance" and stale_unsubscribed_claims(ctx["layout"], ctx["subs"], ctx["witness"]):
                mech = "sticky_kip54_imbalance_with_unsubscribed_previous_owner"
            self.last_problems.append(mech)
            w = dict(ctx["witness"])
            w.setdefault("layout", jsonable_layout(ctx["layout"]))
            w.setdefault("subscriptions", jsonable_subs(ctx["subs"]))
            w["assignor"] = ctx["label"]
            w["result"] = jsonable_assignment(flat)
            self.violations.append({"mechanism": mech, "what": f"{ctx['label']}: {detail}", "witness": w})

    def judge(self, assignor, which, members, result):
        ctx = self.ctx
        if set(members) != set(ctx["subs"]):
            raise RuntimeError("harness: contract evaluated outside its case")
        flat = flatten(result)
        if which == "validity":
            probs = ref.check_validity(ctx["layout"], ctx["subs"], flat)
        elif which == "range_balance":
            probs = ref.check_range_within_one_per_topic(ctx["layout"], ctx["subs"], flat)
        elif which == "roundrobin_balance":
            probs = ref.check_roundrobin_within_one(ctx["layout"], ctx["subs"], flat)
        elif which == "sticky_balance":
            probs = ref.check_kip54_balance(ctx["layout"], ctx["subs"], flat)
        else:
            raise ValueError(which)
        self.count(f"contract_evals_{ctx['label']}")
        self.count(f"predicate_{which}")
        if probs:
            self._record(assignor, probs[:3], flat)
        return True


JUDGE = Judge()


# named condition functions (icontract resolves their arguments by name from assign()'s signature)
def range_each_subscribed_partition_has_exactly_one_subscribed_owner(members, result):
    return JUDGE.judge("range", "validity", members, result)


def range_loads_within_one_per_topic(members, result):
    return JUDGE.judge("range", "range_balance", members, result)


def roundrobin_each_subscribed_partition_has_exactly_one_subscribed_owner(members, result):
    return JUDGE.judge("roundrobin", "validity", members, result)


def roundrobin_loads_within_one_when_subscriptions_identical(members, result):
    return JUDGE.judge("roundrobin", "roundrobin_balance", members, result)


def sticky_each_subscribed_partition_has_exactly_one_subscribed_owner(members, result):
    return JUDGE.judge("sticky", "validity", members, result)


def sticky_balanced_in_the_kip54_sense(members, result):
    return JUDGE.judge("sticky", "sticky_balance", members, result)


def _never(name):
    def error(members, result):
        return ContractNeverFails(f"recording contract {name} returned False")
    return error


_CONTRACTED = {}


def contracted(lib):
    """{name: callable(cls, cluster, members)} = the real assign functions under `ensure`."""
    key = id(lib)
    if key in _CONTRACTED:
        return _CONTRACTED[key]
    ensure = lib.icontract.ensure

    def wrap(klass, conds):
        f = klass.assign.__func__
        for c in reversed(conds):
            f = ensure(c, description=c.__name__, error=_never(c.__name__))(f)
        return f

    out = {
        "range": wrap(lib.Range, [range_each_subscribed_partition_has_exactly_one_subscribed_owner,
                                  range_loads_within_one_per_topic]),
        "roundrobin": wrap(lib.RoundRobin, [roundrobin_each_subscribed_partition_has_exactly_one_subscribed_owner,
                                            roundrobin_loads_within_one_when_subscriptions_identical]),
        "sticky": wrap(lib.Sticky, [sticky_each_subscribed_partition_has_exactly_one_subscribed_owner,
                                    sticky_balanced_in_the_kip54_sense]),
    }
    _CONTRACTED[key] = out
    return out


def call_assign(lib, name, label, klass, layout, subs, members_md, witness):
    """Runs one contracted assign(); returns the flattened result or None when it raised."""
    JUDGE.begin(label, layout, subs, witness)
    f = contracted(lib)[name]
    try:
        res = f(klass, lib.cluster(layout), members_md)
    except (ContractNeverFails, RuntimeError):
        raise
    except Exception as e:  # noqa: BLE001 - an assignor that raises did not assign
        JUDGE.count(f"assign_raised_{label}")
        w = dict(witness)
        w.setdefault("layout", jsonable_layout(layout))
        w.setdefault("subscriptions", jsonable_subs(subs))
        w["assignor"] = label
        mech = f"{name}_assign_raises_{type(e).__name__}"
        if isinstance(e, lib.stickyguard.StickyNonTermination):
            mech = e.mechanism
            JUDGE.count("sticky_assign_nonterminating")
        elif name == "sticky" and stale_unsubscribed_claims(layout, subs, witness):
            mech += "_with_unsubscribed_previous_owner"
        JUDGE.violations.append({
            "mechanism": mech,
            "what": f"{label}: assign() raised {type(e).__name__}: {str(e)[:1500]}",
            "witness": w})
        JUDGE.last_problems.append(mech)
        return None
    return res


# ------------------------------------------------------------------------------------------
# running a case = a chain of rounds (range / roundrobin / fresh sticky judged on every round,
# chained sticky with user data judged from round 1 on)
# ------------------------------------------------------------------------------------------

def run_case(lib, case, only=None):
    """case = {"rounds": [{"layout": {...}, "subs": {...}}, ...], "shuffle": int|None,
               "bad_userdata": {"<round>": {member: "garbage" | {"partitions": [[t,p]..], "generation": g}}}}
    Returns the list of mechanisms that fired."""
    fired = []
    lib.reset_sticky_members()
    bad = case.get("bad_userdata") or {}
    wire = case.get("wire", False)
    for r, rnd in enumerate(case["rounds"]):
        layout = {t: (None if p is None else tuple(p)) for t, p in rnd["layout"].items()}
        subs = {m: tuple(v) for m, v in rnd["subs"].items()}
        witness = {"case": case, "round": r}
        repeated = r > 0 and rnd == case["rounds"][r - 1]
        carries = any(lib.sticky_member(m).member_assignment is not None for m in subs) or bool(bad.get(str(r)))
        for name, klass in (("range", lib.Range), ("roundrobin", lib.RoundRobin), ("sticky", lib.Sticky)):
            if only and name != only:
                continue
            if repeated or (name == "sticky" and not carries):
                continue  # same stateless input as the round before / the chained call below is the fresh one
            label = name if name != "sticky" else "sticky_fresh"
            md = {m: klass.metadata(v) for m, v in subs.items()}
            if wire:
                md = {m: lib.wire(x) for m, x in md.items()}
            call_assign(lib, name, label, klass, layout, subs, md, witness)
            fired.extend(JUDGE.last_problems)
        if only and only != "sticky":
            continue
        # chained sticky: user data from what each member class remembers (real path)
        md = {}
        claims = {}
        has_ud = False
        for m, v in subs.items():
            k = lib.sticky_member(m)
            spec = (bad.get(str(r)) or {}).get(m)
            if spec == "garbage":
                x = lib.MemberMetadata(k.version, list(v), b"\x00\x01garbage")
                claims[m] = "garbage"
            elif isinstance(spec, dict):
                x = k._metadata(v, [lib.TopicPartition(t, p) for t, p in spec["partitions"]], spec["generation"])
                claims[m] = {"generation": spec["generation"], "partitions": [list(tp) for tp in spec["partitions"]]}
            else:
                x = k.metadata(v)
                if k.member_assignment is not None:
                    claims[m] = {"generation": k.generation,
                                 "partitions": [[tp.topic, tp.partition] for tp in k.member_assignment]}
            has_ud = has_ud or bool(x.user_data)
            md[m] = lib.wire(x) if wire else x
        witness = dict(witness, user_data_claims=claims)
        label = "sticky_userdata" if has_ud else "sticky_fresh"
        res = call_assign(lib, "sticky", label, lib.Sticky, layout, subs, md, witness)
        fired.extend(JUDGE.last_problems)
        if res is None:
            break
        for m in subs:
            k = lib.sticky_member(m)
            a = res.get(m)
            if a is None:
                continue
            k.on_assignment(lib.MemberAssignment.decode(a.encode()) if wire else a)
            k.on_generation_assignment(r + 1)
    return fired


def nontrivial(layout, subs) -> bool:
    return len(subs) >= 2 and len(ref.expected_partitions(layout, subs)) >= 2


# ------------------------------------------------------------------------------------------
# random inputs
# ------------------------------------------------------------------------------------------

_TOPIC_POOL = [f"t{i}" for i in range(12)] + ["orders", "a", "topic-x", "T", "t_10", "zz"]
_MEMBER_POOL = [f"m{i}" for i in range(14)] + ["C1", "C10", "C2", "consumer-a", "consumer-b", "x"]


def _rand_subs(rng, members, topics, mode):
    subs = {}
    if mode == "identical":
        k = rng.randint(1, len(topics))
        base = rng.sample(topics, k)
        for m in members:
            v = list(base)
            rng.shuffle(v)
            subs[m] = v
    elif mode == "nested":
        order = list(topics)
        rng.shuffle(order)
        for m in members:
            subs[m] = order[: rng.randint(1, len(order))]
    else:
        for m in members:
            subs[m] = rng.sample(topics, rng.randint(1, len(topics)))
    return subs


def random_case(rng):
    size = rng.random()
    if size < 0.35:
        nm, nt, mp = rng.randint(1, 4), rng.randint(1, 3), 5
    elif size < 0.75:
        nm, nt, mp = rng.randint(2, 8), rng.randint(1, 6), 8
    else:
        nm, nt, mp = rng.randint(5, 12), rng.randint(3, 8), 12
    topics = rng.sample(_TOPIC_POOL, nt)
    members = rng.sample(_MEMBER_POOL, nm)

    def rand_parts():
        x = rng.random()
        if x < 0.10:
            return None
        if x < 0.18:
            return []
        return list(range(rng.randint(1, mp)))

    layout = {t: rand_parts() for t in topics}
    mode = rng.choice(["identical", "identical", "independent", "independent", "nested"])
    subs = _rand_subs(rng, members, topics, mode)
    rounds = [{"layout": layout, "subs": subs}]
    bad = {}
    for r in range(1, rng.choice([1, 2, 2, 3, 3, 4])):
        layout = {t: (None if p is None else list(p)) for t, p in layout.items()}
        subs = {m: list(v) for m, v in subs.items()}
        for _ in range(rng.randint(0, 2)):
            op = rng.choice(["drop_member", "add_member", "resub", "parts", "lose_md", "none"])
            if op == "drop_member" and len(subs) > 1:
                del subs[rng.choice(sorted(subs))]
            elif op == "add_member":
                cand = [m for m in _MEMBER_POOL if m not in subs]
                if cand and len(subs) < 12:
                    m = rng.choice(cand)
                    subs[m] = (list(next(iter(subs.values()))) if mode == "identical"
                               else rng.sample(topics, rng.randint(1, len(topics))))
            elif op == "resub":
                m = rng.choice(sorted(subs))
                subs[m] = rng.sample(topics, rng.randint(1, len(topics)))
            elif op == "parts":
                t = rng.choice(topics)
                layout[t] = rand_parts()
            elif op == "lose_md":
                layout[rng.choice(topics)] = None
        if rng.random() < 0.12:
            m = rng.choice(sorted(subs))
            if rng.random() < 0.4:
                bad.setdefault(str(r), {})[m] = "garbage"
            else:
                claim = []
                for t in rng.sample(topics, rng.randint(1, len(topics))):
                    for p in range(rng.randint(0, 3)):
                        claim.append([t, p])
                bad.setdefault(str(r), {})[m] = {"partitions": claim, "generation": rng.choice([-1, 0, r - 1, r, r + 5])}
        rounds.append({"layout": layout, "subs": subs})
    case = {"rounds": rounds, "wire": rng.random() < 0.5}
    if bad:
        case["bad_userdata"] = bad
    return case


# ------------------------------------------------------------------------------------------
# shrinking a failing case (same mechanism must keep firing)
# ------------------------------------------------------------------------------------------

def _bad_without(bad, member=None, topic=None):
    if not bad:
        return None
    out = {}
    for r, specs in bad.items():
        ns = {}
        for m, spec in specs.items():
            if m == member:
                continue
            if isinstance(spec, dict) and topic is not None:
                spec = dict(spec, partitions=[tp for tp in spec["partitions"] if tp[0] != topic])
            ns[m] = spec
        if ns:
            out[r] = ns
    return out or None


def _variants(case):
    rounds = case["rounds"]
    bad = case.get("bad_userdata")
    if len(rounds) > 1:
        yield dict(case, rounds=rounds[:-1])
        yield dict(case, rounds=rounds[1:], bad_userdata=None)
        for i in range(1, len(rounds) - 1):
            yield dict(case, rounds=rounds[:i] + rounds[i + 1:], bad_userdata=None)
    members = sorted({m for r in rounds for m in r["subs"]})
    for m in members:
        nr = []
        ok = True
        for r in rounds:
            s = {k: v for k, v in r["subs"].items() if k != m}
            if not s:
                ok = False
                break
            nr.append({"layout": r["layout"], "subs": s})
        if ok:
            yield dict(case, rounds=nr, bad_userdata=_bad_without(bad, member=m))
    topics = sorted({t for r in rounds for t in r["layout"]})
    for t in topics:
        nr = []
        ok = True
        for r in rounds:
            s = {k: [x for x in v if x != t] for k, v in r["subs"].items()}
            if any(not v for v in s.values()):
                ok = False
                break
            nr.append({"layout": {k: v for k, v in r["layout"].items() if k != t}, "subs": s})
        if ok:
            yield dict(case, rounds=nr, bad_userdata=_bad_without(bad, topic=t))
    for i, r in enumerate(rounds):
        for t, p in r["layout"].items():
            if p:
                nl = dict(r["layout"])
                nl[t] = list(p)[:-1]
                yield dict(case, rounds=rounds[:i] + [{"layout": nl, "subs": r["subs"]}] + rounds[i + 1:])
            if p is None:
                nl = dict(r["layout"])
                nl[t] = []
                yield dict(case, rounds=rounds[:i] + [{"layout": nl, "subs": r["subs"]}] + rounds[i + 1:])
        for m, v in r["subs"].items():
            if len(v) > 1:
                for x in v:
                    ns = dict(r["subs"])
                    ns[m] = [y for y in v if y != x]
                    yield dict(case, rounds=rounds[:i] + [{"layout": r["layout"], "subs": ns}] + rounds[i + 1:])
    for r, specs in (bad or {}).items():
        for m, spec in specs.items():
            nb = {k: dict(v) for k, v in bad.items()}
            del nb[r][m]
            yield dict(case, bad_userdata={k: v for k, v in nb.items() if v} or None)
            if isinstance(spec, dict):
                for i in range(len(spec["partitions"])):
                    nb = {k: dict(v) for k, v in bad.items()}
                    nb[r][m] = dict(spec, partitions=spec["partitions"][:i] + spec["partitions"][i + 1:])
                    yield dict(case, bad_userdata=nb)
    if case.get("wire"):
        yield dict(case, wire=False)


def _fires(lib, case, mechanism):
    global JUDGE
    JUDGE = Judge()
    try:
        fired = run_case(lib, case)
    except Exception:  # noqa: BLE001
        return None
    if mechanism not in fired:
        return None
    for viol in JUDGE.violations:
        if viol["mechanism"] == mechanism:
            return viol
    return None


def shrink(lib, viol, budget_s=20.0):
    """Greedy reduction of a failing case; the same mechanism must keep firing.  First tries the
    'direct' form: only the failing round, with every member's user data written out explicitly."""
    global JUDGE
    saved = JUDGE
    t0 = time.time()
    mechanism = viol["mechanism"]
    w = viol["witness"]
    case = w["case"]
    best = viol
    try:
        claims = w.get("user_data_claims")
        if claims is not None and "round" in w:
            rnd = case["rounds"][w["round"]]
            direct = {"rounds": [rnd], "wire": False}
            if claims:
                direct["bad_userdata"] = {"0": claims}
            got = _fires(lib, direct, mechanism)
            if got is not None:
                case, best = direct, got
        changed = True
        while changed and time.time() - t0 < budget_s:
            changed = False
            for v in _variants(case):
                v = {k: x for k, x in v.items() if x is not None}
                got = _fires(lib, v, mechanism)
                if got is not None:
                    case, best, changed = v, got, True
                    break
                if time.time() - t0 > budget_s:
                    break
        return best
    finally:
        JUDGE = saved


# ------------------------------------------------------------------------------------------
# runner interface
# ------------------------------------------------------------------------------------------

def shards(tier: str, seed: int):
    out = []
    mm, mt = (MAX_M, MAX_T) if tier == "thorough" else (QUICK_M, QUICK_T)
    n = N_STRIPES[tier]
    for s in range(n):
        out.append({"kind": "exhaustive", "stripe": s, "stripes": n, "max_m": mm, "max_t": mt,
                    "seed": seed, "timeout_s": 3000})
    for s in range(N_RANDOM_SHARDS[tier]):
        out.append({"kind": "random", "shard": s, "count": RANDOM_PER_SHARD[tier], "seed": seed,
                    "timeout_s": 3000})
    out.append({"kind": "pinned", "seed": seed, "timeout_s": 3000})
    return out


def _finish(lib, res, t0):
    global JUDGE
    # keep at most a few violations per mechanism, shrunk when they came from a random case
    by_mech = {}
    for v in JUDGE.violations:
        by_mech.setdefault(v["mechanism"], []).append(v)
    out = []
    for mech, vs in sorted(by_mech.items()):
        best = min(vs, key=lambda v: len(json.dumps(v["witness"], default=str)))
        if "case" in best["witness"]:
            best = shrink(lib, best)
        out.append(best)
        res["counters"][f"violating_evaluations_{mech}"] = len(vs)
    res["violations"] = out
    for k, v in JUDGE.counters.items():
        res["counters"][k] = res["counters"].get(k, 0) + v
    res["counters"]["sticky_executor_runs_monitored"] = lib.stickyguard.STATS["executors"]
    res["counters"]["sticky_partition_moves_observed"] = lib.stickyguard.STATS["moves"]
    res["counters"]["cpu_ms"] = int((time.time() - t0) * 1000)
    return res


def run_shard(params):
    global JUDGE
    JUDGE = Judge()
    t0 = time.time()
    lib = Lib.get()
    res = {"evaluations": 0, "nontrivial": [], "violations": [], "inconclusive": [],
           "counters": {}, "sets": {"repo_root": [lib.root]}, "samples": []}
    cnt = res["counters"]
    if params["kind"] == "exhaustive":
        stripe, stripes = params["stripe"], params["stripes"]
        done = 0
        for idx, layout, subs in exhaustive_inputs(params["max_m"], params["max_t"]):
            if idx % stripes != stripe:
                continue
            case = {"rounds": [{"layout": jsonable_layout(layout), "subs": jsonable_subs(subs)},
                               {"layout": jsonable_layout(layout), "subs": jsonable_subs(subs)}]}
            before = len(JUDGE.violations)
            run_case(lib, case)
            done += 1
            res["evaluations"] += 1
            if nontrivial(layout, subs):
                res["nontrivial"].append(f"e{idx:x}")
            if any(p is None for p in layout.values()):
                cnt["inputs_with_topic_without_metadata"] = cnt.get("inputs_with_topic_without_metadata", 0) + 1
            if ref.subscriptions_identical(subs):
                cnt["inputs_identical_subscriptions"] = cnt.get("inputs_identical_subscriptions", 0) + 1
            if len(res["samples"]) < 1 and stripe == 0 and idx > 1000 and len(JUDGE.violations) == before:
                res["samples"].append({"exhaustive_index": idx, "layout": jsonable_layout(layout),
                                       "subscriptions": jsonable_subs(subs)})
        cnt["exhaustive_inputs"] = done
        cnt["exhaustive_stripes_completed"] = 1
    elif params["kind"] == "pinned":
        # inputs kept from earlier runs (witnesses of known findings / repaired defects): always re-run
        import os
        with open(os.path.join(os.path.dirname(os.path.abspath(__file__)), "c14_pinned.json")) as f:
            pinned = json.load(f)
        for ent in pinned:
            run_case(lib, ent["case"])
            res["evaluations"] += len(ent["case"]["rounds"])
            cnt["pinned_cases"] = cnt.get("pinned_cases", 0) + 1
    else:
        rng = random.Random(f"C14/{params['seed']}/{params['shard']}")
        for i in range(params["count"]):
            case = random_case(rng)
            run_case(lib, case)
            res["evaluations"] += len(case["rounds"])   # every judged round is one evaluated input
            cnt["random_inputs"] = cnt.get("random_inputs", 0) + 1
            cnt["random_rounds"] = cnt.get("random_rounds", 0) + len(case["rounds"])
            if case.get("bad_userdata"):
                cnt["random_inputs_with_bad_userdata"] = cnt.get("random_inputs_with_bad_userdata", 0) + 1
            for r in case["rounds"]:
                if nontrivial(r["layout"], r["subs"]):
                    res["nontrivial"].append("r" + sig([r["layout"], r["subs"]]))
                if len(r["subs"]) > MAX_M or len(r["layout"]) > MAX_T:
                    cnt["random_rounds_beyond_exhaustive_bounds"] = cnt.get("random_rounds_beyond_exhaustive_bounds", 0) + 1
            if len(res["samples"]) < 1 and i == 3:
                res["samples"].append({"random_case": case})
    return _finish(lib, res, t0)


def replay(witness):
    global JUDGE
    JUDGE = Judge()
    lib = Lib.get()
    run_case(lib, witness["case"])
    return {"evaluations": 1, "violations": JUDGE.violations}


def finalize(merged, tier):
    mm, mt = (MAX_M, MAX_T) if tier == "thorough" else (QUICK_M, QUICK_T)
    want = space_size(mm, mt)
    got = merged["counters"].get("exhaustive_inputs", 0)
    stripes = merged["counters"].get("exhaustive_stripes_completed", 0)
    complete = got == want and stripes == N_STRIPES[tier]
    cov = merged.setdefault("extra_coverage", {})
    cov["exhaustive_space"] = {
        "bounds": f"<= {mm} members x <= {mt} topics x (no metadata | 0..{MAX_P} partitions) x every non-empty subscription",
        "size": want, "enumerated": got, "complete": complete,
    }
    if tier == "thorough":
        # the quantifier's exhaustive clause is exactly the M=4,T=3 space
        cov["exhaustive"] = bool(complete)
    if not complete:
        merged["inconclusive"].append(f"exhaustive part incomplete: {got}/{want} inputs, {stripes}/{N_STRIPES[tier]} stripes")
