"""C06 - group membership converges and is not disturbed by the member itself.

Offline checker (vf.group_judges.judge_c06) over the coordinator-side trace of every group request and reply in
histories of real group members on the simulated coordinator, plus a bounded-convergence observer.
"""
from __future__ import annotations

from vf.props import _group_common as GC

PROPERTY_ID = "C06"
LEVEL = "exploration"
RULE = ("history = 1-4 real group members with 1-3 configured assignors in seeded order, JoinGroup v0..v5 brokers "
        "(MEMBER_ID_REQUIRED from v4), per-request fates on JoinGroup / SyncGroup / Heartbeat / OffsetCommit / OffsetFetch / "
        "FindCoordinator / LeaveGroup (drop before apply, reset after apply, reply lost, delay, every retriable and "
        "membership error code; in 30% of the histories also authorization / inconsistent-protocol / invalid-session codes), coordinator moves with and without state, broker bounces, session expiries, kills, "
        "stop()s, subscription changes. Judged: (1) every JoinGroup lists exactly the configured assignor names in "
        "order; (2) a NoError JoinGroup reply the member can still be waiting for is followed by SyncGroup(generation, "
        "member id of the reply) unless a fault fate hit a request of that member, a harness call (subscribe/stop/kill), "
        "a coordinator/broker event or a metadata change lies between the start of that rejoin attempt and the next "
        "request; (3) B_group after the quiet point: group Stable, every live member in the latest generation with the "
        "assignment the coordinator holds, every partition of every subscribed topic assigned, and during the following "
        "3 x session_timeout no JoinGroup, no generation change, heartbeat gaps <= 2 x interval. Non-trivial = >= 2 "
        "members or >= 2 assignors, and >= 1 fault on a group request. Distinct = signature as for C05.")
ASSUMPTIONS = [
    "trusted base: vf/simloop.py, vf/cluster.py + vf/groupcoord.py (Kafka group coordinator semantics, DESIGN A.2), vf/wire.py",
    "liveness is restated as bounded progress: B_group = 4 x (request + session + rebalance timeout) + 40 x retry backoff "
    "of virtual time after the last fault",
    "request_timeout_ms > rebalance_timeout_ms as with the library defaults (a parked JoinGroup must not time out client-side)",
    "non-retriable coordinator codes (GROUP/TOPIC authorization, INCONSISTENT_GROUP_PROTOCOL, INVALID_SESSION_TIMEOUT) are injected "
    "in 30% of the 'faults'/'mixed' histories: the application's poll loop catches the raised error and goes on polling; a "
    "member whose start() itself failed with such an error is not expected to converge",
    "histories in which the sticky assignor does not terminate (C14 known finding) are skipped and counted",
]
REQUIRED_COUNTERS = ["histories_judged", "joingroups_checked", "join_ok_replies_followed", "join_then_sync",
                     "join_then_join_justified", "histories_with_convergence_judged", "members_converged",
                     "heartbeats_in_window", "partitions_covered", "mid_required_roundtrips", "faults_on_group_requests",
                     "histories_multi_assignor", "coordinator_moves"]


def prepare(tier, seed, scratch):
    from vf.simharness import prepare_codec
    return prepare_codec(scratch)


def shards(tier, seed):
    return GC.shards_for(tier, seed, 6, ["faults", "faults", "mixed", "rebalance"], quick_per=8, thorough_per=110)


def _nontrivial(H, st):
    P = H["params"]
    return (len(P["members"]) >= 2 or len(P["assignors"]) >= 2) and st["faults_on_group_requests"] >= 1


def run_shard(params):
    return GC.run_group_shard(params, "judge_c06", _nontrivial)


def replay(witness):
    return GC.replay_group(witness, "judge_c06")
