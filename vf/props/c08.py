"""C08 - isolation filter: no aborted, no unstable, no control records delivered; position still advances.

The same generated transactional log is consumed by a real consumer at read_committed and at read_uncommitted;
what it delivers is compared with an independent reading of the simulator's log (record classes computed from the
markers with the reference codec), the cursor oracle guarantees exactness, and a stall detector watches the
broker-side fetch offsets.
"""
from __future__ import annotations

import random

from vf import repoimport
from vf.runner import sig

PROPERTY_ID = "C08"
LEVEL = "exploration"
RULE = ("case = one generated multi-partition log with up to 4 producers' interleaved committed / aborted / open "
        "transactions, plain batches, compaction (incl. removed first/last records and emptied batches), solitary abort "
        "markers, markers on response boundaries (one batch per response or small max_partition_fetch_bytes so that "
        "responses start inside transactions and the aborted index covers part of a response), consumed once at "
        "read_committed and once at read_uncommitted by a real consumer using getone and/or getmany with seeks. "
        "Non-trivial = the log contains at least one aborted and one committed transaction and the consumer needed "
        ">= 3 fetch responses for some partition. Distinct = signature over the per-partition class string of the log "
        "and the response cut.")
ASSUMPTIONS = [
    "record classes (plain/committed/aborted/open/control) are derived from the markers in the simulator's log by the "
    "reference codec; LSO = first offset of the earliest open transaction, HW = log end",
    "the broker returns, at read_committed, the aborted transactions overlapping the returned range (Kafka semantics)",
    "stall = the same fetch offset answered with data more than 6 times in a row while the consumer is polling",
]
REQUIRED_COUNTERS = ["histories_judged", "rc_histories", "ru_histories", "records_checked", "aborted_records_in_logs",
                     "open_records_in_logs", "control_batches_in_logs", "committed_records_delivered_rc",
                     "aborted_records_delivered_ru", "final_positions_checked", "drained_partitions"]


def prepare(tier, seed, scratch):
    from vf.simharness import prepare_codec
    return prepare_codec(scratch)


def shards(tier, seed):
    n = 16
    per = 14 if tier == "quick" else 250
    return [{"seed": seed * 7411 + s + 5, "n": per, "pure_python": (s % 4 == 3), "timeout_s": 3000} for s in range(n)]


def judge(H, consume_sim):
    V, st = consume_sim.judge_cursor(H)
    P = H["params"]
    rc = P["isolation"] == "read_committed"
    ex = {"rc_histories": int(rc), "ru_histories": int(not rc), "aborted_records_in_logs": 0, "open_records_in_logs": 0,
          "control_batches_in_logs": 0, "committed_records_delivered_rc": 0, "aborted_records_delivered_ru": 0,
          "final_positions_checked": 0}
    for p, t in H["truth"].items():
        cls = t["classes"]
        ex["aborted_records_in_logs"] += sum(1 for c in cls.values() if c == "aborted")
        ex["open_records_in_logs"] += sum(1 for c in cls.values() if c == "open")
        ex["control_batches_in_logs"] += len(t["control_offsets"])
    for e in H["events"]:
        if e["op"] not in ("getone", "getmany"):
            continue
        for r in e["recs"]:
            t = H["truth"][str(r["p"])]
            c = t["classes"].get(str(r["o"]), "unknown")
            if c == "control":
                V.append(("control_record_delivered", f"partition {r['p']} offset {r['o']}: a transaction marker was delivered "
                          f"({P['isolation']})", {"record": r}))
            elif rc and c == "aborted":
                V.append(("aborted_record_delivered_at_read_committed", f"partition {r['p']} offset {r['o']} belongs to an "
                          "aborted transaction", {"record": r, "aborted": t["aborted"]}))
            elif rc and (c == "open" or r["o"] >= t["lso"]):
                V.append(("unstable_record_delivered_at_read_committed", f"partition {r['p']} offset {r['o']} is at/above the "
                          f"last stable offset {t['lso']}", {"record": r}))
            elif c == "unknown":
                V.append(("nonexistent_record_delivered", f"partition {r['p']} offset {r['o']} is not in the log", {"record": r}))
            elif rc and c == "committed":
                ex["committed_records_delivered_rc"] += 1
            elif not rc and c == "aborted":
                ex["aborted_records_delivered_ru"] += 1
    # final position = bound: everything filtered has been stepped over
    if not H["errors"]:
        for p, t in H["truth"].items():
            fp = H.get("final_positions", {}).get(p)
            ex["final_positions_checked"] += 1
            want = max(t["bound"], st["_cursors"].get(p, 0))     # a seek beyond the bound stays where it was put
            if fp != want:
                V.append(("final_position_not_at_bound", f"partition {p}: after draining, position() == {fp}, "
                          f"{'LSO' if rc else 'HW'} is {t['bound']} (filtered batches not stepped over)",
                          {"final": fp, "bound": t["bound"], "control": t["control_offsets"], "aborted": t["aborted"]}))
    # stall detector over broker-side fetch replies
    runs = {}
    for f in H["fetches"]:
        k = f["partition"]
        last = runs.get(k)
        if f["error"] == 0 and f["n_bytes"]:
            if last and last[0] == f["fetch_offset"]:
                last[1] += 1
                if last[1] == 7:
                    V.append(("same_batch_refetched_repeatedly", f"partition {k}: fetch offset {f['fetch_offset']} answered with "
                              "data 7 times in a row", {"fetch": f}))
            else:
                runs[k] = [f["fetch_offset"], 1]
    st.update(ex)
    st.pop("_cursors", None)
    return V, st


def run_shard(params):
    from vf.simharness import quiet_logging, setup_codec
    codec = setup_codec(params, params.get("pure_python"))
    repoimport.use_repo()
    from vf import consume_sim
    quiet_logging()
    res = {"evaluations": 0, "nontrivial": [], "violations": [], "inconclusive": [], "counters": {}, "sets": {},
           "samples": []}
    if params.get("ext_build_error") and not params.get("pure_python"):
        res["inconclusive"].append("extension build failed: " + params["ext_build_error"])
    rng = random.Random(params["seed"])
    for i in range(params["n"]):
        base = consume_sim.gen_params(rng, i, params.get("tier", "quick"), txn=True)
        base["magics"] = [2]
        base["fetch_max_version"] = rng.choice([4, 5, 7, 10, 11])
        base["fetch_one_batch"] = rng.random() < 0.5
        base["max_partition_fetch_bytes"] = rng.choice([150, 300, 600, 100000])
        base["trim_frac"] = 0.0
        base["op_weights"] = {"getone": 5, "getmany": 4, "seek": 1, "pause": 0, "resume": 0, "position": 1, "sleep": 1}
        if params.get("force"):
            base.update(params["force"])
        for iso in ("read_committed", "read_uncommitted"):
            P = dict(base, isolation=iso)
            H = consume_sim.run_history(P)
            res["evaluations"] += 1
            if H["errors"] or H["sim_errors"]:
                res["inconclusive"].append(f"history seed={P['seed']}: {H['errors'][:1]} {str(H['sim_errors'][:1])[:300]}")
                continue
            V, st = judge(H, consume_sim)
            st["histories_judged"] = 1
            for k, v in st.items():
                res["counters"][k] = res["counters"].get(k, 0) + v
            for e in H["events"]:
                if e["op"] == "exception":
                    V.append((f"api_call_raised_{e['exc']}", f"{e['during']} raised {e['exc']}: {e['msg']}", {"event": e}))
            classes = {p: "".join(c[0] for _, c in sorted(((int(o), c) for o, c in t["classes"].items())))
                       for p, t in H["truth"].items()}
            per_part = {}
            for f in H["fetches"]:
                if f["n_bytes"]:
                    per_part[f["partition"]] = per_part.get(f["partition"], 0) + 1
            has_both = any(t["aborted"] for t in H["truth"].values()) and any("c" in s for s in classes.values())
            if has_both and any(n >= 3 for n in per_part.values()):
                res["nontrivial"].append(sig([classes, P["fetch_one_batch"], P["max_partition_fetch_bytes"], iso]))
            seen = set()
            for mech, what, detail in V:
                if mech in seen:
                    continue
                seen.add(mech)
                res["violations"].append({"mechanism": mech, "what": what + f" [codec: {codec}]",
                                          "witness": {"params": P, "pure_python": bool(params.get("pure_python")), "detail": detail}})
            if not res["samples"] and has_both:
                res["samples"].append({"params": P, "log_classes(p=plain,c=committed,a=aborted,o=open,control=c..)": classes,
                                       "delivered": [(r["p"], r["o"]) for e in H["events"] if e["op"] in ("getone", "getmany")
                                                     for r in e["recs"]][:60]})
    res["sets"]["codec"] = [codec]
    return res


def replay(witness):
    from vf.simharness import quiet_logging, setup_codec
    setup_codec({}, witness.get("pure_python"))
    repoimport.use_repo()
    from vf import consume_sim
    quiet_logging()
    H = consume_sim.run_history(witness["params"])
    V, st = judge(H, consume_sim)
    return {"evaluations": 1, "violations": [{"mechanism": m, "what": w, "witness": {"params": witness["params"], "detail": d}}
                                              for m, w, d in V]}
