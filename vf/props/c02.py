"""C02 - every send future resolves once, with the record's true coordinates.

Monitor over the per-future resolution log, flush()/stop() call/return events and the simulated brokers'
partition logs (vf.produce_sim histories).
"""
from __future__ import annotations

import random

from vf import repoimport
from vf.runner import sig

PROPERTY_ID = "C02"
LEVEL = "exploration"
RULE = ("history = real AIOKafkaProducer on the simulated cluster: batches of 1..n records with differing explicit and "
        "default timestamps, keys, headers, send() and send_batch(), acks 0/1/all, idempotent or not, CreateTime and "
        "LogAppendTime topics, produce versions v0..v7 advertised, C01's retriable fault sequences until a quiet point, "
        "flush()/stop() issued mid-run and at the end. Non-trivial = a batch with >=2 records carrying different "
        "timestamps was acknowledged, or a retry happened. Distinct = signature over (mode, produce version, topic "
        "timestamp type, per-partition batch sizes, outcome classes).")
ASSUMPTIONS = [
    "N1 (see C01); LogAppendTime semantics: the broker stamps the batch (max timestamp) and every record reads that time",
    "produce < v2 has no timestamp in the reply: the documented CreateTime mimic is accepted there, timestamps are "
    "compared only when the topic is CreateTime",
    "bound B_produce = 4*(request_timeout+metadata_max_age)+40*retry_backoff virtual seconds after the quiet point",
    "starting sequences near the 2^31 wrap are excluded here (C01's known finding would fail records)",
]
REQUIRED_COUNTERS = ["histories_judged", "futures_checked", "success_coordinates_checked", "timestamps_compared",
                     "multi_timestamp_batches_acked", "flush_stop_returns_checked", "acks0_results_checked",
                     "logappendtime_results_checked", "send_batch_futures_checked"]


def ts_mechanism(meta, row, rows, topic_type):
    """Narrow classifier: on a CreateTime topic the reported timestamp is the one of an EARLIER record of the same
    appended batch (MessageBatch.done carrying the first future-bearing record's timestamp over)."""
    if topic_type == 0 and meta["timestamp_type"] == 0:
        p = meta["partition"]
        for off in range(row["batch_base"], row["offset"]):
            r = rows.get((p, off))
            if r is not None and r["ts"] == meta["timestamp"]:
                return "createtime_record_reports_timestamp_of_earlier_record_in_batch"
    return ("createtime" if topic_type == 0 else "logappendtime") + "_metadata_timestamp_differs_from_log"


def judge(H):
    P = H["params"]
    V = []
    st = {k: 0 for k in REQUIRED_COUNTERS}
    st["histories_judged"] = 1
    st["failed_futures_nonidempotent"] = 0
    rows = {}
    batch_ts = {}
    for p, rs in H["logs"].items():
        for r in rs:
            rows[(int(p), r["offset"])] = r
            batch_ts.setdefault((int(p), r["batch_base"]), set()).add(r["ts"])
    acc = {}
    for ti, recs in H["accepted"].items():
        for r in recs:
            acc[r["uid"]] = r
    ver = P["produce_max_version"]
    outcome_classes = set()
    for uid, f in H["futures"].items():
        st["futures_checked"] += 1
        oc = f["outcome"]
        outcome_classes.add(oc + ":" + f.get("exc", ""))
        if f["callbacks"] > 1:
            V.append(("future_callbacks_ran_twice", f"future of {uid} invoked its done-callback {f['callbacks']} times", {"uid": uid}))
        if oc == "pending":
            V.append(("future_never_resolved", f"future of {uid} (accepted at {f['t_acc']:.3f}) still pending at the end of the "
                      f"run (quiet since {H.get('t_quiet')}, run ended {H.get('t_end')})", {"uid": uid, "future": f}))
            continue
        if oc == "cancelled" and f.get("app_cancelled"):
            st["futures_cancelled_by_the_application"] = st.get("futures_cancelled_by_the_application", 0) + 1
            continue
        if oc == "cancelled":
            V.append(("future_cancelled", f"future of {uid} ended cancelled", {"uid": uid}))
            continue
        if f["t_done"] > H["t_quiet"] + H["bound"]:
            V.append(("future_resolved_later_than_bound", f"future of {uid} resolved at {f['t_done']:.2f}, bound "
                      f"{H['t_quiet'] + H['bound']:.2f}", {"uid": uid, "future": f}))
        if oc == "exception":
            if P["idempotent"]:
                mech = f"idempotent_record_failed_by_retriable_faults:{f['exc']}"
                if f["exc"] == "OutOfOrderSequenceNumber":
                    from vf import produce_sim as _ps
                    gap = _ps.first_sequence_gap(H).get(f.get("tp"))
                    if gap and _ps.sent_batch_expired_without_leader(H, f.get("tp"), gap[0], gap[2]):
                        mech += "_after_sent_batch_expired_without_leader"
                V.append((mech,
                          f"idempotent producer: accepted record {uid} failed with {f['exc']} although only retriable "
                          "faults were injected", {"uid": uid, "future": f, "fault_hits": H["fault_hits"]}))
            else:
                st["failed_futures_nonidempotent"] += 1
            continue
        meta = f.get("meta")
        if P["acks"] == 0 and not P["idempotent"]:
            st["acks0_results_checked"] += 1
            if meta is not None:
                V.append(("acks0_future_carries_metadata", f"acks=0 but future of {uid} resolved with metadata", {"future": f}))
            continue
        if meta is None:
            V.append(("acked_future_without_metadata", f"future of {uid} resolved with None although acks={P['acks']}", {"future": f}))
            continue
        first_uid = uid if f["kind"] == "record" else f["uids"][0]
        a = acc[first_uid]
        row = rows.get((meta["partition"], meta["offset"]))
        st["success_coordinates_checked"] += 1
        if f["kind"] == "batch":
            st["send_batch_futures_checked"] += 1
        if meta["partition"] != a["tp"] or meta["topic"] != "t":
            V.append(("metadata_names_wrong_partition", f"{uid}: sent to partition {a['tp']}, metadata says {meta['partition']}", {"future": f}))
            continue
        if row is None or row["uid"] != first_uid:
            V.append(("metadata_offset_holds_other_record" if f["kind"] == "record" else "send_batch_offset_not_batch_base",
                      f"{uid}: metadata offset {meta['offset']} of partition {meta['partition']} holds "
                      f"{row['uid'] if row else 'nothing'}", {"future": f, "row": row}))
            continue
        if f["kind"] == "batch":
            continue
        if row["key"] != a["key"] or [tuple(x) for x in row["headers"]] != [tuple(x) for x in a["headers"]]:
            V.append(("log_record_differs_in_key_or_headers", f"{uid}: stored key/headers differ from what was sent",
                      {"sent": a, "row": row}))
        topic_type = H["topic_ts_type"]
        if ver < 2:
            # no timestamp in the reply: CreateTime mimic is documented
            if topic_type == 0:
                st["timestamps_compared"] += 1
                if meta["timestamp"] != row["ts"] or meta["timestamp_type"] != 0:
                    V.append((ts_mechanism(meta, row, rows, 0), f"{uid}: metadata timestamp "
                              f"{meta['timestamp']} type {meta['timestamp_type']}, log has {row['ts']} (produce v{ver})",
                              {"future": f, "row": row}))
            continue
        if meta["timestamp_type"] != topic_type:
            V.append((f"timestamp_type_{meta['timestamp_type']}_on_type_{topic_type}_topic",
                      f"{uid}: metadata timestamp_type {meta['timestamp_type']}, broker applied {topic_type} (produce v{ver})",
                      {"future": f, "row": row, "version": ver}))
        st["timestamps_compared"] += 1
        if topic_type == 1:
            st["logappendtime_results_checked"] += 1
        if meta["timestamp"] != row["ts"]:
            V.append((ts_mechanism(meta, row, rows, topic_type), f"{uid}: metadata timestamp {meta['timestamp']} but the record at partition "
                      f"{meta['partition']} offset {meta['offset']} has timestamp {row['ts']} (produce v{ver}, "
                      f"{'CreateTime' if topic_type == 0 else 'LogAppendTime'})", {"future": f, "row": row}))
        if a["ts"] is not None and topic_type == 0 and row["ts"] != a["ts"]:
            V.append(("stored_timestamp_differs_from_explicit_timestamp", f"{uid}: sent timestamp {a['ts']}, stored {row['ts']}",
                      {"sent": a, "row": row}))
    for (p, base), tss in batch_ts.items():
        if len(tss) > 1:
            st["multi_timestamp_batches_acked"] += 1
    # flush / stop
    for c in H["calls"]:
        if c["t_ret"] is None:
            V.append((f"{c['name']}_never_returned", f"{c['name']}() called at {c['t_call']:.2f} never returned "
                      f"(run ended {H.get('t_end')})", {"call": {k: v for k, v in c.items() if k != 'accepted_before'}}))
            continue
        st["flush_stop_returns_checked"] += 1
        if c["exc"]:
            V.append((f"{c['name']}_raised_{c['exc']}", f"{c['name']}() raised {c['exc']}", {"call": c["name"]}))
        if c["pending_at_return"]:
            V.append((f"{c['name']}_returned_with_unresolved_futures", f"{c['name']}() returned at {c['t_ret']:.3f} while "
                      f"{len(c['pending_at_return'])} previously accepted records were unresolved "
                      f"(e.g. {c['pending_at_return'][:3]})", {"call": c["name"], "pending": c["pending_at_return"][:10]}))
    if "final flush/stop did not return within 10x bound" in H["notes"] and not any(v[0].endswith("_never_returned") for v in V):
        V.append(("final_flush_stop_never_returned", "final flush()/stop() did not return within 10x the bound", {}))
    sizes = sorted({len([1 for r in rs if r["batch_base"] == b]) for p, rs in H["logs"].items() for b in {r["batch_base"] for r in rs}})
    s = sig([P["idempotent"], P["acks"], ver, H["topic_ts_type"], sizes, sorted(outcome_classes)])
    return V, st, s


def nontrivial(H, st):
    retried = any(a.get("seq_verdict") in ("duplicate_cached",) or a.get("error") not in (0, None) for a in H["arrivals"]) \
        or sum(H["fault_hits"].values()) > 0
    return st["multi_timestamp_batches_acked"] > 0 or retried


def shards(tier, seed):
    n = 16
    per = 40 if tier == "quick" else 600
    return [{"seed": seed * 104729 + s + 17, "n": per, "timeout_s": 3000, "shard_index": s} for s in range(n)]


def _pinned(prop, res):
    import json as _json
    import os as _os
    with open(_os.path.join(_os.path.dirname(_os.path.abspath(__file__)), "produce_pinned.json")) as f:
        out = [dict(e["params"]) for e in _json.load(f) if prop in e["props"]]
    res["counters"]["pinned_histories"] = len(out)
    return out


def run_shard(params):
    repoimport.use_repo()
    from vf import produce_sim
    from vf.simharness import quiet_logging
    quiet_logging()
    res = {"evaluations": 0, "nontrivial": [], "violations": [], "inconclusive": [], "counters": {}, "sets": {},
           "samples": []}
    rng = random.Random(params["seed"])
    versions, hits = set(), set()
    todo = []
    for i in range(params["n"]):
        P = produce_sim.gen_params(rng, i, params.get("tier", "quick"))
        if P["start_seq"] is not None and P["start_seq"] > 2**31 - 100000:
            P["start_seq"] = rng.randrange(1, 2**30)
        P["use_send_batch"] = rng.random() < 0.3
        P["app_cancels"] = P["use_send_batch"] and rng.random() < 0.5
        P["linger_ms"] = rng.choice([0, 5, 50, 50])      # more multi-record batches
        if params.get("force"):
            P.update(params["force"])
        todo.append(P)
    if params.get("shard_index") == 0:
        todo += _pinned("C02", res)
    for P in todo:
        H = produce_sim.run_history(P)
        res["evaluations"] += 1
        if H["errors"] or H["sim_errors"] or "t_quiet" not in H:
            res["inconclusive"].append(f"history seed={P['seed']}: {H['errors'][:1]} {str(H['sim_errors'][:1])[:300]}")
            continue
        V, st, s = judge(H)
        for k, v in st.items():
            res["counters"][k] = res["counters"].get(k, 0) + v
        versions.add(f"v{P['produce_max_version']}:{'LAT' if P['log_append_time'] else 'CT'}")
        hits.update(H["fault_hits"])
        if nontrivial(H, st):
            res["nontrivial"].append(s)
        seen = set()
        for mech, what, detail in V:
            if mech in seen:
                continue
            seen.add(mech)
            res["violations"].append({"mechanism": mech, "what": what, "witness": {"params": P, "detail": detail}})
        if len(res["samples"]) < 1 and nontrivial(H, st):
            some = list(H["futures"].items())[:6]
            res["samples"].append({"params": P, "futures": some, "calls": [
                {k: c[k] for k in ("name", "t_call", "t_ret", "exc")} for c in H["calls"]]})
    res["sets"]["produce_version_x_topic_type"] = sorted(versions)
    res["sets"]["fault_kinds_hit"] = sorted(hits)
    return res


def replay(witness):
    repoimport.use_repo()
    from vf import produce_sim
    from vf.simharness import quiet_logging
    quiet_logging()
    H = produce_sim.run_history(witness["params"])
    V, st, s = judge(H)
    return {"evaluations": 1, "violations": [{"mechanism": m, "what": w, "witness": {"params": witness["params"], "detail": d}}
                                              for m, w, d in V]}
