"""C01 - per-partition produce order; no loss, no duplication under retries; sequence discipline.

Offline checker over histories of the real AIOKafkaProducer on the simulated cluster (vf.produce_sim).
"""
from __future__ import annotations

import random

from vf import repoimport
from vf.runner import sig

PROPERTY_ID = "C01"
LEVEL = "exploration"
RULE = ("history = real AIOKafkaProducer, 1-4 concurrent sending tasks x 1-3 partitions x 3 simulated brokers, seeded "
        "batch size / linger / compression / acks / idempotence / produce version, per-request fates on Produce and "
        "Metadata (drop before apply, reset after apply, reply lost, delay, NOT_LEADER, LEADER_NOT_AVAILABLE, "
        "UNKNOWN_TOPIC_OR_PARTITION, REQUEST_TIMED_OUT, NOT_ENOUGH_REPLICAS, NOT_ENOUGH_REPLICAS_AFTER_APPEND), leader "
        "moves, stale metadata, starting sequence 0 / random / within 40 of 2^31. Non-trivial = at least one produce "
        "retry (fault hit or duplicate arrival) and >=2 batches on some partition. Distinct = signature over the "
        "ordered (partition, error, sequence verdict, record count) arrival sequence plus producer mode.")
ASSUMPTIONS = [
    "N1: the simulated network never delivers a request to a broker after the client has failed that request",
    "broker-side idempotence rules as in Kafka 2.x (expected next sequence with Int.MaxValue -> 0 wrap, 5-batch duplicate cache)",
    "magic-2 batches are accepted over every produce version (the library always writes magic 2)",
    "after the first out-of-range sequence number of a (producer, partition) its later sequence events are consequences and not judged",
]
REQUIRED_COUNTERS = ["histories_judged", "records_in_logs", "retries_observed", "order_pairs_checked",
                     "sequence_arrivals_checked", "inflight_intervals_checked", "wrap_histories",
                     "produce_replies_lost_on_open_connection"]


def judge(H):
    """-> (violations [(mechanism, what, detail)], stats, arrival signature)"""
    P = H["params"]
    V = []
    st = {"histories_judged": 1, "records_in_logs": 0, "retries_observed": 0, "order_pairs_checked": 0,
          "sequence_arrivals_checked": 0, "inflight_intervals_checked": 0, "duplicates_whole_batch": 0,
          "acked_records": 0, "wrap_histories": 0}
    accepted = {}
    for ti, recs in H["accepted"].items():
        for i, r in enumerate(recs):
            accepted[r["uid"]] = (ti, i, r["tp"])
    # ---- rows per partition
    occ = {}
    for p, rows in H["logs"].items():
        st["records_in_logs"] += len(rows)
        batches = {}
        for r in rows:
            batches.setdefault(r["batch_base"], []).append(r["uid"])
        for r in rows:
            uid = r["uid"]
            if uid is None or uid not in accepted:
                V.append(("phantom_record_in_log", f"partition {p} offset {r['offset']} holds a record whose send() was "
                          f"never accepted (uid {uid})", {"row": r}))
                continue
            if accepted[uid][2] != int(p):
                V.append(("record_in_wrong_partition", f"uid {uid} sent to partition {accepted[uid][2]} sits in {p}", {"row": r}))
            occ.setdefault(uid, []).append((int(p), r["offset"], tuple(batches[r["batch_base"]])))
    # ---- multiplicity
    for uid, o in occ.items():
        if len(o) > 1:
            if P["idempotent"]:
                V.append(("idempotent_record_appended_twice", f"uid {uid} appended {len(o)} times with idempotence on",
                          {"uid": uid, "occurrences": [(a, b) for a, b, _ in o]}))
            else:
                if len({c for _, _, c in o}) != 1:
                    V.append(("duplicate_not_whole_batch", f"uid {uid} duplicated in batches with different contents",
                              {"uid": uid, "occurrences": [(a, b, list(c)) for a, b, c in o]}))
                else:
                    st["duplicates_whole_batch"] += 1
    for uid, f in H["futures"].items():
        if f["kind"] != "record" or f["outcome"] != "result" or f.get("meta") is None:
            continue
        st["acked_records"] += 1
        n = len(occ.get(uid, []))
        if n == 0:
            V.append(("acknowledged_record_missing_from_log", f"uid {uid} was acknowledged (offset {f['meta']['offset']}) "
                      "but is in no partition log", {"uid": uid, "future": f}))
        elif P["idempotent"] and n != 1:
            pass  # reported above
    # ---- order of first occurrences per task and partition
    # acks=0: nothing is ever acknowledged, so the only ordering the client controls is the byte order on ONE connection.
    # Two records that reached the log over different connections (leader change, reconnect) are appended in whatever
    # order the brokers get to them (a request may sit in a slow broker's queue while leadership moves away and back).
    link_of = {}
    if P["acks"] == 0 and not P["idempotent"]:
        for a in H["arrivals"]:
            if a.get("error") == 0:
                for b in a.get("batches") or []:
                    for u in b["uids"]:
                        link_of.setdefault(u, a["link"])
    for ti, recs in H["accepted"].items():
        last = {}
        for r in recs:
            o = occ.get(r["uid"])
            if not o:
                continue
            first = min(x[1] for x in o)
            tp = r["tp"]
            if tp in last:
                st["order_pairs_checked"] += 1
                if first < last[tp][0] and link_of and link_of.get(r["uid"]) != link_of.get(last[tp][1]) \
                        and not H.get("active_idle_drops"):
                    st["acks0_pairs_over_different_connections_not_judged"] = \
                        st.get("acks0_pairs_over_different_connections_not_judged", 0) + 1
                elif first < last[tp][0] and link_of and H.get("active_idle_drops"):
                    # ... unless the client itself gave up a connection it was still writing to
                    V.append(("first_occurrences_reordered_after_connection_in_use_dropped_as_idle",
                              f"task {ti}: uid {r['uid']} (issued after {last[tp][1]}) first appears at offset {first} < "
                              f"{last[tp][0]} in partition {tp}; the client had closed a connection as idle "
                              f"{H['active_idle_drops'][0]['since_last_write']:.2f}s after its own last write to it",
                              {"task": ti, "later": r["uid"], "earlier": last[tp][1], "partition": tp,
                               "active_idle_drops": H["active_idle_drops"][:3]}))
                elif first < last[tp][0]:
                    V.append(("first_occurrences_reordered", f"task {ti}: uid {r['uid']} (issued after {last[tp][1]}) "
                              f"first appears at offset {first} < {last[tp][0]} in partition {tp}",
                              {"task": ti, "later": r["uid"], "earlier": last[tp][1], "partition": tp}))
            if tp not in last or first > last[tp][0]:
                last[tp] = (first, r["uid"])
    # ---- wire discipline per (pid, epoch, partition)
    sigparts = []
    seen = {}
    poisoned = set()
    for a in H["arrivals"]:
        bs = a.get("batches") or []
        sigparts.append((a["partition"], a.get("error"), a.get("seq_verdict"), sum(b["count"] for b in bs)))
        if a.get("seq_verdict") in ("duplicate_cached", "duplicate_old"):
            st["retries_observed"] += 1
        if not P["idempotent"] or not bs:
            continue
        b = bs[0]
        key = (b["pid"], b["epoch"], a["partition"])
        if key in poisoned:
            continue
        st["sequence_arrivals_checked"] += 1
        if not (0 <= b["base_seq"] <= 2**31 - 1):
            prev = seen.get(key, [])
            wrapped = bool(prev) and prev[-1]["base_seq"] + prev[-1]["count"] > 2**31 - 1
            if not wrapped:
                # the batch that crossed 2^31-1 may never have reached a broker (connection refused, leader down): look at
                # what the client itself put on the wire for this partition before this arrival
                for iv in H["inflight"]:
                    sq = (iv.get("seqs") or {}).get(str(a["partition"]))
                    if sq and iv["t_call"] <= a["t"] + 1e-9 and 0 <= sq[0] and sq[0] + sq[1] > 2**31 - 1:
                        wrapped = True
                        break
            V.append(("sequence_number_negative_after_wrap" if wrapped and b["base_seq"] < 0 else "sequence_number_out_of_range",
                      f"partition {a['partition']}: batch arrived with base sequence {b['base_seq']} (Kafka: 0..2^31-1, "
                      f"successor of {prev[-1]['base_seq'] if prev else None}+{prev[-1]['count'] if prev else None} is "
                      f"{((prev[-1]['base_seq'] + prev[-1]['count']) % 2**31) if prev else None})",
                      {"arrival": a, "previous": prev[-1] if prev else None}))
            poisoned.add(key)
            continue
        prev = seen.setdefault(key, [])
        same = [x for x in prev if x["base_seq"] == b["base_seq"]]
        if same:
            if same[-1]["uids"] != b["uids"]:
                V.append(("sequence_reused_with_different_content", f"partition {a['partition']}: base sequence "
                          f"{b['base_seq']} presented again with different records", {"arrival": a, "earlier": same[-1]}))
        else:
            if prev:
                exp = (prev[-1]["base_seq"] + prev[-1]["count"]) % 2**31
            else:
                exp = P["start_seq"] if P["start_seq"] is not None else 0
            if b["base_seq"] != exp:
                from vf import produce_sim as _ps
                mech = "sequence_gap"
                if _ps.sent_batch_expired_without_leader(H, a["partition"], exp, a["t"]):
                    mech = "sequence_gap_after_sent_batch_expired_without_leader"
                    poisoned.add(key)      # everything after it is rejected by the broker: one finding, not many
                V.append((mech, f"partition {a['partition']}: base sequence {b['base_seq']} arrived, expected {exp}",
                          {"arrival": a, "previous": prev[-1] if prev else None}))
            prev.append({"base_seq": b["base_seq"], "count": b["count"], "uids": b["uids"]})
    # retried arrivals without idempotence: same uid list arriving again
    if not P["idempotent"]:
        seen_lists = {}
        for a in H["arrivals"]:
            for b in a.get("batches") or []:
                k = (a["partition"], tuple(b["uids"]))
                seen_lists[k] = seen_lists.get(k, 0) + 1
        st["retries_observed"] += sum(n - 1 for n in seen_lists.values() if n > 1)
    else:
        # retry of a batch that was never applied (dropped before apply) also counts as a retry
        st["retries_observed"] += sum(1 for a in H["arrivals"] if a.get("error") not in (0, None))
    # ---- one batch of a partition in flight at a time (client boundary)
    by_tp = {}
    for iv in H["inflight"]:
        for tp in iv["tps"]:
            by_tp.setdefault(tp, []).append(iv)
    for tp, ivs in by_tp.items():
        ivs.sort(key=lambda x: x["t_call"])
        for a, b in zip(ivs, ivs[1:]):
            st["inflight_intervals_checked"] += 1
            end = a["t_ret"] if a["t_ret"] is not None else float("inf")
            if b["t_call"] < end - 1e-9:
                V.append(("two_batches_of_partition_in_flight", f"partition {tp}: produce request sent at {b['t_call']:.4f} "
                          f"while the one sent at {a['t_call']:.4f} was still outstanding (returned {a['t_ret']})",
                          {"first": a, "second": b}))
    # ---- ... and at the connection: no Produce request for a partition is written behind an unanswered one for the
    # same partition on the same open connection (broker-side tap, vf.cluster.frame_queued)
    st["produce_replies_lost_on_open_connection"] = H.get("lost_produce_replies", 0)
    for ov in H.get("conn_overlaps", []):
        V.append(("two_batches_of_partition_in_flight_on_one_connection", f"partitions {ov['partitions']}: Produce corr="
                  f"{ov['second_corr']} reached broker {ov['node']} on connection {ov['link']} while Produce corr="
                  f"{ov['first_corr']} ({ov['first_fate']}) on the same open connection was still unanswered", {"overlap": ov}))
    if P["start_seq"] is not None and P["start_seq"] > 2**31 - 100:
        st["wrap_histories"] = 1
    return V, st, sig([P["idempotent"], P["acks"], sigparts])


def nontrivial(H, st):
    if st["retries_observed"] < 1:
        return False
    per = {}
    for a in H["arrivals"]:
        if a.get("appended"):
            per[a["partition"]] = per.get(a["partition"], 0) + 1
    return any(n >= 2 for n in per.values())


def shards(tier, seed):
    n = 16
    per = 40 if tier == "quick" else 600
    return [{"seed": seed * 7919 + s, "n": per, "timeout_s": 3000, "shard_index": s} for s in range(n)]


def _pinned(prop, res):
    import json as _json
    import os as _os
    with open(_os.path.join(_os.path.dirname(_os.path.abspath(__file__)), "produce_pinned.json")) as f:
        out = [dict(e["params"]) for e in _json.load(f) if prop in e["props"]]
    res["counters"]["pinned_histories"] = len(out)
    return out


def run_shard(params):
    repoimport.use_repo()
    from vf import produce_sim
    from vf.simharness import quiet_logging
    quiet_logging()
    res = {"evaluations": 0, "nontrivial": [], "violations": [], "inconclusive": [], "counters": {}, "sets": {},
           "samples": []}
    rng = random.Random(params["seed"])
    hits = set()
    todo = [produce_sim.gen_params(rng, i, params.get("tier", "quick"), params.get("force")) for i in range(params["n"])]
    if params.get("shard_index") == 0:
        todo += _pinned("C01", res)
    for P in todo:
        H = produce_sim.run_history(P)
        res["evaluations"] += 1
        if H["errors"] or H["sim_errors"]:
            res["inconclusive"].append(f"history seed={P['seed']}: {H['errors'][:1]} {str(H['sim_errors'][:1])[:300]}")
            continue
        V, st, s = judge(H)
        for k, v in st.items():
            res["counters"][k] = res["counters"].get(k, 0) + v
        hits.update(H["fault_hits"])
        if nontrivial(H, st):
            res["nontrivial"].append(s)
        seen = set()
        for mech, what, detail in V:
            if mech in seen:
                continue
            seen.add(mech)
            res["violations"].append({"mechanism": mech, "what": what,
                                      "witness": {"params": P, "detail": detail}})
        if len(res["samples"]) < 1 and nontrivial(H, st):
            res["samples"].append({"params": P, "arrivals": [
                {k: a.get(k) for k in ("t", "partition", "error", "seq_verdict", "base_offset")} for a in H["arrivals"][:12]],
                "fault_hits": H["fault_hits"]})
    res["sets"]["fault_kinds_hit"] = sorted(hits)
    return res


def replay(witness):
    repoimport.use_repo()
    from vf import produce_sim
    from vf.simharness import quiet_logging
    quiet_logging()
    H = produce_sim.run_history(witness["params"])
    V, st, s = judge(H)
    return {"evaluations": 1, "violations": [{"mechanism": m, "what": w, "witness": {"params": witness["params"], "detail": d}}
                                              for m, w, d in V]}
