"""C10 - decoding untrusted bytes is memory-safe, terminating and fails cleanly.

Shard = a slice of a deterministic case list (valid corpus x mutations).  run_shard writes the
slice to a file and starts two "servers" over it:

  C   /venv/bin/python with the AddressSanitizer build of the extension (vf.extbuild "asan",
      LD_PRELOAD libasan, PYTHONMALLOC=malloc so every bytes object is an ASan heap block),
  Py  /venv/bin/python with AIOKAFKA_NO_EXTENSIONS=1.

A server imports the library once and then FORKS runners.  A runner walks the case list, writing
"S <i>" before and "R <i> <json>" after each case to a pipe.  The server is the monitor:
  * runner dies  -> the case announced last and not finished is the culprit; its ASan log
    (log_path.<pid>, symbolize=0; frames are symbolized once per distinct pc by the shard) is
    attached; a new runner continues with the next case (a fork, not a new interpreter);
  * runner silent for 10 s (or resident set > 1.5 GiB) -> killed; that case is re-run ALONE with a
    30 s limit; only if it again does not finish it is a non-termination finding (C: SIGABRT makes
    ASan print the native stack; Py: faulthandler dumps the Python stack);
  * a runner that dies without having announced a case, or a server that dies, is inconclusive.

Refuting outcomes: ASan report with a frame inside the extension, death by signal, SystemError,
MemoryError, confirmed non-termination, validate_crc() == True on a batch with one changed byte
inside the checksummed region / CRC field.  Everything else (records, CorruptRecordException,
ValueError, struct.error, ...) is allowed.  C-vs-Python outcome divergence is an observation.
"""
from __future__ import annotations

import json
import os
import pickle
import random
import re
import select
import shutil
import signal
import struct
import subprocess
import sys
import tempfile
import time
import traceback
from concurrent.futures import ThreadPoolExecutor

from vf import refrecords as R

PROPERTY_ID = "C10"
LEVEL = "exploration"
RULE = (
    "Corpus: reference-encoded valid buffers (v2 with codecs none/gzip/snappy(xerial,raw)/lz4/zstd, transactional, "
    "control, LogAppendTime; v1 and v0 message sets plain and as compressed wrappers), 1-5 records, headers, "
    "multi-byte varints; content drawn from (VERIF_SEED, group).  Mutations enumerated per corpus entry: every "
    "truncation point (as is, and with the length field and CRC made consistent so that the parser is reached), "
    "every byte position x {00, FF, ^80, +1, -1}, every length/count/attribute/varint field located by the "
    "reference parser x {-2^31, -2, -1, 0, 1, v-1, v+1, 2^31-1, 2^63-1, -2^63, overlong and unterminated varints} "
    "(raw splice, and with outer length+CRC repaired), the same inside re-compressed inner payloads, batches "
    "shorter than their header placed at the very end of an exactly-sized allocation and in front of a PROT_NONE "
    "guard page, concatenations mixing magic values, random strings with and without a plausible header.  Every "
    "input goes to the entry points MemoryRecords (fetcher-style loop, with and without check_crcs), "
    "DefaultRecordBatch(buf) and LegacyRecordBatch(buf, magic), under the ASan build and under the pure-Python "
    "codec.  evaluations = (input, entry point, flags) cases finished or attributed under the ASan build.  "
    "Non-trivial = the input is not a valid buffer; distinct = distinct (family, corpus recipe, entry point, "
    "flags, mutated field class or position class, C outcome class, Python outcome class)."
)
ASSUMPTIONS = [
    "ASan only (no UBSan: hton.pxd performs deliberate unaligned stores).  ASan cannot see an over-read that stays "
    "inside the enclosing bytes object (next batch, or the NUL byte CPython appends); exactly-sized ctypes "
    "allocations and a guard page are used for the constructors that accept any buffer, MemoryRecords only accepts "
    "bytes.  A clean run means 'no report on N inputs', not a proof of memory safety.",
    "Compression libraries (zlib, cramjam) are outside the property: an ASan report without any frame in the "
    "extension is recorded as an observation, not a violation.",
    "Non-termination is decided by the protocol above on CPU time (10 CPU-s of silence in the batch run, then 30 CPU-s alone, then 150 CPU-s alone), never by a single wall-clock timeout; a case that finishes in the last run is counted as slow_cases_that_finished; "
    "a decoder that allocates > 1.5 GiB for an input of a few hundred bytes while looping is reported as "
    "non-termination with allocation (it would end in MemoryError, which the property also forbids).",
    "Outcome differences between the compiled and the pure-Python decoder that are not themselves refuting are "
    "recorded in the counters (div:*), not reported.",
]
REQUIRED_COUNTERS = [
    "asan_instrumented_cases", "py_cases", "entry:memrec", "entry:default", "entry:legacy", "family:trunc",
    "family:trunc_fix", "family:byte", "family:field", "family:inner", "family:short", "family:concat",
    "family:random", "crc_clause_checks:C", "crc_clause_checks:Py", "flavor:exact", "flavor:guard",
]

PY = "/venv/bin/python"
HERE = os.path.dirname(os.path.dirname(os.path.dirname(os.path.abspath(__file__))))
SILENT_LIMIT = 10.0
ALONE_LIMIT = 30.0
LONG_LIMIT = 150.0         # CPU seconds of the last resort run that decides 'does not terminate'
RSS_CAP_KB = 1536 * 1024

# --------------------------------------------------------------------------- corpus

RECIPES = (
    [dict(magic=2, codec=c, variant="plain", framing="xerial") for c in (0, 1, 2, 3, 4)]
    + [dict(magic=2, codec=2, variant="plain", framing="raw"),
       dict(magic=2, codec=0, variant="txn", framing="xerial"),
       dict(magic=2, codec=0, variant="control", framing="xerial"),
       dict(magic=2, codec=1, variant="lat", framing="xerial")]
    + [dict(magic=1, codec=c, variant="plain", framing="xerial") for c in (0, 1, 2, 3)]
    + [dict(magic=1, codec=2, variant="plain", framing="raw"), dict(magic=1, codec=1, variant="lat", framing="xerial")]
    + [dict(magic=0, codec=c, variant="plain", framing="xerial") for c in (0, 1, 2)]
)


def recipe_name(r):
    return f"v{r['magic']}:c{r['codec']}{'r' if r['framing'] == 'raw' else ''}:{r['variant']}"


def make_valid(recipe, rng, small):
    magic, codec = recipe["magic"], recipe["codec"]
    n = rng.randint(1, 3 if small else 5)
    recs = []
    base_ts = 1_600_000_000_000
    for i in range(n):
        key = rng.choice([None, b"", b"k", rng.randbytes(rng.randint(1, 12))])
        vmax = 16 if small else 40
        value = rng.choice([None, b"", rng.randbytes(rng.randint(1, vmax)), rng.randbytes(rng.randint(1, vmax))])
        if i == 0 and rng.random() < (0.3 if small else 0.5):
            value = rng.randbytes(rng.choice([64, 70, 130]))        # 2-byte length varint
        headers = []
        if magic == 2 and rng.random() < 0.6:
            headers = [(rng.choice(["h", "hdr", "é"]), rng.choice([None, b"", b"hv"])) for _ in range(rng.randint(1, 2))]
        ts = base_ts + (0 if i == 0 else rng.choice([1, 70, 9000, 2 ** 33]))
        recs.append((None, ts, key, value, headers))
    base = rng.choice([0, 5, 2 ** 33])
    if magic == 2:
        v = recipe["variant"]
        if v == "control":
            return R.encode_control_batch(base, 7, 1, rng.random() < 0.5, base_ts)
        kw = {}
        if v == "txn":
            kw = dict(pid=9, epoch=2, base_seq=4, transactional=True)
        if v == "lat":
            kw = dict(log_append_time=base_ts + 5)
        return R.encode_batch_v2(recs, base_offset=base, codec=codec, snappy_framing=recipe["framing"], **kw)
    lat = base_ts + 5 if recipe["variant"] == "lat" else None
    return R.encode_message_set(recs, magic, codec, base_offset=base, log_append_time=lat,
                                snappy_framing=recipe["framing"])


INT32_VALUES = [-2 ** 31, -2, -1, 0, 1, 2 ** 31 - 1]
VARINT_VALUES = [-2 ** 31, -2, -1, 0, 1, 2 ** 31 - 1, 2 ** 63 - 1, -2 ** 63,
                 # lengths for which `pos + size` (int64) or a 32-bit narrowing wraps around: a bounds check written as an
                 # addition passes them
                 2 ** 63 - 2, 2 ** 63 - 21, 2 ** 63 - 35, 2 ** 63 - 41, 2 ** 63 - 65, 2 ** 63 - 101, 2 ** 63 - 201,
                 2 ** 31, 2 ** 32 - 1, 2 ** 32, 2 ** 32 + 5, 2 ** 62]
VARINT_RAW = [b"\xff" * 9 + b"\x01", b"\xff" * 10 + b"\x01", b"\x80", b"\xff\xff\xff\xff\x0f", b"\x80\x80\x80\x80\x80\x80"]


def _fix_outer(buf: bytearray, magic) -> bytes:
    """Make the size field and the CRC of a single top-level batch consistent with its bytes."""
    if len(buf) >= 12:
        struct.pack_into(">i", buf, 8, len(buf) - 12)
    if magic >= 2:
        if len(buf) >= 21:
            struct.pack_into(">I", buf, 17, R.crc32c(buf[21:]))
    elif len(buf) >= 16:
        struct.pack_into(">I", buf, 12, R.crc32(buf[16:]))
    return bytes(buf)


def _field_values(f):
    if f.kind == "varint":
        vals = [("v", v) for v in VARINT_VALUES + [f.value - 1, f.value + 1]] + [("raw", r) for r in VARINT_RAW]
    elif f.kind == "int32":
        # besides the extremes: lengths that make a length-driven walk stall (-12 = minus the log overhead),
        # step backwards by a little, or return exactly to the start of the same / the previous message
        vals = [("v", v) for v in INT32_VALUES + [f.value - 1, f.value + 1, -12, -11, -13, -14, -26, -34,
                                                  -(f.value + 12), -(f.value + 24), -(2 * f.value + 24)]]
    elif f.kind == "int16":
        vals = [("v", v) for v in (0, 1, 2, 3, 4, 5, 6, 7, 8, 0x10, 0x20, 0x25, 0x3f, -1, 0x7fff, f.value ^ 0x20,
                                   f.value ^ 0x08)]
    else:  # int8 attributes
        vals = [("v", v) for v in (0, 1, 2, 3, 4, 5, 7, 8, 9, 0x0b, -1, 0x7f, f.value ^ 0x08)]
    out = []
    seen = set()
    for kind, v in vals:
        if kind == "raw":
            enc = v
        elif f.kind == "varint":
            enc = R.encode_varint(v)
        else:
            fmt = {"int32": ">i", "int16": ">h", "int8": ">b"}[f.kind]
            lo, hi = {"int32": (-2 ** 31, 2 ** 31 - 1), "int16": (-2 ** 15, 2 ** 15 - 1), "int8": (-128, 127)}[f.kind]
            if not lo <= v <= hi:
                continue
            enc = struct.pack(fmt, v)
        if enc in seen:
            continue
        seen.add(enc)
        label = v.hex() if kind == "raw" else str(v)
        out.append((label, enc))
    return out


def _value_class(label, f):
    try:
        v = int(label)
    except ValueError:
        return "rawvarint"
    if v < -1:
        return "neg"
    if v in (-1, 0, 1):
        return str(v)
    if abs(v - f.value) == 1:
        return "pm1"
    return "huge"


def _field_class(name):
    return re.sub(r"\d+", "#", name)


class Case:
    __slots__ = ("family", "recipe", "entry", "crc", "flavor", "buf", "magic", "note", "crc_expect", "sigkey")

    def __init__(self, family, recipe, entry, crc, flavor, buf, magic, note, crc_expect=None, sigkey=""):
        self.family, self.recipe, self.entry, self.crc, self.flavor = family, recipe, entry, crc, flavor
        self.buf, self.magic, self.note, self.crc_expect, self.sigkey = buf, magic, note, crc_expect, sigkey

    def wire(self):
        return (self.entry, self.crc, self.flavor, self.buf, self.magic)


def gen_cases(seed, group, tier):
    """The full deterministic case list of one content group."""
    rng = random.Random(f"C10/{seed}/{group}")
    small = tier == "quick"
    cases: list[Case] = []
    add = cases.append
    valids = []
    for recipe in RECIPES:
        name = recipe_name(recipe)
        buf = make_valid(recipe, rng, small)
        magic = recipe["magic"]
        direct = "default" if magic >= 2 else "legacy"
        batches = R.split_batches(buf)
        first_len = batches[0][1]
        single = buf[:first_len]                 # one top-level batch (for the direct constructors / field work)
        valids.append((name, recipe, buf, single))
        add(Case("valid", name, "memrec", 1, "bytes", buf, magic, "valid", sigkey="valid"))
        add(Case("valid", name, direct, 1, "exact", single, magic, "valid", sigkey="valid"))
        # ---- truncations
        for n in range(len(buf)):
            add(Case("trunc", name, "memrec", n & 1, "bytes", buf[:n], magic, f"cut@{n}", sigkey=_pos_class(n, magic)))
        for n in range(len(single)):
            add(Case("trunc", name, direct, (n >> 1) & 1, "exact", single[:n], magic, f"cut@{n}",
                     sigkey=_pos_class(n, magic)))
            if n >= 12:
                fixed = _fix_outer(bytearray(single[:n]), magic)
                add(Case("trunc_fix", name, "memrec", n & 1, "bytes", fixed, magic, f"cut@{n}+fixlen+fixcrc",
                         sigkey=_pos_class(n, magic)))
                add(Case("trunc_fix", name, direct, n & 1, "exact", fixed, magic, f"cut@{n}+fixlen+fixcrc",
                         sigkey=_pos_class(n, magic)))
        # ---- single byte mutations (over the whole buffer; CRC clause where applicable)
        for pos in range(len(buf)):
            bidx, local = _locate(batches, pos)
            bmagic = batches[bidx][2] if bidx is not None else magic
            crc_start = 17 if bmagic >= 2 else 12
            in_crc = bidx is not None and local >= crc_start
            pats = ((0x00, "00"), (0xFF, "ff"), (buf[pos] ^ 0x80, "^80"), ((buf[pos] + 1) & 0xFF, "+1"),
                    ((buf[pos] - 1) & 0xFF, "-1"))
            if small and pos >= 61:
                pats = rng.sample(pats, 3)
            for newb, pname in pats:
                if newb == buf[pos]:
                    continue
                mb = bytearray(buf)
                mb[pos] = newb
                mb = bytes(mb)
                sk = _pos_class(local if bidx is not None else pos, bmagic) + pname
                add(Case("byte", name, "memrec", 1, "bytes", mb, magic, f"byte@{pos}={pname}",
                         crc_expect=bidx if in_crc else None, sigkey=sk))
                add(Case("byte", name, "memrec", 0, "bytes", mb, magic, f"byte@{pos}={pname}", sigkey=sk))
                if pos < len(single) and (pos + newb) % 3 == 0:
                    add(Case("byte", name, direct, 0, "exact", mb[:len(single)], magic, f"byte@{pos}={pname}", sigkey=sk))
        # ---- located fields
        try:
            fields, inner = R.locate_fields(single)
        except R.RefFormatError as e:      # cannot happen for reference-built buffers
            raise RuntimeError(f"reference locator failed on its own encoding {name}: {e}")
        for f in fields:
            for label, enc in _field_values(f):
                sk = _field_class(f.name) + ":" + _value_class(label, f)
                if f.container == "outer":
                    spliced = single[:f.pos] + enc + single[f.pos + f.size:]
                    note = f"{f.name}={label}"
                    add(Case("field", name, "memrec", 0, "bytes", spliced, magic, note, sigkey=sk))
                    add(Case("field", name, direct, 0, "exact", spliced, magic, note, sigkey=sk))
                    if f.name != "size":
                        fixed = _fix_outer(bytearray(spliced), magic)
                        add(Case("field", name, "memrec", 1, "bytes", fixed, magic, note + "+fixlen+fixcrc", sigkey=sk + "F"))
                        add(Case("field", name, direct, 1, "exact", fixed, magic, note + "+fixlen+fixcrc", sigkey=sk + "F"))
                else:
                    new_inner = inner[:f.pos] + enc + inner[f.pos + f.size:]
                    try:
                        wrapped = R.rewrap_inner(single, new_inner)
                    except Exception:
                        continue
                    note = f"inner.{f.name}={label}"
                    add(Case("inner", name, "memrec", 1, "bytes", wrapped, magic, note, sigkey=sk))
                    add(Case("inner", name, direct, 0, "exact", wrapped, magic, note, sigkey=sk))
        if inner is not None:
            for n in sorted({0, 1, len(inner) // 2, len(inner) - 1} | set(range(max(0, len(inner) - 12), len(inner)))):
                try:
                    wrapped = R.rewrap_inner(single, inner[:n])
                except Exception:
                    continue
                add(Case("inner", name, "memrec", 1, "bytes", wrapped, magic, f"inner.cut@{n}", sigkey="innercut"))
                add(Case("inner", name, direct, 0, "exact", wrapped, magic, f"inner.cut@{n}", sigkey="innercut"))
    # ---- batches shorter than their header, at the very end of the allocation
    for magic in (0, 1, 2):
        proto = [v for v in valids if v[1]["magic"] == magic and v[1]["codec"] == 0][0][3]
        direct = "default" if magic >= 2 else "legacy"
        for n in range(0, 76):
            piece = bytearray(proto[:n].ljust(n, b"\x00"))
            variants = [("asis", bytes(piece))]
            if n >= 12:
                variants.append(("fixlen", _fix_outer(bytearray(piece), magic)))
                if n >= 17:
                    p2 = bytearray(piece)
                    struct.pack_into(">i", p2, 8, n - 12)
                    variants.append(("fixlen_only", bytes(p2)))
            for vname, b in variants:
                sk = f"{vname}:{_pos_class(n, magic)}"
                for crc in (0, 1):
                    add(Case("short", f"v{magic}", "memrec", crc, "bytes", b, magic, f"short{n}:{vname}", sigkey=sk))
                    add(Case("short", f"v{magic}", direct, crc, "exact", b, magic, f"short{n}:{vname}", sigkey=sk))
                if not small or n in (0, 1, 13, 25, 26, 33, 34, 60, 61, 62):
                    add(Case("short", f"v{magic}", direct, 0, "guard", b, magic, f"short{n}:{vname}", sigkey=sk + "G"))
                if magic < 2:
                    add(Case("short", f"v{magic}", "legacy", 0, "exact", b, 1 - magic, f"short{n}:{vname}:othermagic",
                             sigkey=sk + "O"))
    # ---- concatenations with differing magic
    pool = [(nm, rc, b) for nm, rc, b, _s in valids]
    mutated_pool = [c for c in cases if c.family in ("field", "trunc_fix") and c.entry == "memrec"]
    for i in range(150 if small else 600):
        a = rng.choice(pool)
        b = rng.choice([p for p in pool if p[1]["magic"] != a[1]["magic"]])
        parts = [a[2], b[2]]
        label = f"{a[0]}+{b[0]}"
        if rng.random() < 0.5:
            m = rng.choice(mutated_pool)
            parts.insert(rng.randint(0, 2), m.buf)
            label += f"+mut({m.recipe}:{m.note})"
        if rng.random() < 0.3:
            c = rng.choice(pool)
            parts.append(c[2][:rng.randint(1, len(c[2]) - 1)])
            label += "+partial"
        add(Case("concat", "mixed", "memrec", i & 1, "bytes", b"".join(parts), a[1]["magic"], label,
                 sigkey=f"{a[1]['magic']}{b[1]['magic']}:{len(parts)}"))
    # ---- random strings
    for i in range(400 if small else 1500):
        n = rng.choice([0, 1, 11, 12, 13, 16, 17, 25, 26, 33, 34, 60, 61, 62, 100, 200])
        b = bytearray(rng.randbytes(n))
        kind = rng.choice(["raw", "header", "header"])
        magic = rng.choice([0, 1, 2])
        if kind == "header" and n >= 17:
            struct.pack_into(">i", b, 8, n - 12)
            b[16] = magic
            if rng.random() < 0.5:
                b = bytearray(_fix_outer(b, magic))
        b = bytes(b)
        add(Case("random", kind, "memrec", i & 1, "bytes", b, magic, f"random{n}", sigkey=f"{n}"))
        add(Case("random", kind, "default" if magic >= 2 else "legacy", i & 1, "exact", b, magic, f"random{n}",
                 sigkey=f"{n}"))
    if not small:
        # guard-page flavor for every direct-constructor case of the cheap families
        extra = [Case(c.family, c.recipe, c.entry, c.crc, "guard", c.buf, c.magic, c.note, None, c.sigkey + "G")
                 for c in cases if c.entry != "memrec" and c.family in ("trunc", "trunc_fix", "field", "inner")]
        cases.extend(extra)
    return cases


def _pos_class(pos, magic):
    if pos < 8:
        return "offset"
    if pos < 12:
        return "size"
    if magic >= 2:
        for lim, nm in ((16, "ple"), (17, "magic"), (21, "crc"), (23, "attr"), (27, "lod"), (43, "ts"), (57, "prod"),
                        (61, "count")):
            if pos < lim:
                return nm
        return "records"
    for lim, nm in ((16, "crc"), (17, "magic"), (18, "attr")):
        if pos < lim:
            return nm
    if magic == 1 and pos < 26:
        return "ts"
    return "kv"


def _locate(batches, pos):
    for i, (start, total, _m) in enumerate(batches):
        if start <= pos < start + total:
            return i, pos - start
    return None, None


# --------------------------------------------------------------------------- runner (forked inside a server)

class _Lib:
    def __init__(self, impl, ext_dir):
        from vf import extbuild, repoimport
        self.impl = impl
        if impl == "C":
            extbuild.install_finder(ext_dir)
        elif not os.environ.get("AIOKAFKA_NO_EXTENSIONS"):
            raise RuntimeError("Py server needs AIOKAFKA_NO_EXTENSIONS=1")
        repoimport.use_repo()
        from aiokafka.record import default_records as dr, legacy_records as lr, memory_records as mr
        from aiokafka.record.control_record import ControlRecord
        if impl == "C":
            extbuild.assert_served(ext_dir)
        for cls in (dr.DefaultRecordBatch, lr.LegacyRecordBatch, mr.MemoryRecords):
            compiled = cls.__module__.startswith("aiokafka.record._crecords")
            if compiled != (impl == "C"):
                raise RuntimeError(f"{impl} server got {cls.__module__}.{cls.__name__}")
        self.Default, self.Legacy, self.Memory, self.Control = (dr.DefaultRecordBatch, lr.LegacyRecordBatch,
                                                                 mr.MemoryRecords, ControlRecord)
        import ctypes
        import mmap
        self.ctypes, self.mmap = ctypes, mmap
        self.libc = ctypes.CDLL(None, use_errno=True)
        self.page = mmap.PAGESIZE

    def flavored(self, buf, flavor):
        if self.impl != "C" or flavor == "bytes":
            return buf
        n = len(buf)
        if flavor == "exact":
            if n <= 16:
                return buf
            return (self.ctypes.c_ubyte * n).from_buffer_copy(buf)
        # guard: the input ends exactly where a PROT_NONE page begins
        pages = (n + self.page - 1) // self.page + 1
        mm = self.mmap.mmap(-1, pages * self.page)
        addr = self.ctypes.addressof(self.ctypes.c_char.from_buffer(mm))
        end = (pages - 1) * self.page
        mm[end - n:end] = buf
        if self.libc.mprotect(self.ctypes.c_void_p(addr + end), self.ctypes.c_size_t(self.page), 0) != 0:
            raise OSError("mprotect failed")
        return memoryview(mm)[end - n:end]

    def consume(self, batch, out):
        n = 0
        for r in batch:
            n += 1
            (r.offset, r.timestamp, r.timestamp_type, r.key, r.value, r.checksum)
            for h in r.headers:
                tuple(h)
        out["n"] += n

    def run(self, entry, crc, flavor, buf, magic):
        out = {"n": 0, "b": 0, "crc": []}
        if entry == "memrec":
            m = self.Memory(buf)
            m.size_in_bytes()
            while m.has_next():
                b = m.next_batch()
                out["b"] += 1
                if crc:
                    ok = b.validate_crc()
                    out["crc"].append(bool(ok))
                    if not ok:
                        out["stop"] = "crc"
                        break
                (b.next_offset, b.is_transactional, b.producer_id)
                if b.is_control_batch:
                    rec = next(b)                       # fetcher._contains_abort_marker
                    self.Control.parse(rec.key)
                    out["n"] += 1
                    continue
                self.consume(b, out)
            return out
        data = self.flavored(buf, flavor)
        if entry == "default":
            b = self.Default(data)
            (b.base_offset, b.magic, b.crc, b.attributes, b.compression_type, b.timestamp_type, b.is_transactional,
             b.is_control_batch, b.last_offset_delta, b.first_timestamp, b.max_timestamp, b.producer_id,
             b.producer_epoch, b.base_sequence, b.next_offset)
        else:
            b = self.Legacy(data, magic)
            b.next_offset
        out["b"] = 1
        if crc:
            out["crc"].append(bool(b.validate_crc()))
        self.consume(b, out)
        return out


def _exc_outcome(e):
    tb = traceback.extract_tb(e.__traceback__)
    frames = []
    for f in tb:
        fn = f.filename.replace("\\", "/")
        if "/aiokafka/" in fn or fn.endswith(".pyx"):
            frames.append((os.path.basename(fn), f.name))
    return {"exc": type(e).__name__, "msg": str(e)[:160], "tb": frames[-4:]}


def runner_loop(lib, cases, start, wfd, alone=False, dump_file=None, logbase=None):
    w = os.fdopen(wfd, "wb", buffering=0)
    if dump_file is not None:
        import faulthandler
        f = open(dump_file, "w")
        faulthandler.dump_traceback_later(3, repeat=False, file=f)
    idxs = [start] if alone else range(start, len(cases))
    logpath = f"{logbase}.{os.getpid()}" if logbase else None
    logpos = 0
    for i in idxs:
        w.write(b"S %d\n" % i)
        try:
            res = lib.run(*cases[i])
        except Exception as e:
            res = _exc_outcome(e)
        if logpath is not None:
            # recover mode: a bad access was reported into the log and execution went on
            try:
                size = os.stat(logpath).st_size
            except FileNotFoundError:
                size = 0
            if size > logpos:
                with open(logpath, errors="replace") as lf:
                    lf.seek(logpos)
                    res["asan"] = lf.read(40000)
                logpos = size
        w.write(b"R %d %s\n" % (i, json.dumps(res, separators=(",", ":")).encode()))
    w.close()


def _cpu_s(pid):
    """CPU seconds (user + system) the process has consumed so far; -1 if it is gone."""
    try:
        with open(f"/proc/{pid}/stat") as f:
            rest = f.read().rsplit(")", 1)[1].split()
        return (int(rest[11]) + int(rest[12])) / os.sysconf("SC_CLK_TCK")
    except Exception:
        return -1.0


def _rss_kb(pid):
    try:
        with open(f"/proc/{pid}/statm") as f:
            return int(f.read().split()[1]) * (os.sysconf("SC_PAGE_SIZE") // 1024)
    except Exception:
        return 0


def _read_asan_log(logbase, pid):
    path = f"{logbase}.{pid}"
    try:
        with open(path, errors="replace") as f:
            text = f.read()
        os.unlink(path)
        # the fatal report is the last one (earlier, non-fatal ones were already attributed by the runner)
        cut = text.rfind("=================================================================")
        return text[max(cut, 0):][:20000]
    except FileNotFoundError:
        return ""


class Server:
    def __init__(self, impl, ext_dir, cases, logbase):
        self.impl, self.cases, self.logbase = impl, cases, logbase
        self.lib = _Lib(impl, ext_dir)
        self.results = {}
        self.stats = {"forks": 0, "silent_kills": 0, "rss_kills": 0, "alone_runs": 0, "unattributed_deaths": 0,
                      "report_storms": 0}
        self.problems = []

    def spawn(self, start, alone=False, dump_file=None):
        r, w = os.pipe()
        pid = os.fork()
        if pid == 0:
            try:
                os.close(r)
                signal.signal(signal.SIGINT, signal.SIG_DFL)
                runner_loop(self.lib, self.cases, start, w, alone, dump_file, self.logbase if self.impl == "C" else None)
            except BaseException:
                traceback.print_exc()
                os._exit(3)
            os._exit(0)
        os.close(w)
        self.stats["forks"] += 1
        return pid, r

    def _logsize(self, pid):
        try:
            return os.stat(f"{self.logbase}.{pid}").st_size
        except OSError:
            return 0

    def monitor(self, pid, rfd, silent_limit):
        """-> (status, started_unfinished_index or None, reason); reason in exit|silent|rss|storm.

        storm: in recover mode a bad access inside a loop is reported on every iteration (each report is
        slow), which would look like a hang; when the ASan log grows by > 64 KiB within one case the
        runner is killed and the FIRST report of that case is the outcome."""
        buf = b""
        started = None
        last = time.monotonic()
        last_cpu = max(0.0, _cpu_s(pid))
        reason = "exit"
        self.storm_text = ""
        log_base = self._logsize(pid)
        while True:
            ready, _, _ = select.select([rfd], [], [], 0.2)
            now = time.monotonic()
            if ready:
                chunk = os.read(rfd, 1 << 16)
                if not chunk:
                    break
                last = now
                last_cpu = max(last_cpu, _cpu_s(pid))
                buf += chunk
                *lines, buf = buf.split(b"\n")
                for ln in lines:
                    if ln[:1] == b"S":
                        started = int(ln[2:])
                    elif ln[:1] == b"R":
                        _r, idx, payload = ln.split(b" ", 2)
                        self.results[int(idx)] = json.loads(payload)
                        started = None
                if lines:
                    log_base = self._logsize(pid)
                continue
            if self.impl == "C" and started is not None and self._logsize(pid) - log_base > 65536:
                reason = "storm"
                try:
                    with open(f"{self.logbase}.{pid}", errors="replace") as f:
                        f.seek(log_base)
                        self.storm_text = f.read(60000)
                except OSError:
                    pass
                break
            # "silent" is decided on the CPU time the runner burned since its last output, not on wall-clock time: a
            # decoder that loops forever burns CPU, a runner starved by a loaded machine does not
            cpu = _cpu_s(pid)
            if cpu >= 0 and cpu - last_cpu > silent_limit:
                reason = "silent"
                break
            if now - last > 60 * silent_limit:
                reason = "starved"          # generous wall-clock watchdog: neither a finding nor a verdict
                break
            if started is not None and _rss_kb(pid) > RSS_CAP_KB:
                reason = "rss"
                break
        status = None
        if reason != "exit":
            if self.impl == "C" and silent_limit >= ALONE_LIMIT - 1 and reason != "storm":
                os.kill(pid, signal.SIGABRT)           # ASan (handle_abort=1) prints the native stack
                for _ in range(100):
                    p, status = os.waitpid(pid, os.WNOHANG)
                    if p:
                        break
                    time.sleep(0.1)
                else:
                    status = None
            if status is None:
                try:
                    os.kill(pid, signal.SIGKILL)
                except ProcessLookupError:
                    pass
                _p, status = os.waitpid(pid, 0)
        else:
            _p, status = os.waitpid(pid, 0)
        os.close(rfd)
        return status, started, reason

    def run_alone(self, idx):
        self.stats["alone_runs"] += 1
        dump = f"{self.logbase}.dump.{idx}"
        pid, rfd = self.spawn(idx, alone=True, dump_file=dump)
        t0 = time.monotonic()
        status, started, reason = self.monitor(pid, rfd, ALONE_LIMIT)
        log = _read_asan_log(self.logbase, pid)
        if reason == "silent" and self.stats.get("hangs_confirmed:" + self.cases[idx][0], 0) >= 2:
            # two cases of this entry point already burned the whole last-resort budget in this run: the tree is
            # violating anyway, do not spend another five minutes per case (keeps a shard of a broken tree inside its timeout)
            self.stats["long_runs_skipped"] = self.stats.get("long_runs_skipped", 0) + 1
        elif reason == "silent":
            # 30 CPU-seconds alone is still no proof: a 200-byte snappy stream that declares a 4 GB result makes the
            # compression library allocate that much, which under ASan costs ~25 s of (mostly system) CPU time and more on
            # a loaded machine.  The verdict "does not terminate" is only given after a last run with ten times the budget.
            self.stats["long_runs"] = self.stats.get("long_runs", 0) + 1
            try:
                os.unlink(dump)
            except FileNotFoundError:
                pass
            pid, rfd = self.spawn(idx, alone=True, dump_file=dump)
            status, started, reason = self.monitor(pid, rfd, LONG_LIMIT)
            log = _read_asan_log(self.logbase, pid)
            if reason == "exit" and idx in self.results:
                self.stats["slow_cases_that_finished"] = self.stats.get("slow_cases_that_finished", 0) + 1
            elif reason in ("silent", "rss"):
                k = "hangs_confirmed:" + self.cases[idx][0]
                self.stats[k] = self.stats.get(k, 0) + 1
        pystack = ""
        try:
            with open(dump) as f:
                pystack = f.read(6000)
            os.unlink(dump)
        except FileNotFoundError:
            pass
        if idx in self.results and reason == "exit":
            self.results[idx]["slow_s"] = round(time.monotonic() - t0, 2)
            return
        if reason == "exit":
            self.results[idx] = self.death(status, log)
            return
        if reason == "starved":
            self.stats["starved_runs"] = self.stats.get("starved_runs", 0) + 1
            self.problems.append(f"case {idx}: runner got no CPU for {60 * ALONE_LIMIT:.0f}s of wall-clock time (machine overloaded)")
            return
        if reason == "storm":
            self.results[idx] = {"died": "storm", "asan": self.storm_text}
            return
        self.results[idx] = {"hang": reason, "asan": log[:6000], "pystack": pystack,
                             "after_s": round(time.monotonic() - t0, 1)}

    @staticmethod
    def death(status, log):
        if os.WIFSIGNALED(status):
            return {"died": "signal", "sig": os.WTERMSIG(status), "asan": log[:8000]}
        return {"died": "exit", "code": os.WEXITSTATUS(status), "asan": log[:8000]}

    def run(self):
        i = 0
        n = len(self.cases)
        barren = 0
        while i < n:
            pid, rfd = self.spawn(i)
            status, started, reason = self.monitor(pid, rfd, SILENT_LIMIT)
            log = _read_asan_log(self.logbase, pid)
            done_upto = max([k for k in self.results if k >= i], default=i - 1)
            if reason == "starved":
                # no CPU for minutes: the machine is overloaded; resume behind what was finished, give up after 3 times
                self.stats["starved_runs"] = self.stats.get("starved_runs", 0) + 1
                if self.stats["starved_runs"] > 3:
                    self.problems.append(f"runner starved of CPU {self.stats['starved_runs']} times (last after case {done_upto})")
                    break
                i = done_upto + 1
                continue
            if reason == "exit" and started is None:
                if os.WIFEXITED(status) and os.WEXITSTATUS(status) == 0:
                    break
                self.stats["unattributed_deaths"] += 1
                barren += 1
                self.problems.append(f"runner died outside any case (status {status}) after case {done_upto}: {log[:400]}")
                if barren > 3:
                    break
                i = done_upto + 1
                continue
            if started is None:      # silent/rss between cases: cannot attribute
                self.stats["unattributed_deaths"] += 1
                self.problems.append(f"runner stalled outside any case after case {done_upto}")
                barren += 1
                if barren > 3:
                    break
                i = done_upto + 1
                continue
            barren = 0
            if reason == "exit":
                self.results[started] = self.death(status, log)
            elif reason == "storm":
                self.stats["report_storms"] += 1
                self.results[started] = {"died": "storm", "asan": self.storm_text}
            else:
                self.stats["silent_kills" if reason == "silent" else "rss_kills"] += 1
                self.run_alone(started)
            i = started + 1
        return self.results


def server_main(argv):
    impl, ext_dir, infile, outfile, logbase = argv
    with open(infile, "rb") as f:
        cases = pickle.load(f)
    srv = Server(impl, ext_dir, cases, logbase)
    results = srv.run()
    with open(outfile + ".tmp", "wb") as f:
        pickle.dump({"results": results, "stats": srv.stats, "problems": srv.problems}, f)
    os.replace(outfile + ".tmp", outfile)
    return 0


# --------------------------------------------------------------------------- shard (parent) side

_SYM_CACHE: dict = {}
_CLASSES = ("DefaultRecordBatchBuilder", "DefaultRecordBatch", "DefaultRecordMetadata", "DefaultRecord",
            "LegacyRecordBatchBuilder", "LegacyRecordBatch", "LegacyRecordMetadata", "LegacyRecord", "MemoryRecords")
_MANGLED = re.compile(
    r"_crecords_\d+(cutil|hton|default_records|legacy_records|memory_records)_"
    r"(?:\d+(" + "|".join(_CLASSES) + r")_)?(?:\d+)?(\w+)$")


def demangle(sym, module):
    m = _MANGLED.search(sym)
    if not m:
        return f"{module}.{sym}"
    mod, cls, name = m.groups()
    if re.fullmatch(r"generator\d*", name):
        name = "__iter__"
    if cls:
        return f"{cls}.{name}"
    return f"{mod}.{name}"


def symbolize(so, offsets):
    need = [o for o in offsets if (so, o) not in _SYM_CACHE]
    if need:
        env = {k: v for k, v in os.environ.items() if k not in ("LD_PRELOAD", "ASAN_OPTIONS")}
        cp = subprocess.run(["/usr/bin/llvm-symbolizer-14", "--obj=" + so, *need], stdout=subprocess.PIPE,
                            stderr=subprocess.DEVNULL, env=env, timeout=120)
        blocks = cp.stdout.decode(errors="replace").split("\n\n")
        for o, blk in zip(need, blocks):
            lines = [ln for ln in blk.strip().split("\n") if ln]
            _SYM_CACHE[(so, o)] = lines[0::2] or ["??"]
    return {o: _SYM_CACHE[(so, o)] for o in offsets}


def presymbolize(texts):
    """One llvm-symbolizer run per shared object for every frame of every report (fills the cache)."""
    want = {}
    for t in texts:
        for fm in _FRAME.finditer(t):
            want.setdefault(fm.group(3), set()).add(fm.group(4))
    for so, offs in want.items():
        if os.path.exists(so):
            try:
                symbolize(so, sorted(offs))
            except Exception:
                pass


_FRAME = re.compile(r"#(\d+) 0x[0-9a-f]+\s+(?:in (\S+) )?\(?(/[^+)]+)\+(0x[0-9a-f]+)\)")


_OOB_KINDS = {"heap-buffer-overflow", "heap-use-after-free", "SEGV", "unknown-crash", "stack-buffer-overflow",
              "stack-buffer-underflow", "global-buffer-overflow", "use-after-poison", "container-overflow",
              "dynamic-stack-buffer-overflow", "stack-use-after-return", "stack-use-after-scope", "wild-jump",
              "negative-size-param", "BUS"}


def parse_asan(text, ext_dir):
    """First report in ``text`` -> dict(kind, access, frames=[functions inside the extension, innermost
    first], via=<function the extension called into, when the bad access happened below it>) or None."""
    m = re.search(r"ERROR: AddressSanitizer: ([\w-]+)", text)
    if not m:
        return None
    kind = m.group(1)
    text = text[m.start():]
    am = re.search(r"^(READ|WRITE) of size (\d+)", text, re.M) or re.search(r"caused by a (READ|WRITE) memory access", text)
    access = am.group(1) if am else ""
    frames = []
    in_first_stack = False
    ext_real = os.path.realpath(ext_dir)
    for ln in text.split("\n"):
        fm = _FRAME.search(ln)
        if fm:
            in_first_stack = True
            so, off = fm.group(3), fm.group(4)
            frames.append((so, off, os.path.dirname(os.path.realpath(so)) == ext_real))
        elif in_first_stack:
            break
    names = []
    via = None
    first_ext = next((i for i, f in enumerate(frames) if f[2]), None)
    if first_ext is not None and first_ext > 0:
        so, off, _e = frames[first_ext - 1]
        try:
            via = symbolize(so, [off])[off][-1]
        except Exception:
            via = os.path.basename(so)
        if via in ("??", ""):
            via = os.path.basename(so).split(".")[0]
    for so, off, is_ext in frames:
        if not is_ext:
            continue
        module = os.path.basename(so).split(".")[0]
        for sym in symbolize(so, [off])[off]:
            names.append(demangle(sym, module))
    outer = [os.path.basename(so) for so, off, e in frames if not e]
    return dict(kind=kind, access=access, frames=names, other=outer[:4], via=via)


def parse_asan_all(text, ext_dir, limit=12):
    """Every report block of ``text`` (recover mode can attach several to one case)."""
    out = []
    starts = [m.start() for m in re.finditer(r"==\d+==ERROR: AddressSanitizer", text)]
    for a, b in zip(starts, starts[1:] + [len(text)]):
        info = parse_asan(text[a:b], ext_dir)
        if info is not None:
            out.append(info)
        if len(out) >= limit:
            break
    return out


def asan_mechanism(info, prefix="asan"):
    """asan:<oob-read|oob-write|kind>:<innermost meaningful extension function>[<-caller][:via=<callee>]

    Where a wild address lands (red zone, freed block, unmapped page, guard page) decides ASan's report kind
    but not the defect, so all out-of-bounds kinds are folded into oob-read / oob-write."""
    frames = [f for f in info["frames"] if not f.startswith("hton.") and "__Pyx_" not in f and "__pyx_" not in f]
    if not frames:
        return None
    kind = info["kind"]
    if kind in _OOB_KINDS and info["access"]:
        kind = "oob-" + info["access"].lower()
    top = frames[0]
    mech = f"{prefix}:{kind}:{top}"
    if top.split(".")[0] in ("cutil", "default_records", "legacy_records", "memory_records") and len(frames) > 1:
        mech += "<-" + frames[1]
    if info.get("via"):
        mech += ":via=" + info["via"]
    return mech


_MSG_SLUGS = (("Negative size passed to PyBytes_FromStringAndSize", "negative_size"),
              ("bad argument to internal function", "bad_internal_call"))


def exc_mechanism(res, impl):
    kind = res["exc"].lower()
    tb = res.get("tb") or []
    if tb:
        fn, name = tb[-1]
        if fn.endswith(".pyx"):
            func = ".".join(name.split(".")[-2:]) if "." in name else f"{fn[:-4]}.{name}"
        else:
            func = f"{fn[:-3]}_py.{name}"
    else:
        func = f"{impl}:unknown"
    slug = None
    for needle, s in _MSG_SLUGS:
        if needle in res.get("msg", ""):
            slug = s
    if slug is None:
        words = re.findall(r"[a-z]+", res.get("msg", "").lower())[:4]
        slug = "_".join(words) or "no_message"
    return f"{kind}:{func}:{slug}"


def outcome_class(res):
    if res is None:
        return "missing"
    if "exc" in res:
        return "exc:" + res["exc"]
    if "hang" in res:
        return "hang"
    if "died" in res:
        return "died"
    if res.get("stop") == "crc":
        return "crc_rejected"
    return "records" if res.get("n") else "empty"


def _server_env(impl, logbase):
    env = dict(os.environ)
    env["PYTHONPATH"] = HERE + os.pathsep + os.path.join(HERE, ".deps")
    env["PYTHONHASHSEED"] = "0"
    for k in ("AIOKAFKA_NO_EXTENSIONS", "LD_PRELOAD", "ASAN_OPTIONS", "PYTHONMALLOC"):
        env.pop(k, None)
    if impl == "C":
        from vf import extbuild
        env.update(extbuild.asan_env(log_path=logbase, recover=True, symbolize=False))
    else:
        env["AIOKAFKA_NO_EXTENSIONS"] = "1"
    return env


def run_server(impl, ext_dir, wire_cases, workdir, timeout):
    infile = os.path.join(workdir, f"cases-{impl}.pkl")
    outfile = os.path.join(workdir, f"out-{impl}.pkl")
    logbase = os.path.join(workdir, f"asan-{impl}")
    with open(infile, "wb") as f:
        pickle.dump(wire_cases, f)
    try:
        cp = subprocess.run([PY, "-m", "vf.props.c10", "--server", impl, ext_dir or "-", infile, outfile, logbase],
                            cwd=HERE, env=_server_env(impl, logbase), timeout=timeout, stdout=subprocess.PIPE,
                            stderr=subprocess.STDOUT)
        rc, out = cp.returncode, cp.stdout.decode(errors="replace")
    except subprocess.TimeoutExpired as e:
        rc, out = "timeout", (e.stdout or b"").decode(errors="replace")
    if not os.path.exists(outfile):
        return None, f"{impl} server produced no result (rc={rc}): {out[-1200:]}"
    with open(outfile, "rb") as f:
        data = pickle.load(f)
    if rc != 0:
        data["problems"].append(f"{impl} server rc={rc}: {out[-600:]}")
    return data, None


class Shard:
    def __init__(self, params):
        self.p = params
        self.viol = {}
        self.counters = {}
        self.sets = {}
        self.nontrivial = set()
        self.samples = []
        self.inconclusive = []

    def count(self, name, n=1):
        self.counters[name] = self.counters.get(name, 0) + n

    def note(self, name, value):
        self.sets.setdefault(name, set()).add(str(value))

    def violation(self, mechanism, what, case: Case, impl, outcome):
        self.count("violating_cases")
        lst = self.viol.setdefault(mechanism, [])
        w = dict(impl=impl, entry=case.entry, check_crcs=bool(case.crc), buffer_flavor=case.flavor,
                 magic_arg=case.magic, family=case.family, recipe=case.recipe, mutation=case.note,
                 input_hex=case.buf.hex() if len(case.buf) <= 700 else case.buf[:700].hex() + "...",
                 input_len=len(case.buf), outcome=outcome)
        lst.append((len(case.buf), {"mechanism": mechanism, "what": what, "witness": w}))
        lst.sort(key=lambda t: t[0])
        del lst[2:]


def _short_outcome(res):
    if res is None:
        return None
    out = {k: v for k, v in res.items() if k not in ("asan", "pystack")}
    if res.get("asan"):
        out["asan_head"] = "\n".join(res["asan"].split("\n")[:14])[:1500]
    if res.get("pystack"):
        out["pystack_head"] = "\n".join(res["pystack"].split("\n")[:12])[:1200]
    return out


def judge(sh: Shard, case: Case, impl, res, ext_dir):
    """Apply the C10 oracle to one outcome."""
    tag = f"{impl}"
    if res is None:
        sh.count(f"no_result:{impl}")
        return
    oc = outcome_class(res)
    sh.count(f"outcome:{impl}:{oc}")
    ent = f"{case.entry}"
    if res.get("asan") and "hang" not in res:
        seen = set()
        for info in parse_asan_all(res["asan"], ext_dir):
            if info["kind"] == "ABRT":
                continue
            mech = asan_mechanism(info)
            if mech is None:
                sh.count("asan_report_without_extension_frame")
                sh.note("asan_reports_outside_extension", f"{info['kind']} in {info['other'][:2]}")
                continue
            if mech in seen:
                continue
            seen.add(mech)
            sh.count(f"asan_reports:{impl}")
            fate = {"storm": "the bad access repeats in a loop (runner stopped after 64 KiB of reports)",
                    "signal": f"process died by signal {res.get('sig')}",
                    "exit": "process terminated by the sanitizer"}.get(res.get("died"), f"the decoder then went on to: {oc}")
            sh.violation(mech, f"AddressSanitizer {info['kind']} ({info['access']}) in "
                         f"{' <- '.join(info['frames'][:4])}" + (f" via {info['via']}" if info.get("via") else "")
                         + f"; entry {ent}; {fate}", case, impl, _short_outcome(res))
        if seen and ("died" in res):
            return
    if "exc" in res:
        if res["exc"] in ("SystemError", "MemoryError"):
            mech = exc_mechanism(res, impl)
            sh.violation(mech, f"{impl} decoder entry {ent}: {res['exc']}: {res.get('msg')} (traceback {res.get('tb')})",
                         case, impl, _short_outcome(res))
        return
    if "died" in res or "hang" in res:
        info = parse_asan(res.get("asan") or "", ext_dir) if impl == "C" else None
        if "hang" in res:
            func = None
            if info and info["kind"] == "ABRT":
                m = asan_mechanism(info, "x")
                func = m.split(":", 2)[2] if m else None
            if func is None and res.get("pystack"):
                fm = re.search(r'File "[^"]*/aiokafka/record/(\w+)\.py", line \d+ in (\w+)', res["pystack"])
                if fm:
                    func = f"{fm.group(1)}_py.{fm.group(2)}"
            kind = "hang" if res["hang"] == "silent" else "hang_alloc"
            sh.violation(f"{kind}:{func or impl + ':' + ent}",
                         f"{impl} decoder entry {ent} did not finish: killed after {SILENT_LIMIT:.0f}s of silence in the "
                         f"batch run, after {ALONE_LIMIT:.0f} CPU-s alone and again after {LONG_LIMIT:.0f} CPU-s alone ({res.get('after_s')}s wall; {res['hang']})", case, impl,
                         _short_outcome(res))
            return
        if info is not None:
            mech = asan_mechanism(info)
            if mech is None:
                sh.count("asan_report_without_extension_frame")
                sh.note("asan_reports_outside_extension", f"{info['kind']} in {info['other'][:2]}")
                if res["died"] == "signal":
                    sh.violation(f"signal:{res['sig']}:{ent}", f"{impl} decoder died by signal {res['sig']}", case, impl,
                                 _short_outcome(res))
                return
            sh.count(f"asan_reports:{impl}")
            sh.violation(mech, f"AddressSanitizer {info['kind']} ({info['access']}) in {' <- '.join(info['frames'][:4])}"
                         + (f" via {info['via']}" if info.get("via") else "") + f"; entry {ent}; process died", case, impl,
                         _short_outcome(res))
            return
        if res["died"] == "signal":
            sh.violation(f"signal:{res['sig']}:{impl}:{ent}", f"{impl} decoder process died by signal {res['sig']} "
                         f"without sanitizer report", case, impl, _short_outcome(res))
        else:
            sh.violation(f"died:exit{res.get('code')}:{impl}:{ent}",
                         f"{impl} decoder process exited with code {res.get('code')} inside the case", case, impl,
                         _short_outcome(res))
        return
    # finished normally: CRC clause
    if case.crc_expect is not None:
        sh.count(f"crc_clause_checks:{impl}")
        crcs = res.get("crc") or []
        j = case.crc_expect
        if j < len(crcs) and crcs[j] is True:
            sh.violation(f"crc_not_detected:{impl}:v{case.magic}:{case.entry}",
                         f"{impl} validate_crc() returned True for batch {j} although one byte inside its CRC field / "
                         f"checksummed region was changed ({case.note})", case, impl, _short_outcome(res))


def run_shard(params):
    sh = Shard(params)
    tier = params.get("tier", "quick")
    ext_dir = params.get("ext_dir")
    own_tmp = None
    if not ext_dir or not os.path.isdir(ext_dir):
        from vf import extbuild
        own_tmp = tempfile.mkdtemp(prefix="vf-c10-ext-")
        ext_dir = extbuild.build("asan", own_tmp)
    workdir = tempfile.mkdtemp(prefix="vf-c10-")
    evaluations = 0
    try:
        allcases = gen_cases(params["seed"], params["group"], tier)
        cases = allcases[params["slice"]::params["nslices"]]
        if params.get("only") is not None:
            cases = [c for c in cases if (c.entry, c.crc, c.flavor, c.buf.hex()) == tuple(params["only"][:4])] or cases[:0]
        wire = [c.wire() for c in cases]
        t_phase = time.time()

        def timed(impl):
            t0 = time.time()
            r = run_server(impl, ext_dir, wire, workdir, params.get("server_timeout", 3000))
            sh.count(f"wall_ms:server:{impl}", int((time.time() - t0) * 1000))
            return r
        with ThreadPoolExecutor(2) as ex:
            futs = {impl: ex.submit(timed, impl) for impl in ("C", "Py")}
            out = {impl: f.result() for impl, f in futs.items()}
        t_judge = time.time()
        presymbolize([r.get("asan", "") for d, _e in out.values() if d for r in d["results"].values() if r.get("asan")])
        res = {}
        for impl, (data, err) in out.items():
            if err:
                sh.inconclusive.append(err)
                res[impl] = {}
                continue
            res[impl] = data["results"]
            for k, v in data["stats"].items():
                sh.count(f"{k}:{impl}", v)
            sh.inconclusive.extend(f"{impl}: {p}" for p in data["problems"])
        for i, case in enumerate(cases):
            rc, rp = res["C"].get(i), res["Py"].get(i)
            if rc is not None:
                evaluations += 1
                sh.count("asan_instrumented_cases")
            if rp is not None:
                sh.count("py_cases")
            sh.count(f"entry:{case.entry}")
            sh.count(f"family:{case.family}")
            sh.count(f"flavor:{case.flavor}")
            sh.count("check_crcs:on" if case.crc else "check_crcs:off")
            judge(sh, case, "C", rc, ext_dir)
            judge(sh, case, "Py", rp, ext_dir)
            occ, ocp = outcome_class(rc), outcome_class(rp)
            if occ != ocp:
                sh.count(f"div:C={occ}|Py={ocp}")
            if case.family != "valid" and rc is not None and rp is not None:
                sh.nontrivial.add(_sig((case.family, case.recipe, case.entry, case.crc, case.flavor, case.sigkey, occ, ocp)))
            elif case.family == "valid":
                for impl, r in (("C", rc), ("Py", rp)):
                    if r is not None and outcome_class(r) != "records":
                        sh.inconclusive.append(f"valid corpus buffer {case.recipe} via {case.entry} not decoded by {impl}: "
                                               f"{_short_outcome(r)}")
            if len(sh.samples) < 4 and case.family in ("field", "inner", "trunc_fix", "short") and i % 97 == 0:
                sh.samples.append(dict(family=case.family, recipe=case.recipe, mutation=case.note, entry=case.entry,
                                       check_crcs=bool(case.crc), flavor=case.flavor, input_hex=case.buf[:120].hex(),
                                       outcome_C=_short_outcome(rc), outcome_Py=_short_outcome(rp)))
        sh.count("wall_ms:judge", int((time.time() - t_judge) * 1000))
    finally:
        shutil.rmtree(workdir, ignore_errors=True)
        if own_tmp:
            shutil.rmtree(own_tmp, ignore_errors=True)
    violations = []
    for mech, lst in sorted(sh.viol.items()):
        for _n, v in lst:
            v["witness"]["shard"] = {k: v2 for k, v2 in params.items() if k not in ("ext_dir",)}
            violations.append(v)
    return dict(evaluations=evaluations, nontrivial=sorted(sh.nontrivial), violations=violations,
                inconclusive=sh.inconclusive[:20], counters=sh.counters,
                sets={k: sorted(v) for k, v in sh.sets.items()}, samples=sh.samples)


def _sig(obj):
    import hashlib
    return hashlib.sha1(json.dumps(obj, sort_keys=True, default=str).encode()).hexdigest()[:16]


# --------------------------------------------------------------------------- runner interface

def prepare(tier, seed, scratch):
    from vf import extbuild
    return {"ext_dir": extbuild.build("asan", os.path.join(scratch, "ext"))}


def shards(tier, seed):
    if tier == "quick":
        return [dict(seed=seed, group=0, slice=i, nslices=16, timeout_s=1500) for i in range(16)]
    groups = 12
    return [dict(seed=seed, group=g, slice=i, nslices=16, timeout_s=3500) for g in range(groups) for i in range(16)]


def replay(witness):
    """Re-run exactly one case (input, entry point, flags) under both implementations."""
    w = witness
    params = dict(w["shard"])
    params.pop("ext_dir", None)
    tier = params.get("tier", "quick")
    sh = Shard(params)
    from vf import extbuild
    tmp = tempfile.mkdtemp(prefix="vf-c10-replay-")
    try:
        ext_dir = extbuild.build("asan", tmp)
        hexs = w["input_hex"]
        if hexs.endswith("..."):
            cands = [c for c in gen_cases(params["seed"], params["group"], tier)
                     if c.buf.hex().startswith(hexs[:-3]) and len(c.buf) == w["input_len"]]
            buf = cands[0].buf
        else:
            buf = bytes.fromhex(hexs)
        case = Case(w["family"], w["recipe"], w["entry"], int(w["check_crcs"]), w["buffer_flavor"], buf, w["magic_arg"],
                    w["mutation"], None, "")
        m = re.match(r"byte@(\d+)", w["mutation"])
        if w["family"] == "byte" and m and case.crc:
            try:
                batches = R.split_batches(buf)
                bidx, local = _locate(batches, int(m.group(1)))
                if bidx is not None and local >= (17 if batches[bidx][2] >= 2 else 12):
                    case.crc_expect = bidx
            except R.RefFormatError:
                pass
        workdir = tempfile.mkdtemp(prefix="vf-c10-", dir=tmp)
        for impl in ("C", "Py"):
            data, err = run_server(impl, ext_dir, [case.wire()], workdir, 200)
            if err:
                sh.inconclusive.append(err)
                continue
            judge(sh, case, impl, data["results"].get(0), ext_dir)
    finally:
        shutil.rmtree(tmp, ignore_errors=True)
    violations = [v for lst in sh.viol.values() for _n, v in lst]
    return dict(evaluations=1, violations=violations, inconclusive=sh.inconclusive, counters=sh.counters)


if __name__ == "__main__":
    if len(sys.argv) > 1 and sys.argv[1] == "--server":
        sys.exit(server_main(sys.argv[2:7]))
