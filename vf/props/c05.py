"""C05 - within a generation partitions have one owner; revoked partitions go silent.

Offline checker (vf.group_judges.judge_c05) over histories of 1..4 real AIOKafkaConsumer group members on the
simulated group coordinator (vf.group_sim): generation ledger x listener/delivery timeline.
"""
from __future__ import annotations

from vf.props import _group_common as GC

PROPERTY_ID = "C05"
LEVEL = "exploration"
RULE = ("history = 1-4 real group members (range / roundrobin / sticky, equal or different subscriptions, 15% pattern "
        "subscriptions) over 1-2 topics x 2-4 partitions that are appended to while they consume; script of starts, "
        "stop()s, kills, subscribe() changes, partition additions, topic creation, coordinator moves with/without state, "
        "broker bounces; async rebalance listeners with seeded delays; per-request fates on group, fetch and metadata "
        "requests. Judged per history: (1) every synced generation's distributed assignments are pairwise disjoint and "
        "inside each member's advertised topics (decoded with the independent codec); (2) on_partitions_assigned argument "
        "== assignment() snapshot == the SyncGroup reply sent to that member; (3) no record is returned outside an "
        "ownership period (assigned.start .. next revoked.start); (4) inside a period deliveries are exactly the "
        "consecutive visible records starting at the committed offset the member was given; (5) for every generation all "
        "participants' revoke callbacks end before any participant's assigned callback starts. Non-trivial = >= 2 synced "
        "generations, >= 1 revocation of a non-empty assignment and deliveries within 1 s of a rebalance. Distinct = "
        "signature over configuration, fault kinds, harness event sequence and generation membership.")
ASSUMPTIONS = [
    "trusted base: vf/simloop.py, vf/cluster.py + vf/groupcoord.py (Kafka group coordinator semantics, DESIGN A.2), vf/wire.py",
    "hand-out -> harness log is synchronous (same loop turn), so delivery times are exact",
    "auto_offset_reset=earliest, logs never trimmed: a period without committed offset starts at the log start",
    "request_timeout_ms > rebalance_timeout_ms as with the library defaults (a parked JoinGroup must not time out client-side)",
    "histories in which the sticky assignor does not terminate (C14 known finding) are skipped and counted",
]
REQUIRED_COUNTERS = ["histories_judged", "histories_read_committed_with_transactions", "generations_checked", "assignments_checked", "assigned_callbacks_checked",
                     "deliveries_checked", "periods_checked", "period_starts_checked", "barriers_checked",
                     "revocations_with_partitions", "rebalances_with_deliveries_in_flight", "subscription_changes",
                     "kills_executed", "histories_pattern_subscription", "self_initiated_leaves_checked", "long_revoke_callbacks"]


def prepare(tier, seed, scratch):
    from vf.simharness import prepare_codec
    return prepare_codec(scratch)


def shards(tier, seed):
    return GC.shards_for(tier, seed, 5, ["rebalance", "rebalance", "mixed", "commit"], quick_per=8, thorough_per=110)


def _nontrivial(H, st):
    return st["generations_checked"] >= 2 and st["revocations_with_partitions"] >= 1 and st["rebalances_with_deliveries_in_flight"] >= 1


def run_shard(params):
    return GC.run_group_shard(params, "judge_c05", _nontrivial)


def replay(witness):
    return GC.replay_group(witness, "judge_c05")
