"""C19 - stop() always terminates and leaves nothing running.

Each reference workload (producer / group consumer / group-less consumer x cluster healthy / a broker refusing or
black-holing connections / failing over / unreachable-then-restored) is re-run with stop() issued at sampled loop
events k between start() and the end of the reference run (vf.stop_sim); the monitor measures the virtual duration
of stop(), lists every task / timer handle / transport tagged with the client's ownership that is still alive two
loop turns after stop() returned, calls the API again and looks for the LeaveGroup in the coordinator's log.
"""
from __future__ import annotations

import random

from vf import repoimport
from vf.runner import sig

PROPERTY_ID = "C19"
LEVEL = "fault_enumeration"
POINTS = {"quick": 5, "thorough": 40}
RULE = ("reference run = producer (1-2 sending tasks, idempotent or acks 0/1/all), group consumer (optionally a second "
        "member joining, auto-commit on/off, a getmany() blocked for up to 2 s or polling) or group-less consumer, 3 "
        "brokers, request timeout 3-5 s, session 3-4 s, rebalance 2-3 s; cluster state at the stop: healthy, one broker "
        "(preferably the coordinator / a leader) refusing connections, black-holing connections (either dropped from the "
        "metadata, or still listed as leader because the controller has not noticed), leaders and coordinator "
        "moving, or unreachable and restored 0.2-2 s later, the change landing 0/1/3/10/40 events before the stop; optional "
        "drops / resets / lost replies / delays on every request. Stop points: stop() at loop event k (network delivery "
        "or timer firing) for k sampled uniformly between start() and the end of the reference run (quick 5, thorough 40 "
        "per reference) plus the reference's own stop at the end. Judged: stop() returns normally within B_stop = 4 x "
        "(request + session + rebalance timeout) + 40 x backoff (run continued to 4 x B); no task, scheduled timer or "
        "open transport of the client two loop turns later; send() -> ProducerClosed, getmany()/getone() -> "
        "ConsumerStoppedError within 5 s; LeaveGroup seen when the member had joined, the coordinator was reachable, the "
        "cluster healthy and no fault fate was hit. Non-trivial = cluster not healthy at the stop or a fault hit or a "
        "second member present. Distinct = (workload, cluster state, stop event index bucket, configuration signature).")
ASSUMPTIONS = [
    "trusted base: vf/simloop.py ownership tags (tasks and timers inherit the context they are created in; everything the "
    "client creates is created inside `with owned('client')` blocks or by its own tasks), vf/cluster.py",
    "B_stop is deliberately loose (the statement gives no formula); a stop() that exceeds it is reported with the bound",
    "a black-holed connect attempt ends by the client's own request timeout",
]
REQUIRED_COUNTERS = ["histories_judged", "stops_judged", "leftover_checks", "later_api_calls_checked", "leave_group_checked",
                     "stops_producer", "stops_group_consumer", "stops_simple_consumer", "stops_cluster_healthy",
                     "stops_cluster_refuse", "stops_cluster_blackhole", "stops_cluster_failover", "stops_cluster_restored",
                     "stops_cluster_refuse_listed", "stops_cluster_blackhole_listed",
                     "stop_points_enumerated"]


def prepare(tier, seed, scratch):
    from vf.simharness import prepare_codec
    return prepare_codec(scratch)


def shards(tier, seed):
    per = 10 if tier == "quick" else 60
    return [{"seed": seed * 2593 + s * 11 + 19, "n": per, "pure_python": False, "timeout_s": 3300, "shard_index": s}
            for s in range(16)]


def run_shard(params):
    from vf.simharness import quiet_logging, setup_codec
    codec = setup_codec(params, False)
    repoimport.use_repo()
    from vf import stop_sim
    quiet_logging()
    tier = params.get("tier", "quick")
    res = {"evaluations": 0, "nontrivial": [], "violations": [], "inconclusive": [], "counters": {}, "sets": {},
           "samples": []}
    rng = random.Random(params["seed"])
    cnt = res["counters"]
    seen = set()
    classes = set()
    todo = [(stop_sim.gen_params(rng, i, tier, force=params.get("force")), False) for i in range(params["n"])]
    # one history per shard of a class the uniform draw rarely produces: the consumer subscribes after start() while a
    # Metadata request is in flight, the library's default metadata_max_age_ms (no periodic refresh within the run), and the
    # cluster becomes unreachable / fails over before stop()
    todo.append((stop_sim.gen_params(rng, params["n"], tier, force=dict(
        params.get("force") or {}, workload="group_consumer", late_subscribe=True, md_slow_at_start=True,
        metadata_max_age_ms=300000, coordinator_loading=False, fatal_group_error=None, resubscribe_after=rng.choice([0.05, 0.3]),
        cluster=rng.choice(["refuse", "failover", "blackhole", "restored"]))), False))
    if params.get("shard_index", 0) == 0:
        import json as _json
        import os as _os
        with open(_os.path.join(_os.path.dirname(_os.path.abspath(__file__)), "c19_pinned.json")) as f:
            for ent in _json.load(f):
                todo.append((ent["params"], True))
                cnt["pinned_histories"] = cnt.get("pinned_histories", 0) + 1
    for P, pinned in todo:
        H0 = stop_sim.run_history(P)
        runs = [(P.get("stop_at_event"), P, H0)]
        if not H0["errors"] and H0.get("stop") and not pinned:
            lo, hi = H0.get("events_at_start", 0), H0["stop"].get("event", 0)
            for _ in range(POINTS[tier]):
                k = rng.randint(lo + 1, max(lo + 2, hi))
                Pk = dict(P, stop_at_event=k)
                runs.append((k, Pk, stop_sim.run_history(Pk)))
                cnt["stop_points_enumerated"] = cnt.get("stop_points_enumerated", 0) + 1
            # one more stop aimed at a moment when a JoinGroup of the client is waiting for its reply (mid-rebalance)
            wins = [(a, b) for a, b in H0.get("join_windows", ()) if a >= lo]
            if wins:
                a, b = rng.choice(wins)
                k = rng.randint(a, b) + rng.choice([0, 0, 1])
                Pk = dict(P, stop_at_event=max(lo + 1, k))
                runs.append((Pk["stop_at_event"], Pk, stop_sim.run_history(Pk)))
                cnt["stop_points_in_join_window"] = cnt.get("stop_points_in_join_window", 0) + 1
            # ... and two aimed just behind a non-retriable error reply (the failed background task waits for a poll)
            fe = H0.get("fatal_group_error_at_event")
            if fe is not None and fe >= lo and not pinned:
                for _ in range(2):
                    Pk = dict(P, stop_at_event=fe + rng.randint(1, 12))
                    runs.append((Pk["stop_at_event"], Pk, stop_sim.run_history(Pk)))
                    cnt["stop_points_after_fatal_group_error"] = cnt.get("stop_points_after_fatal_group_error", 0) + 1
        for k, Pk, H in runs:
            res["evaluations"] += 1
            if H.get("stop_not_issued"):
                cnt["stop_points_beyond_end_of_run"] = cnt.get("stop_points_beyond_end_of_run", 0) + 1
                continue
            if H["errors"] or H["sim_errors"]:
                res["inconclusive"].append(f"history seed={Pk['seed']} k={k}: {H['errors'][:1]} {str(H['sim_errors'][:1])[:300]}")
                continue
            V, st = stop_sim.judge(H)
            st["histories_judged"] = 1
            st[f"stops_{Pk['workload']}"] = 1
            st[f"stops_cluster_{Pk['cluster']}"] = 1
            for kk, v in st.items():
                if kk.startswith("max_"):
                    cnt[kk] = max(cnt.get(kk, 0), v)
                else:
                    cnt[kk] = cnt.get(kk, 0) + v
            classes.add(f"{Pk['workload']}/{Pk['cluster']}")
            if Pk["cluster"] != "healthy" or sum(H["fault_hits"].values()) or (Pk["workload"] == "group_consumer" and Pk["second_member"]):
                bucket = None if k is None else int(10 * (k - H0.get("events_at_start", 0)) /
                                                    max(1, H0["stop"].get("event", 1) - H0.get("events_at_start", 0)))
                res["nontrivial"].append(sig([Pk["workload"], Pk["cluster"], bucket, Pk["idempotent"], Pk["acks"], Pk["auto_commit"],
                                              Pk["second_member"], Pk["blocked_getmany"], Pk["seed"]]))
            for mech, what, detail in V:
                cnt[f"violating_stops_{mech}"] = cnt.get(f"violating_stops_{mech}", 0) + 1
                if mech in seen:
                    continue
                seen.add(mech)
                res["violations"].append({"mechanism": mech, "what": what + f" [codec: {codec}]",
                                          "witness": {"params": Pk, "detail": detail}})
            if not res["samples"] and k is not None and Pk["cluster"] != "healthy":
                res["samples"].append({"params": Pk, "stop": H["stop"], "bound_s": H.get("bound"), "leftovers": H.get("leftovers"),
                                       "after": H.get("after"), "leave_group": H.get("leave_group"),
                                       "cluster_changed_at": H.get("cluster_changed_at"), "victim_broker": H.get("victim")})
    res["sets"]["scenario_classes"] = sorted(classes)
    res["sets"]["codec"] = [codec]
    return res


def replay(witness):
    from vf.simharness import quiet_logging
    repoimport.use_repo()
    from vf import stop_sim
    quiet_logging()
    H = stop_sim.run_history(witness["params"])
    V, _st = stop_sim.judge(H)
    return {"evaluations": 1, "violations": [{"mechanism": m, "what": w, "witness": {"params": witness["params"], "detail": d}}
                                              for m, w, d in V]}
