"""C16 - the transactional API is a strict state machine with recoverable and fatal errors.

Lock-step reference model (vf.txn_judges.judge_c16: READY / IN_TXN / ABORTABLE / FATAL) against the outcome of every
API call of a program run on a real transactional AIOKafkaProducer over the simulated transaction coordinator
(vf.txn_sim), with a wire-silence check after every illegal call and after a fatal error.
"""
from __future__ import annotations

import random

from vf import repoimport

PROPERTY_ID = "C16"
LEVEL = "exploration"
EXHAUSTIVE_LEN = {"quick": 3, "thorough": 4}
FAULT_LEN = {"quick": 2, "thorough": 3}
SAMPLED = {"quick": 600, "thorough": 24000}
RULE = ("program = sequence of calls over {begin, send(p0), send(p1), two concurrent send()s to p0 and p1 (one AddPartitionsToTxn names both), send_offsets_to_transaction (one partition / two partitions in one call), commit, abort, "
        "transaction() context exit without / with exception, context whose body keeps running 0.6 s after a fire-and-forget send and then exits normally / with an exception}; after every call the harness waits until the cluster has "
        "seen no transactional-class request (Produce, AddPartitionsToTxn, AddOffsetsToTxn, TxnOffsetCommit, EndTxn) for a "
        "quiet period. Enumerated: every sequence of length <= L without fault (quick L=3: 1,884, thorough L=4: 22,620), every "
        "sequence of length <= L' (quick 2, thorough 3) x each of 24 single scripted faults (abortable: TOPIC/GROUP "
        "authorization at AddPartitionsToTxn / AddOffsetsToTxn / TxnOffsetCommit; fatal: INVALID_PRODUCER_EPOCH, "
        "TRANSACTIONAL_ID_AUTHORIZATION_FAILED, INVALID_PRODUCER_ID_MAPPING, INVALID_TXN_STATE, OUT_OF_ORDER_SEQUENCE_NUMBER at "
        "each transactional request type / Produce; retriable code or lost reply at each), plus sampled sequences of length "
        "4-6 x a random fault (quick 600, thorough 24,000). Judged per call: legal in the model state => returns normally; "
        "illegal => raises and no transactional-class request reaches the cluster until the quiet period ends; in ABORTABLE: "
        "commit raises the stored authorization error, abort returns, the next transaction works; after FATAL: every call "
        "raises, no send future stays pending, no transactional-class request arrives later than request_timeout + 4 x "
        "backoff after the fatal reply. Non-trivial = program with >= 1 legal and >= 1 illegal call, or with a fired fault. "
        "Distinct = (program, fault label).")
ASSUMPTIONS = [
    "trusted base: vf/simloop.py, vf/cluster.py + vf/txncoord.py, the reference model in vf/txn_judges.py (written from the "
    "documented API: begin -> sends/offsets -> commit|abort; abortable error => commit raises it, abort recovers)",
    "a fault that is served while a call is in progress makes that one call's outcome model-dependent: the model adopts "
    "the state implied by the call's outcome and judges the following calls",
    "an illegal call may raise any exception (the library uses IllegalOperation and AssertionError)",
]
REQUIRED_COUNTERS = ["programs_judged", "calls_judged", "legal_calls", "illegal_calls", "illegal_calls_wire_silent",
                     "calls_after_abortable", "calls_after_fatal", "abortable_recoveries", "fatal_silence_checked",
                     "programs_with_fault_fired", "pending_futures_failed_after_fatal", "exhaustive_programs"]


def prepare(tier, seed, scratch):
    from vf.simharness import prepare_codec
    return prepare_codec(scratch)


def shards(tier, seed):
    n = 16
    return [{"seed": seed * 1237 + 3, "shard": s, "n_shards": n, "pure_python": False, "timeout_s": 3300} for s in range(n)]


def _cases(tier, seed):
    from vf import txn_gen
    faults = txn_gen.c16_faults()
    out = []
    for seq in txn_gen.c16_sequences(EXHAUSTIVE_LEN[tier]):
        out.append(("exhaustive", seq, "none", None))
    for seq in txn_gen.c16_sequences(FAULT_LEN[tier]):
        for label, f in faults[1:]:
            out.append(("exhaustive_fault", seq, label, f))
    # programs that reach the faulted request: a transaction prefix followed by every sequence of length <= 2
    for label, f in faults[1:]:
        prefix = ("begin", "send:0", "offsets:7") if f["api"] in ("AddOffsetsToTxn", "TxnOffsetCommit") else ("begin", "send:0")
        for seq in txn_gen.c16_sequences(2 if tier == "quick" else 3):
            out.append(("prefixed_fault", prefix + seq, label, f))
        if f["api"] == "TxnOffsetCommit":      # the same with the offsets of two partitions in the faulted request
            for seq in txn_gen.c16_sequences(2):
                out.append(("prefixed_fault", ("begin", "send:0", "offsets:9:multi") + seq, label, f))
    rng = random.Random(f"C16/{seed}")
    for _ in range(SAMPLED[tier]):
        seq = tuple(rng.choice(txn_gen.ALPHABET) for _ in range(rng.randint(4, 6)))
        label, f = rng.choice(faults)
        out.append(("sampled", seq, label, f))
    # a fatal Produce error on one partition leader while the request to the other leader meets retriable faults: the
    # sender dies with a batch still in flight / backing off, whose future must be failed too
    fatal_produce = [(lb, f) for lb, f in faults[1:] if f["api"] == "Produce" and lb.startswith("fatal")]
    for i in range(SAMPLED[tier] // 6):
        tail = tuple(rng.choice(txn_gen.ALPHABET) for _ in range(rng.randint(0, 2)))
        label, f = rng.choice(fatal_produce)
        out.append(("fatal_plus_retriable", ("begin", "burst:0+1:2") + tail, label + "+retriable", dict(f, nth=rng.choice([1, 2]))))
    return out


def run_shard(params):
    from vf.simharness import quiet_logging, setup_codec
    codec = setup_codec(params, False)
    repoimport.use_repo()
    from vf import txn_gen, txn_judges, txn_sim
    quiet_logging()
    res = {"evaluations": 0, "nontrivial": [], "violations": [], "inconclusive": [], "counters": {}, "sets": {},
           "samples": []}
    cnt = res["counters"]
    seen = set()
    labels = set()
    cases = _cases(params.get("tier", "quick"), params["seed"])
    for idx, (kind, seq, label, f) in enumerate(cases):
        if idx % params["n_shards"] != params["shard"]:
            continue
        P = txn_gen.c16_params(seq, f, (params["seed"] * 31 + idx) % (2 ** 31), fault_p=0.35 if kind == "fatal_plus_retriable" else 0.0)
        H = txn_sim.run_history(P)
        res["evaluations"] += 1
        if H["errors"] or H["sim_errors"]:
            res["inconclusive"].append(f"program {list(seq)} fault {label}: {H['errors'][:1]} {str(H['sim_errors'][:1])[:300]}")
            continue
        V, st = txn_judges.judge_c16(H)
        st["programs_judged"] = 1
        st["exhaustive_programs"] = 1 if kind.startswith("exhaustive") else 0
        for k, v in st.items():
            cnt[k] = cnt.get(k, 0) + v
        labels.add(label)
        if (st["legal_calls"] and st["illegal_calls"]) or st["programs_with_fault_fired"]:
            res["nontrivial"].append(f"{','.join(seq)}|{label}")
        for mech, what, detail in V:
            if kind == "fatal_plus_retriable" and mech.startswith("illegal_call_has_effect_on_the_wire"):
                # with random retriable faults on every request the retry of an EARLIER legal call (AddPartitionsToTxn whose
                # reply was lost or delayed) may reach the cluster after a later illegal call raised: not that call's effect.
                # Wire silence after illegal calls is judged in the programs with at most one scripted fault.
                cnt["wire_silence_not_judged_under_random_retriable_faults"] = \
                    cnt.get("wire_silence_not_judged_under_random_retriable_faults", 0) + 1
                continue
            cnt[f"violating_programs_{mech}"] = cnt.get(f"violating_programs_{mech}", 0) + 1
            if mech in seen:
                continue
            seen.add(mech)
            res["violations"].append({"mechanism": mech, "what": what + f" [fault: {label}; codec: {codec}]",
                                      "witness": {"params": P, "detail": detail}})
        if not res["samples"] and st["programs_with_fault_fired"] and st["illegal_calls"] and st["legal_calls"] >= 2:
            res["samples"].append({"program": list(seq), "fault": label,
                                   "calls": [{k: o.get(k) for k in ("op", "outcome", "req_at_call", "req_after_settle", "state_after")}
                                             for o in H["ops"]]})
    res["sets"]["fault_labels"] = sorted(labels)
    res["sets"]["codec"] = [codec]
    return res


def finalize(merged, tier):
    from vf import txn_gen
    want = sum(len(txn_gen.ALPHABET) ** n for n in range(1, EXHAUSTIVE_LEN[tier] + 1)) \
        + sum(len(txn_gen.ALPHABET) ** n for n in range(1, FAULT_LEN[tier] + 1)) * (len(txn_gen.c16_faults()) - 1)
    got = merged["counters"].get("exhaustive_programs", 0)
    cov = merged.setdefault("extra_coverage", {})
    cov["exhaustive_part"] = {"sequences_without_fault_up_to_length": EXHAUSTIVE_LEN[tier],
                              "sequences_with_each_fault_up_to_length": FAULT_LEN[tier], "expected": want, "judged": got}
    if got != want:
        merged["inconclusive"].append(f"exhaustive part incomplete: {got}/{want} programs judged")


def replay(witness):
    from vf.simharness import quiet_logging
    repoimport.use_repo()
    from vf import txn_judges, txn_sim
    quiet_logging()
    H = txn_sim.run_history(witness["params"])
    V, _st = txn_judges.judge_c16(H)
    return {"evaluations": 1, "violations": [{"mechanism": m, "what": w, "witness": {"params": witness["params"], "detail": d}}
                                              for m, w, d in V]}
