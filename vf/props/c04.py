"""C04 - committed offsets never pass undelivered records; no loss across crash / stop / rebalance.

Offline checker (vf.group_judges.judge_c04) over the coordinator's OffsetCommit log x the harness's delivery log in
histories of real group members on the simulated coordinator.  Every reference history is re-run with one member
killed (no leave, no final commit) or stop()ped at sampled loop events k (network delivery or timer firing) of the
reference run: the crash / stop points.
"""
from __future__ import annotations

from vf.props import _group_common as GC

PROPERTY_ID = "C04"
LEVEL = "fault_enumeration"
POINTS = {"quick": 3, "thorough": 10}
RULE = ("reference history = 1-4 real group members with auto-commit (interval 100-2000 ms) or commit() without "
        "arguments after seeded batches, records appended while they consume, script of joins / stop()s / kills / "
        "subscription changes / coordinator moves / broker bounces, OffsetCommit and other group requests failing with "
        "retriable and membership errors, lost replies, resets. Each reference history is re-run with one member killed "
        "or stopped at event k for sampled k over the events before the quiet point (quick 3, thorough 10 points per "
        "reference). Judged: (a) for every OffsetCommit the coordinator accepted, every visible record in [start position "
        "of the member's current ownership period, committed offset) had been handed to that member's application before "
        "the request arrived; (b) after the quiet point + drain every visible record of every partition still owned by a "
        "live member was delivered to some incarnation, or the final owner's position has not passed it; (c) in every "
        "ownership period no record below the committed offset the new owner was given is delivered. Non-trivial = a kill "
        "or stop executed, >= 1 accepted commit with deliveries below it and >= 2 generations. Distinct = signature over "
        "configuration, fault kinds, harness event sequence and generation membership.")
ASSUMPTIONS = [
    "trusted base: vf/simloop.py, vf/cluster.py + vf/groupcoord.py (OffsetCommit accepted in Stable and PreparingRebalance, "
    "generation/member validated), vf/wire.py, vf/refrecords.py",
    "kill = all transports severed silently, then tasks cancelled: nothing further reaches any broker",
    "auto_offset_reset=earliest and untrimmed logs (a reset to latest legitimately skips records: C13's subject)",
    "user-supplied commit(offsets) is outside the statement and not generated",
    "only OffsetFetch replies that were actually delivered to the member count as 'the committed offset it was given'",
]
REQUIRED_COUNTERS = ["histories_judged", "histories_read_committed_with_transactions", "commits_accepted", "commit_partitions_checked", "commits_with_deliveries_below",
                     "records_required", "records_delivered_at_least_once", "periods_started_from_committed",
                     "kills_executed", "stops_executed", "redelivered_records", "final_commits_on_stop",
                     "commits_before_rebalance", "crash_point_runs"]


def prepare(tier, seed, scratch):
    from vf.simharness import prepare_codec
    return prepare_codec(scratch)


def shards(tier, seed):
    return GC.shards_for(tier, seed, 4, ["commit", "commit", "commit", "mixed"], quick_per=3, thorough_per=22)


def _nontrivial(H, st):
    return (st["kills"] + st["stops"]) >= 1 and st["commits_with_deliveries_below"] >= 1 and len(H["ledger"]) >= 2


def _crash_points(tier):
    def f(P, rng, group_sim):
        H0 = group_sim.run_history(P)
        n = H0.get("events_at_quiet") or 0
        out = [P]
        if n < 50 or H0["errors"]:
            return out
        members = sorted(P["members"])
        for _ in range(POINTS[tier]):
            k = rng.randint(20, n)
            m = rng.choice(members)
            key = "kill_at_event" if rng.random() < 0.6 else "stop_at_event"
            out.append(dict(P, **{key: {"m": m, "k": k}}))
        return out
    return f


def run_shard(params):
    res = GC.run_group_shard(params, "judge_c04", _nontrivial, crash_points=_crash_points(params.get("tier", "quick")))
    res["counters"]["crash_point_runs"] = max(0, res["evaluations"] - params["n"])
    return res


def replay(witness):
    return GC.replay_group(witness, "judge_c04")
