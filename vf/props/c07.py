"""C07 - transactions are atomic and follow the transactional protocol order.

Offline checker (vf.txn_judges.judge_c07) over histories of a real transactional AIOKafkaProducer (optionally replaced
/ fenced by a second instance with the same transactional id, or killed) on the simulated transaction coordinator
(vf.txn_sim): API outcomes x an independent read_committed reading of the simulated logs x the coordinator's and the
partition leaders' request logs x client-boundary send/return times of AddPartitionsToTxn / Produce / EndTxn.
"""
from __future__ import annotations

import random

from vf import repoimport
from vf.runner import sig

PROPERTY_ID = "C07"
LEVEL = "fault_enumeration"
RULE = ("history = program of 1-6 transactions over 3 partitions on one transactional producer: per transaction 0-5 of "
        "{send, burst of 2/5/12 concurrent send()s, send_offsets_to_transaction, sleep, coordinator move}, ended by commit, "
        "abort, 'finish' (commit, on error abort) or the transaction() context manager (normal / exception exit); modes: plain "
        "(retriable fates p in {0,.1,.25,.4} on InitProducerId / AddPartitionsToTxn / AddOffsetsToTxn / TxnOffsetCommit / EndTxn / "
        "Produce / FindCoordinator: drop, reset, lost reply, delay, LOAD_IN_PROGRESS, NOT_COORDINATOR, COORDINATOR_NOT_AVAILABLE, "
        "CONCURRENT_TRANSACTIONS, produce errors), abortable (TOPIC/GROUP_AUTHORIZATION_FAILED scripted at the n-th "
        "AddPartitionsToTxn / AddOffsetsToTxn / TxnOffsetCommit), replace / zombie (a second instance with the same "
        "transactional id starts inside a transaction of the first, the first keeps calling), kill (kill -9 inside a "
        "transaction, then the replacement); marker delay 0-0.3 s (CONCURRENT_TRANSACTIONS window). Judged: committed => every "
        "accepted record visible once at read_committed and the offsets materialised; aborted (explicitly or by context "
        "exit) => none visible; failed / unfinished => all-or-none and none unless commit was requested; no phantom; no "
        "transactional batch appended while the coordinator has no open transaction with that partition (single-instance "
        "histories); no transactional Produce sent before an AddPartitionsToTxn reply covering the partition was received; "
        "no EndTxn sent while a Produce of the instance is unanswered; with retriable faults only every legal call "
        "returns normally within 4 x B_txn and no send future stays pending; after the replacement is initialised the old "
        "instance's non-empty commit / send_offsets fail. Non-trivial = >= 1 fault hit or a replacement/kill or an abortable "
        "error, and >= 1 transaction with records. Distinct = signature over (mode, program, fault kinds hit).")
ASSUMPTIONS = [
    "trusted base: vf/simloop.py, vf/cluster.py + vf/txncoord.py (transaction coordinator, markers, pre-KIP-890 leaders: "
    "pid/epoch/sequence checks only; a marker creates/updates the leader's producer state), vf/refrecords.py, "
    "vf/consume_sim.record_classes (independent read_committed classification)",
    "send() raising KafkaTimeoutError under faults (documented: batch could not be scheduled within request_timeout) is not "
    "counted as a failed transaction step",
    "B_txn = 4 x request_timeout + 60 x retry_backoff of virtual time",
]
REQUIRED_COUNTERS = ["histories_judged", "transactions_judged", "committed_transactions", "aborted_transactions",
                     "failed_or_open_transactions", "records_checked", "offset_commits_checked", "transactional_arrivals_checked",
                     "endtxn_order_checked", "produce_after_addpartitions_checked", "bounded_completion_checked",
                     "fenced_calls_checked", "retriable_faults_hit", "histories_with_replacement",
                     "histories_with_abortable_error", "concurrent_send_bursts"]


def prepare(tier, seed, scratch):
    from vf.simharness import prepare_codec
    return prepare_codec(scratch)


def shards(tier, seed):
    per = 60 if tier == "quick" else 1500
    return [{"seed": seed * 3571 + s * 17 + 7, "n": per, "pure_python": (s % 8 == 7), "timeout_s": 3300, "shard_index": s}
            for s in range(16)]


def run_shard(params):
    from vf.simharness import quiet_logging, setup_codec
    codec = setup_codec(params, params.get("pure_python"))
    repoimport.use_repo()
    from vf import txn_gen, txn_judges, txn_sim
    quiet_logging()
    res = {"evaluations": 0, "nontrivial": [], "violations": [], "inconclusive": [], "counters": {}, "sets": {},
           "samples": []}
    rng = random.Random(params["seed"])
    cnt = res["counters"]
    hits, modes = set(), set()
    seen = set()
    todo = []
    for i in range(params["n"]):
        P = txn_gen.c07_program(rng, params.get("tier", "quick"))
        if params.get("force"):
            P.update(params["force"])
        todo.append(P)
    if params.get("shard_index", params.get("shard")) == 0:
        import json as _json
        import os as _os
        with open(_os.path.join(_os.path.dirname(_os.path.abspath(__file__)), "txn_pinned.json")) as f:
            for ent in _json.load(f):
                if "C07" in ent["props"]:
                    todo.append(dict(ent["params"]))
                    cnt["pinned_histories"] = cnt.get("pinned_histories", 0) + 1
    for P in todo:
        H = txn_sim.run_history(P)
        res["evaluations"] += 1
        if H["errors"] or H["sim_errors"]:
            res["inconclusive"].append(f"history seed={P['seed']}: {H['errors'][:1]} {str(H['sim_errors'][:1])[:300]}")
            continue
        V, st = txn_judges.judge_c07(H)
        st["histories_judged"] = 1
        for k, v in st.items():
            cnt[k] = cnt.get(k, 0) + v
        hits.update(H["fault_hits"])
        modes.add(P["mode"])
        if (H["fault_hits"] or st["histories_with_replacement"] or st["histories_with_abortable_error"]) and st["records_checked"]:
            res["nontrivial"].append(sig([P["mode"], P["program"], sorted(H["fault_hits"])]))
        for mech, what, detail in V:
            cnt[f"violating_histories_{mech}"] = cnt.get(f"violating_histories_{mech}", 0) + 1
            if mech in seen:
                continue
            seen.add(mech)
            res["violations"].append({"mechanism": mech, "what": what + f" [codec: {codec}]",
                                      "witness": {"params": P, "pure_python": bool(params.get("pure_python")), "detail": detail}})
        if not res["samples"] and st["retriable_faults_hit"] and st["committed_transactions"] and st["aborted_transactions"]:
            res["samples"].append({"params": P, "ops": [{k: o.get(k) for k in ("op", "outcome", "t_call", "t_ret")} for o in H["ops"]],
                                   "read_committed": H["rc"], "log": H["ru"], "group_offsets": H["group_offsets"],
                                   "txn_log": [{k: e.get(k) for k in ("t", "op", "error", "partitions", "commit", "txn_seq")}
                                               for e in H["txn_log"]][:30]})
    res["sets"]["fault_kinds_hit"] = sorted(hits)
    res["sets"]["modes"] = sorted(modes)
    res["sets"]["codec"] = [codec]
    return res


def replay(witness):
    from vf.simharness import quiet_logging, setup_codec
    setup_codec({}, witness.get("pure_python"))
    repoimport.use_repo()
    from vf import txn_judges, txn_sim
    quiet_logging()
    H = txn_sim.run_history(witness["params"])
    V, _st = txn_judges.judge_c07(H)
    return {"evaluations": 1, "violations": [{"mechanism": m, "what": w, "witness": {"params": witness["params"], "detail": d}}
                                              for m, w, d in V]}
