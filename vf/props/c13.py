"""C13 - consumption starts at the committed offset, else per auto_offset_reset.

Start-position oracle (vf.start_sim.judge) over histories of one real AIOKafkaConsumer (group member or group-less)
started over pre-built logs with a preset committed offset, reset policy, isolation level and lookup faults, with an
optional user seek() landing at a chosen loop event between assignment and completion of the lookup.
"""
from __future__ import annotations

import random

from vf import repoimport
from vf.runner import sig

PROPERTY_ID = "C13"
LEVEL = "exploration"
RULE = ("history = one real consumer (70% group member, 30% group-less) over 1-2 generated v2 partition logs (compaction "
        "gaps, transactions with open ones so that LSO < HW, trimmed log start) x committed offset in {absent, inside, at "
        "start, at end, 0, below log start, beyond log end} x policy {earliest, latest, none} x isolation level x "
        "ListOffsets v0..v3 x OffsetFetch v1..v3 x Fetch v1..v11 brokers; lookups (OffsetFetch, ListOffsets, "
        "FindCoordinator, Fetch, Metadata) fail with retriable error codes, are dropped, reset, delayed or lose their "
        "reply until a quiet point; in 35% of the histories seek(tp, o) lands at loop event k in {0,1,2,3,5,8,12,20,40} "
        "after start() returned; in 30% of the group histories with >= 2 partitions one partition leader is down when the "
        "consumer starts and OffsetFetch replies are delayed, so that the per-leader lookups start at different times. "
        "Judged per partition after the settle bound: position() == expected start (seek target; "
        "else committed offset when the broker's log contains it; else log start / log end for the isolation level; policy "
        "none: NoOffsetForPartitionError resp. OffsetOutOfRangeError from getmany()), first record returned == first "
        "visible record at/after it, and every ListOffsets(latest) request carries the consumer's isolation level. "
        "Non-trivial = a lookup fault was hit, or a seek landed, or the committed offset was out of range. Distinct = "
        "signature over (mode, policy, isolation, committed classes, versions, seek k, fault kinds hit).")
ASSUMPTIONS = [
    "trusted base: vf/simloop.py, vf/cluster.py (ListOffsets/OffsetFetch/Fetch semantics incl. the v2+ OffsetFetch top-level "
    "error with an empty topic list, as the Java broker's getErrorResponse does), vf/loggen.py, vf/refrecords.py",
    "the logs are static until the positions have settled, so 'what the broker replied' equals the log bounds at start",
    "an out-of-range committed offset is one below the log start or above the log end (HW); offsets in (LSO, HW] are valid",
    "read_committed consumers are only run against brokers with ListOffsets >= v2 and Fetch >= v4",
    "settle bound B = 8 x request_timeout + 60 x retry_backoff of virtual time; injected faults stop 0.75 B after start(), positions are read a full B after that (bounded progress once faults cease)",
]
REQUIRED_COUNTERS = ["histories_judged", "partitions_judged", "start_from_committed", "reset_earliest", "reset_latest",
                     "policy_none_errors", "out_of_range_committed", "seek_wins_checked", "seek_while_lookup_in_flight",
                     "first_records_checked", "latest_requests_isolation_checked", "lookups_with_faults", "lso_below_hw",
                     "trimmed_logs", "group_histories", "groupless_histories", "staggered_lookup_histories"]


def prepare(tier, seed, scratch):
    from vf.simharness import prepare_codec
    return prepare_codec(scratch)


def shards(tier, seed):
    per = 60 if tier == "quick" else 1200
    return [{"seed": seed * 4099 + s * 7 + 13, "n": per, "pure_python": (s % 8 == 7), "timeout_s": 3300} for s in range(16)]


def run_shard(params):
    from vf.simharness import quiet_logging, setup_codec
    codec = setup_codec(params, params.get("pure_python"))
    repoimport.use_repo()
    from vf import start_sim
    quiet_logging()
    res = {"evaluations": 0, "nontrivial": [], "violations": [], "inconclusive": [], "counters": {}, "sets": {},
           "samples": []}
    rng = random.Random(params["seed"])
    hits = set()
    seen = set()
    cnt = res["counters"]
    for i in range(params["n"]):
        P = start_sim.gen_params(rng, i, params.get("tier", "quick"), force=params.get("force"))
        H = start_sim.run_history(P)
        res["evaluations"] += 1
        if H["errors"] or H["sim_errors"]:
            res["inconclusive"].append(f"history seed={P['seed']}: {H['errors'][:1]} {str(H['sim_errors'][:1])[:300]}")
            continue
        V, st = start_sim.judge(H)
        st["histories_judged"] = 1
        st["group_histories"] = 1 if P["group"] else 0
        st["groupless_histories"] = 0 if P["group"] else 1
        st["staggered_lookup_histories"] = 1 if H.get("staggered_leader") is not None else 0
        for k, v in st.items():
            cnt[k] = cnt.get(k, 0) + v
        hits.update(H["fault_hits"])
        if st["lookups_with_faults"] or st["seek_wins_checked"] or st["out_of_range_committed"]:
            res["nontrivial"].append(sig([P["group"], P["policy"], P["isolation"], P["committed"][:P["n_parts"]],
                                          P["list_offsets_max_version"], P["offset_fetch_max_version"],
                                          P["seek"] and P["seek"]["k"], sorted(H["fault_hits"]), P["trim_frac"] > 0]))
        for mech, what, detail in V:
            cnt[f"violating_partitions_{mech}"] = cnt.get(f"violating_partitions_{mech}", 0) + 1
            if mech in seen:
                continue
            seen.add(mech)
            res["violations"].append({"mechanism": mech, "what": what + f" [codec: {codec}]",
                                      "witness": {"params": P, "pure_python": bool(params.get("pure_python")), "detail": detail}})
        if not res["samples"] and st["seek_wins_checked"] and st["lookups_with_faults"]:
            res["samples"].append({"params": P, "committed": H["committed"], "log_bounds": H["truth0"],
                                   "events": H["events"][:12], "list_offsets": H["list_offsets"][:6],
                                   "offset_fetch": H["offset_fetch"][:4]})
    res["sets"]["fault_kinds_hit"] = sorted(hits)
    res["sets"]["codec"] = [codec]
    return res


def replay(witness):
    from vf.simharness import quiet_logging, setup_codec
    setup_codec({}, witness.get("pure_python"))
    repoimport.use_repo()
    from vf import start_sim
    quiet_logging()
    H = start_sim.run_history(witness["params"])
    V, _st = start_sim.judge(H)
    return {"evaluations": 1, "violations": [{"mechanism": m, "what": w, "witness": {"params": witness["params"], "detail": d}}
                                              for m, w, d in V]}
