"""Shared shard runner for the consumer-group properties (C04, C05, C06)."""
from __future__ import annotations

import random

from vf import repoimport
from vf.runner import sig


def shards_for(tier, seed, salt, profiles, quick_per=6, thorough_per=70, n=16):
    per = quick_per if tier == "quick" else thorough_per
    out = []
    for s in range(n):
        out.append({"seed": seed * 7919 + s * 13 + salt, "n": per, "profile": profiles[s % len(profiles)], "shard_index": s,
                    "pure_python": (s % 8 == 7), "timeout_s": 3300})
    return out


def run_group_shard(params, judge_name, nontrivial_fn, sample_fn=None, force=None, crash_points=None):
    from vf.simharness import quiet_logging, setup_codec
    codec = setup_codec(params, params.get("pure_python"))
    repoimport.use_repo()
    from vf import group_judges, group_sim
    quiet_logging()
    judge = getattr(group_judges, judge_name)
    res = {"evaluations": 0, "nontrivial": [], "violations": [], "inconclusive": [], "counters": {}, "sets": {},
           "samples": []}
    rng = random.Random(params["seed"])
    hits, configs = set(), set()
    seen_mech = set()
    cases = []
    for i in range(params["n"]):
        P = group_sim.gen_params(rng, i, params.get("tier", "quick"), params["profile"], force=force or params.get("force"))
        cases.append(P)
    if params.get("shard_index", 0) == 0:
        # histories kept from earlier runs (witnesses of repaired defects / of false alarms that were corrected)
        import json as _json
        import os as _os
        with open(_os.path.join(_os.path.dirname(_os.path.abspath(__file__)), "group_pinned.json")) as f:
            for ent in _json.load(f):
                if judge_name in ent["judges"]:
                    cases.append(dict(ent["params"], pinned=ent["name"]))
                    res["counters"]["pinned_histories"] = res["counters"].get("pinned_histories", 0) + 1
    for P in cases:
        variants = [P]
        if crash_points and not P.get("pinned"):
            variants = crash_points(P, rng, group_sim)
        for Pv in variants:
            H = group_sim.run_history(Pv)
            res["evaluations"] += 1
            cnt = res["counters"]
            if judge_name == "judge_c06" and any(e.startswith("SimLivelock") for e in H["errors"]):
                # a member that spins at a frozen instant neither heartbeats nor converges
                cnt["histories_judged"] = cnt.get("histories_judged", 0) + 1
                mech = "member_task_spins_without_waiting"
                cnt[f"violating_histories_{mech}"] = cnt.get(f"violating_histories_{mech}", 0) + 1
                if mech not in seen_mech:
                    seen_mech.add(mech)
                    res["violations"].append({"mechanism": mech, "what": H["errors"][0][:400] + f" [codec: {codec}]",
                                              "witness": {"params": Pv, "pure_python": bool(params.get("pure_python")),
                                                          "judge": judge_name, "detail": {"errors": H["errors"]}}})
                continue
            if H["errors"] or H["sim_errors"]:
                res["inconclusive"].append(f"history seed={Pv['seed']}: {H['errors'][:1]} {str(H['sim_errors'][:1])[:300]}")
                continue
            if H.get("sticky_nonterminating"):
                cnt["histories_skipped_sticky_nontermination_(C14_known_finding)"] = \
                    cnt.get("histories_skipped_sticky_nontermination_(C14_known_finding)", 0) + 1
                continue
            V, st = judge(H)
            st["histories_judged"] = 1
            st["deliveries"] = sum(1 for e in H["events"] if e["op"] == "delivery")
            st["generations"] = len(H["ledger"])
            st["kills_executed"] = sum(1 for e in H["events"] if e["op"] == "kill")
            st["stops_executed"] = sum(1 for e in H["events"] if e["op"] == "stop.call" and e.get("why") != "end")
            st["subscription_changes"] = sum(1 for e in H["events"] if e["op"] == "subscribe")
            st["coordinator_moves"] = len(H["coordinator_moves"])
            st["long_revoke_callbacks"] = sum(1 for e in H["events"] if e["op"] == "long_revoke")
            st["idle_periods"] = sum(1 for e in H["events"] if e["op"] == "idle.start")
            st["histories_pattern_subscription"] = 1 if any("pattern" in m for m in Pv["members"].values()) else 0
            st["histories_read_committed_with_transactions"] = 1 if Pv.get("isolation") == "read_committed" else 0
            st["histories_with_transactional_traffic"] = 1 if Pv.get("txn_traffic") else 0
            for k, v in st.items():
                cnt[k] = cnt.get(k, 0) + v
            hits.update(H["fault_hits"])
            configs.add(f"assignors={Pv['assignors']} joinv<={Pv['join_max_version']} members={len(Pv['members'])} "
                        f"autocommit={Pv['auto_commit']}")
            if nontrivial_fn(H, st):
                res["nontrivial"].append(sig([Pv["assignors"], Pv["join_max_version"], sorted(H["fault_hits"]),
                                              [(e["m"], e["op"]) for e in H["events"] if e["op"] != "delivery"][:80],
                                              [(g["generation"], sorted(g["members"])) for g in H["ledger"]][:30]]))
            for mech, what, detail in V:
                if mech in seen_mech:
                    cnt[f"violating_histories_{mech}"] = cnt.get(f"violating_histories_{mech}", 0) + 1
                    continue
                seen_mech.add(mech)
                cnt[f"violating_histories_{mech}"] = cnt.get(f"violating_histories_{mech}", 0) + 1
                res["violations"].append({"mechanism": mech, "what": what + f" [codec: {codec}]",
                                          "witness": {"params": Pv, "pure_python": bool(params.get("pure_python")),
                                                      "judge": judge_name, "detail": detail}})
            if not res["samples"] and st["generations"] >= 2 and st["deliveries"] > 5:
                res["samples"].append(sample_fn(H) if sample_fn else default_sample(H))
    res["sets"]["fault_kinds_hit"] = sorted(hits)
    res["sets"]["configurations"] = sorted(configs)[:80]
    res["sets"]["codec"] = [codec]
    return res


def default_sample(H):
    P = H["params"]
    return {"params": {k: P[k] for k in ("seed", "assignors", "members", "script", "join_max_version", "auto_commit",
                                         "session_timeout_ms", "rebalance_timeout_ms")},
            "generations": [{"generation": g["generation"], "protocol": g["protocol"],
                             "assignments": {m: a for m, a in g["assignments"].items()}} for g in H["ledger"][:6]],
            "harness_events": [{k: v for k, v in e.items() if k != "n"} for e in H["events"] if e["op"] != "delivery"][:40],
            "deliveries": sum(1 for e in H["events"] if e["op"] == "delivery")}


def replay_group(witness, default_judge=None):
    from vf.simharness import quiet_logging, setup_codec
    setup_codec({}, witness.get("pure_python"))
    repoimport.use_repo()
    from vf import group_judges, group_sim
    quiet_logging()
    H = group_sim.run_history(witness["params"])
    jn = witness.get("judge") or default_judge
    V, _st = getattr(group_judges, jn)(H)
    return {"evaluations": 1, "violations": [{"mechanism": m, "what": w,
                                              "witness": {"params": witness["params"], "judge": jn,
                                                          "pure_python": bool(witness.get("pure_python")), "detail": d}}
                                             for m, w, d in V]}
