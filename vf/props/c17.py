"""C17 -- keyed records choose the same partition as the Java client.

Monitor: every (key, partition list, available list) handed to the real `DefaultPartitioner` (and to
the real `AIOKafkaProducer._partition` over a real `ClusterMetadata`) is also evaluated by
`vf.refmodels_direct.java_partition`, an int32-arithmetic transcription of the Java algorithm that is
first checked against the six Java-computed literals of tests/test_partitioner.py.  A run whose
oracle fails its anchors is inconclusive, never a violation.
"""
from __future__ import annotations

import hashlib
import itertools
import random
import time
import types

from vf import refmodels_direct as ref
from vf.repoimport import use_repo

PROPERTY_ID = "C17"
LEVEL = "exploration"

RANDOM_KEYS = {"quick": 24000, "thorough": 208000}     # split over the random shards
N_RANDOM_SHARDS = {"quick": 8, "thorough": 16}
N_SHORT_SHARDS = {"quick": 4, "thorough": 8}

RULE = (
    "Keys: (1) every byte string of length 0..2 (65,793); (2) every string of length 0..7 (tail lengths "
    "0..3 with zero or one whole word) and a sample of length 8..11 (two words) over the byte alphabet "
    "{00,7F,80,FF}; (3) random keys up to 4 KiB with lengths biased to every residue mod 4, to all-high-bit "
    "bytes and to short keys.  Per key: the 31-bit masked library hash is compared with the oracle, then "
    "the partitioner is called for 3-4 partition counts chosen so that each count 1..1000 is used (the "
    "counts cycle with the key index) with identity and non-contiguous partition-id lists and with every "
    "availability subset for counts <= 4, random/empty/full subsets otherwise; keyed results must not "
    "depend on the availability subset.  Unkeyed: repeated calls must return a member of `available` when "
    "it is non-empty, else of all partitions.  Producer path: ONE real AIOKafkaProducer instance per shard (constructed, not "
    "started) whose real ClusterMetadata is updated before every group of calls with a metadata reply listing the "
    "topic's partitions in shuffled order, some leaderless, and with a partition count that differs from the previous "
    "update (the topic grows and shrinks under the live producer); keyed, unkeyed and explicit-partition records go "
    "through _partition(), and three keyed records per update through send() itself (accumulator append intercepted).  All randomness from random.Random(seed, shard).  "
    "A case is a key; non-trivial = non-empty key; distinct = distinct key bytes."
)
ASSUMPTIONS = [
    "The oracle is my transcription of org.apache.kafka.common.utils.Utils.murmur2 / toPositive; it is "
    "trusted because it reproduces the six Java-computed partitions in tests/test_partitioner.py and is "
    "written with signed 32-bit emulation, unlike the library's unsigned masking.",
    "Partition ids of a topic are 0..n-1 (Kafka's invariant) on the producer path, so 'index' and 'id' coincide.",
    "Keys are bytes (what the producer's serializer stage hands to the partitioner).",
]
REQUIRED_COUNTERS = ["anchors_checked", "hash_comparisons", "keyed_partitioner_calls", "unkeyed_calls",
                     "producer_path_calls", "producer_send_calls", "producer_path_partition_count_changes", "availability_subsets"]

ALPHABET = (0x00, 0x7F, 0x80, 0xFF)


class Lib:
    _inst = None

    def __init__(self):
        self.root = use_repo()
        import logging
        logging.getLogger("aiokafka").setLevel(logging.CRITICAL + 1)
        from aiokafka import partitioner
        from aiokafka.cluster import ClusterMetadata
        from aiokafka.producer.producer import AIOKafkaProducer
        self.mod = partitioner
        self.murmur2 = partitioner.murmur2
        self.DefaultPartitioner = partitioner.DefaultPartitioner
        self.ClusterMetadata = ClusterMetadata
        self.producer_partition = AIOKafkaProducer._partition

    @classmethod
    def get(cls):
        if cls._inst is None:
            cls._inst = cls()
        return cls._inst


class Checker:
    def __init__(self, lib, rng):
        self.lib = lib
        self.rng = rng
        self.part = lib.DefaultPartitioner()
        self.counters = {}
        self.violations = {}
        self.nontrivial = []
        self.counts_used = set()
        self.key_index = 0
        self.samples = []

    def count(self, k, n=1):
        self.counters[k] = self.counters.get(k, 0) + n

    def violate(self, mech, what, witness):
        self.count(f"violating_cases_{mech}")
        old = self.violations.get(mech)
        if old is None or len(witness.get("key_hex", "")) < len(old["witness"].get("key_hex", "")):
            self.violations[mech] = {"mechanism": mech, "what": what, "witness": witness}

    # -- one key ---------------------------------------------------------------------------
    def check_key(self, key: bytes, sig=None):
        self.key_index += 1
        want_hash = ref.java_to_positive(ref.murmur2_java(key))
        try:
            got_hash = self.lib.murmur2(key) & 0x7FFFFFFF
        except Exception as e:  # noqa: BLE001
            self.violate(f"murmur2_raises_{type(e).__name__}", f"murmur2({key[:16].hex()}..., len {len(key)}) raised {e!r}",
                         {"key_hex": key.hex()})
            return
        self.count("hash_comparisons")
        if got_hash != want_hash:
            small = self.shrink_key(key)
            self.violate("murmur2_mismatch",
                         f"murmur2 & 0x7fffffff of key len {len(small)} = {self.lib.murmur2(small) & 0x7FFFFFFF:#x}, "
                         f"Java gives {ref.java_to_positive(ref.murmur2_java(small)):#x}",
                         {"key_hex": small.hex(), "length_mod_4": len(small) % 4})
        if key:
            self.nontrivial.append(sig if sig is not None else (key.hex() if len(key) <= 8 else hashlib.sha1(key).hexdigest()[:14]))
        rng = self.rng
        ns = [(self.key_index % 1000) + 1, rng.randint(1, 1000), rng.choice((1, 2, 3, 4, 4, 5, 7, 8, 16, 31, 32, 33, 999, 1000))]
        if self.key_index % 7 == 0:
            ns.append(rng.randint(1, 4))
        for n in ns:
            self.counts_used.add(n)
            want = want_hash % n
            if self.key_index % 5 == 0:
                base = rng.randint(0, 50)
                step = rng.randint(1, 3)
                all_p = [base + i * step for i in range(n)]
            else:
                all_p = list(range(n))
            if n <= 4:
                subsets = [list(c) for r in range(n + 1) for c in itertools.combinations(all_p, r)]
            else:
                k = rng.randint(1, n)
                subsets = [[], list(all_p), rng.sample(all_p, k)]
                if want < n:
                    subsets.append([p for p in all_p if p != all_p[want]])   # the target itself unavailable
            for avail in subsets:
                if rng.random() < 0.5:
                    rng.shuffle(avail)
                try:
                    got = self.part(key, all_p, avail)
                except Exception as e:  # noqa: BLE001
                    self.violate(f"keyed_partitioner_raises_{type(e).__name__}",
                                 f"DefaultPartitioner raised {e!r}", {"key_hex": key.hex(), "all": all_p[:8], "n": n, "available": avail[:8]})
                    continue
                self.count("keyed_partitioner_calls")
                self.count("availability_subsets")
                if got != all_p[want]:
                    small = self.shrink_key(key, n)
                    mech = "keyed_partition_mismatch" if got_hash == want_hash else "keyed_partition_mismatch_from_hash"
                    self.violate(mech,
                                 f"key len {len(key)} over {n} partitions -> {got}, Java client -> index {want} = {all_p[want]}"
                                 f" (available {len(avail)}/{n})",
                                 {"key_hex": small.hex(), "n": n, "all_is_identity": all_p == list(range(n)),
                                  "available_count": len(avail)})
                    break
        if len(self.samples) < 2 and 0 < len(key) <= 24:
            n = ns[0]
            self.samples.append({"key_hex": key.hex(), "partitions": n, "java_partition": want_hash % n,
                                 "library_partition": self.part(key, list(range(n)), [])})

    def shrink_key(self, key, n=None):
        def bad(k):
            try:
                if n is None:
                    return (self.lib.murmur2(k) & 0x7FFFFFFF) != ref.java_to_positive(ref.murmur2_java(k))
                return self.part(k, list(range(n)), []) != ref.java_partition(k, n)
            except Exception:  # noqa: BLE001
                return False
        for length in range(0, len(key)):
            for cand in (key[:length], key[len(key) - length:]):
                if bad(cand):
                    return cand
        return key

    # -- unkeyed ---------------------------------------------------------------------------
    def check_unkeyed(self, n):
        rng = self.rng
        all_p = list(range(n))
        for avail in ([], list(all_p), rng.sample(all_p, rng.randint(1, n)), [rng.choice(all_p)]):
            seen = set()
            for _ in range(6):
                got = self.part(None, all_p, avail)
                self.count("unkeyed_calls")
                seen.add(got)
                if avail and got not in avail:
                    self.violate("unkeyed_not_in_available",
                                 f"unkeyed record over {n} partitions with {len(avail)} available went to unavailable {got}",
                                 {"n": n, "available": sorted(avail)[:20]})
                elif not avail and got not in all_p:
                    self.violate("unkeyed_not_in_all", f"unkeyed record went to {got}, not a partition of the topic",
                                 {"n": n})
            if len(avail) > 1 or (not avail and n > 1):
                self.count("unkeyed_distinct_choices_seen", len(seen))

    # -- through the producer --------------------------------------------------------------
    def _producer(self):
        """ONE real AIOKafkaProducer instance per shard (constructed, never started: nothing touches the network); its
        ClusterMetadata is the real one and is updated with MetadataResponse-shaped objects, so consecutive calls see the
        topic's partition count, listing order and leaders CHANGE under a live producer, as an application would."""
        if getattr(self, "_prod", None) is None:
            import asyncio
            from aiokafka.producer.producer import AIOKafkaProducer
            self._ploop = asyncio.new_event_loop()

            async def make():
                return AIOKafkaProducer(bootstrap_servers="nowhere:9092")
            self._prod = self._ploop.run_until_complete(make())
            self._sent = []
            acc = self._prod._message_accumulator
            orig = acc.add_message

            async def add_message(tp, *a, **kw):
                self._sent.append(tp)
                f = self._ploop.create_future()
                f.set_result(None)
                return f
            acc.add_message = add_message
            self._orig_add_message = orig
        return self._prod

    def close(self):
        if getattr(self, "_prod", None) is not None:
            try:
                self._prod._closed = True          # never started: nothing to stop; silences the unclosed warning
                self._ploop.close()
            except Exception:  # noqa: BLE001
                pass

    def check_producer_path(self, n, keys):
        rng = self.rng
        prod = self._producer()
        order = list(range(n))
        rng.shuffle(order)
        leaderless = set(rng.sample(order, rng.randint(0, n))) if rng.random() < 0.8 else set()
        md = prod._metadata
        before = getattr(self, "_last_n", 0)          # what the previous metadata update listed (the harness's own count)
        self._last_n = n
        md.update_metadata(types.SimpleNamespace(
            API_VERSION=1, brokers=[(0, "b0", 9092, None), (1, "b1", 9092, None)], controller_id=0,
            topics=[(0, "topic", False, [(0, p, (-1 if p in leaderless else p % 2), [0, 1], [0, 1]) for p in order])]))
        if before and before != n:
            self.count("producer_path_partition_count_changes")
        if leaderless:
            self.count("producer_path_updates_with_leaderless_partitions")
        avail = set(order) - leaderless
        wit = {"n": n, "partitions_before_this_metadata_update": before, "metadata_order": order[:50],
               "leaderless": sorted(leaderless)[:50]}
        for key in keys:
            try:
                got = prod._partition("topic", None, key, b"v", key, b"v")
            except Exception as e:  # noqa: BLE001
                self.count("producer_path_calls")
                self.violate(f"producer_partition_raises_{type(e).__name__}",
                             f"AIOKafkaProducer._partition raised {e!r} for a keyed record: {n} partitions listed, "
                             f"{len(leaderless)} of them leaderless", dict(wit, key_hex=key.hex()))
                continue
            self.count("producer_path_calls")
            want = ref.java_partition(key, n)
            if got != want:
                self.violate("producer_partition_mismatch",
                             f"AIOKafkaProducer._partition: key len {len(key)}, {n} partitions (the topic had {before} before the "
                             f"last metadata update; {len(leaderless)} leaderless) -> {got}, Java client -> {want}",
                             dict(wit, key_hex=key.hex()))
        # the same through send() itself (serializer -> _partition -> accumulator), a few keys
        for key in keys[:3]:
            del self._sent[:]
            try:
                self._ploop.run_until_complete(prod.send("topic", b"v", key=key))
            except Exception as e:  # noqa: BLE001
                self.count(f"producer_send_path_raised_{type(e).__name__}")
                continue
            self.count("producer_send_calls")
            want = ref.java_partition(key, n)
            if [tp.partition for tp in self._sent] != [want]:
                self.violate("producer_partition_mismatch",
                             f"AIOKafkaProducer.send(key of {len(key)} bytes) with {n} partitions (had {before} before the last "
                             f"metadata update) appended to partitions {[tp.partition for tp in self._sent]}, Java client -> {want}",
                             dict(wit, key_hex=key.hex(), via="send"))
        for _ in range(4):
            try:
                got = prod._partition("topic", None, None, b"v", None, b"v")
            except Exception as e:  # noqa: BLE001
                self.count("producer_path_calls")
                self.violate(f"producer_partition_raises_{type(e).__name__}",
                             f"AIOKafkaProducer._partition raised {e!r} for an unkeyed record: {n} partitions listed, "
                             f"{len(leaderless)} of them leaderless", dict(wit))
                continue
            self.count("producer_path_calls")
            self.count("producer_path_unkeyed_calls")
            if avail and got not in avail:
                self.violate("producer_unkeyed_not_in_available",
                             f"unkeyed record sent to leaderless partition {got} although {len(avail)} have a leader", dict(wit))
            elif not avail and got not in set(order):
                self.violate("producer_unkeyed_not_in_all", f"unkeyed record sent to {got}", dict(wit))
        p = rng.choice(order)
        try:
            same = prod._partition("topic", p, b"k", b"v", b"k", b"v") == p
        except Exception as e:  # noqa: BLE001
            same = True
            self.violate(f"producer_explicit_partition_raises_{type(e).__name__}",
                         f"explicit partition {p} of {n} listed partitions refused with {e!r}", dict(wit, partition=p))
        if not same:
            self.violate("producer_explicit_partition_changed", f"explicit partition {p} not honoured", {"n": n, "partition": p})
        self.count("producer_path_calls")


def random_key(rng):
    x = rng.random()
    if x < 0.30:
        n = rng.randint(0, 64)
    elif x < 0.60:
        n = rng.randint(65, 1024)
    else:
        n = rng.randint(1025, 4096)
    if rng.random() < 0.15:
        n = min(4096, (n // 4) * 4 + rng.randint(0, 3))
    y = rng.random()
    if y < 0.70:
        return rng.randbytes(n)
    if y < 0.80:
        return bytes(rng.choice(ALPHABET) for _ in range(n))
    if y < 0.90:
        return bytes(rng.randint(0x80, 0xFF) for _ in range(n))
    return bytes([rng.choice((0x00, 0xFF, 0x80))]) * n


# ------------------------------------------------------------------------------------------
# runner interface
# ------------------------------------------------------------------------------------------

def shards(tier: str, seed: int):
    out = []
    ns = N_SHORT_SHARDS[tier]
    for s in range(ns):
        out.append({"kind": "short", "part": s, "parts": ns, "seed": seed, "timeout_s": 1800})
    out.append({"kind": "patterns", "seed": seed, "two_word_sample": 4000 if tier == "quick" else 40000, "timeout_s": 1800})
    nr = N_RANDOM_SHARDS[tier]
    for s in range(nr):
        out.append({"kind": "random", "shard": s, "count": RANDOM_KEYS[tier] // nr, "seed": seed, "timeout_s": 1800})
    out.append({"kind": "counts", "seed": seed, "keys_per_count": 20 if tier == "quick" else 150, "timeout_s": 1800})
    return out


def run_shard(params):
    t0 = time.time()
    lib = Lib.get()
    rng = random.Random(f"C17/{params['seed']}/{params['kind']}/{params.get('shard', params.get('part', 0))}")
    random.seed(rng.getrandbits(64))   # the library's unkeyed path uses the global random module
    ck = Checker(lib, rng)
    res = {"evaluations": 0, "nontrivial": [], "violations": [], "inconclusive": [],
           "counters": {}, "sets": {"repo_root": [lib.root]}, "samples": []}
    bad = ref.check_murmur2_anchors()
    if bad:
        res["inconclusive"].append(f"oracle murmur2_java does not reproduce the Java anchors: {bad}")
        return res
    ck.count("anchors_checked", len(ref.JAVA_ANCHORS))
    for key, want in ref.JAVA_ANCHORS:
        got = ck.part(key, list(range(1000)), [])
        if got != want:
            ck.violate("java_anchor_mismatch", f"key {key!r} over 1000 partitions -> {got}, Java literal {want}",
                       {"key_hex": key.hex(), "n": 1000})
    kind = params["kind"]
    if kind == "short":
        part, parts = params["part"], params["parts"]
        if part == 0:
            ck.check_key(b"")
            res["evaluations"] += 1
        for b0 in range(256):
            if b0 % parts != part:
                continue
            ck.check_key(bytes([b0]))
            res["evaluations"] += 1
            for b1 in range(256):
                ck.check_key(bytes([b0, b1]))
                res["evaluations"] += 1
        ck.count("keys_length_0_to_2", res["evaluations"])
    elif kind == "patterns":
        for length in range(0, 8):
            for combo in itertools.product(ALPHABET, repeat=length):
                ck.check_key(bytes(combo))
                res["evaluations"] += 1
                ck.count("keys_highbit_patterns_len_0_7")
        for _ in range(params["two_word_sample"]):
            length = rng.randint(8, 11)
            ck.check_key(bytes(rng.choice(ALPHABET) for _ in range(length)))
            res["evaluations"] += 1
            ck.count("keys_highbit_patterns_len_8_11")
    elif kind == "random":
        for _ in range(params["count"]):
            key = random_key(rng)
            ck.check_key(key)
            res["evaluations"] += 1
            ck.count("keys_random")
            ck.count(f"keys_random_len_mod4_{len(key) % 4}")
            if len(key) > 1024:
                ck.count("keys_random_over_1KiB")
    elif kind == "counts":
        # every partition count 1..1000: keyed through partitioner and producer path, and unkeyed
        for n in range(1, 1001):
            keys = [random_key(rng)[:rng.randint(0, 40)] for _ in range(params["keys_per_count"])]
            for key in keys:
                want = ref.java_partition(key, n)
                got = ck.part(key, list(range(n)), [])
                ck.count("keyed_partitioner_calls")
                ck.count("availability_subsets")
                if got != want:
                    ck.violate("keyed_partition_mismatch", f"key len {len(key)} over {n} partitions -> {got}, Java -> {want}",
                               {"key_hex": ck.shrink_key(key, n).hex(), "n": n, "all_is_identity": True, "available_count": 0})
                if key:
                    ck.nontrivial.append(hashlib.sha1(key).hexdigest()[:14])
            ck.counts_used.add(n)
            ck.check_unkeyed(n)
            ck.check_producer_path(n, keys[:8])
            res["evaluations"] += len(keys)
            ck.count("partition_counts_swept")
    ck.close()
    res["violations"] = list(ck.violations.values())
    res["nontrivial"] = ck.nontrivial
    res["samples"] = ck.samples
    res["counters"] = dict(ck.counters)
    res["counters"]["cpu_ms"] = int((time.time() - t0) * 1000)
    res["sets"]["partition_counts_used"] = [str(n) for n in ck.counts_used]
    return res


def replay(witness):
    lib = Lib.get()
    ck = Checker(lib, random.Random(0))
    if "key_hex" in witness:
        key = bytes.fromhex(witness["key_hex"])
        ck.check_key(key)
        n = witness.get("n")
        if n:
            want, got = ref.java_partition(key, n), ck.part(key, list(range(n)), [])
            if want != got:
                ck.violate("keyed_partition_mismatch", f"{got} != Java {want} over {n}", dict(witness))
            if "metadata_order" in witness:
                b = witness.get("partitions_before_this_metadata_update")
                if b and b != n:
                    ck.check_producer_path(b, [key])       # the topic had another partition count first
                ck.check_producer_path(n, [key])
    elif "n" in witness:
        ck.check_unkeyed(witness["n"])
        ck.check_producer_path(witness["n"], [])
    return {"evaluations": 1, "violations": list(ck.violations.values())}


def finalize(merged, tier):
    used = merged["sets"].get("partition_counts_used", set())
    missing = [n for n in range(1, 1001) if str(n) not in used]
    cov = merged.setdefault("extra_coverage", {})
    cov["partition_counts_covered"] = 1000 - len(missing)
    merged["sets"].pop("partition_counts_used", None)
    short = merged["counters"].get("keys_length_0_to_2", 0)
    cov["keys_length_0_to_2_exhaustive"] = short == 1 + 256 + 65536
    if missing:
        merged["inconclusive"].append(f"partition counts never used: {missing[:20]}")
    if short != 65793:
        merged["inconclusive"].append(f"length 0..2 keys incomplete: {short}/65793")
