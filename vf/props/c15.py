"""C15 -- the sticky assignor keeps assignments that need not move.

Each case is a history of consecutive `StickyPartitionAssignor.assign()` calls on the real class.
Between two rounds every member does what a real member does: it receives its
ConsumerProtocolMemberAssignment (optionally through encode()/decode(), as SyncGroup delivers it),
`on_assignment()` / `on_generation_assignment()` store it in the member's own assignor class (one
subclass per member -- the library keeps this state in CLASS attributes), and the next round's
JoinGroup metadata comes from the real `metadata()` -> `_metadata()` -> StickyAssignorUserDataV1
encoding, which the leader side decodes with the real `parse_member_metadata()` inside assign().

Judged clauses (exactly what the statement says, on consecutive results prev -> new):
  (a) same   : membership, subscriptions, partitions unchanged           -> new == prev
  (b) remove : all members had identical subscriptions, some departed    -> no partition moves
               between two surviving members
  (c) add    : identical subscriptions (old and new members), 1..2 joined -> no partition moves
               between two old members
  (a') stale : as (a), but one member that lost partitions in the previous round did not learn that
               round's result and reports the assignment of the generation before (lower
               generation); the members' previous assignment is what the newest generation says
               and must be reproduced.  Only judged for identical subscriptions.
Rounds (b)/(c) with non-identical subscriptions are executed in random chains (they shape later
rounds) but are not judged -- the statement gives them no guarantee.
"""
from __future__ import annotations

import itertools
import json
import random
import time

from vf import refmodels_direct as ref
from vf.props import c14
from vf.runner import sig

PROPERTY_ID = "C15"
LEVEL = "exploration"

N_STRIPES = {"quick": 4, "thorough": 32}
N_RANDOM_SHARDS = {"quick": 12, "thorough": 32}
RANDOM_PER_SHARD = {"quick": 1500, "thorough": 12000}

RULE = (
    "Exhaustive part: every first-round input of C14's bounded space (thorough: <=4 members x <=3 "
    "topics x {no metadata | 0..4 partitions} x every non-empty subscription = 609,144 inputs; quick: "
    "<=3 x <=2 = 1,422) followed by (a) an identical second round; and, for the inputs whose members "
    "all have the same subscription (the precondition of clauses b/c), (b) one second round per "
    "non-empty proper subset of departed members and (c) five second rounds adding 1 or 2 new members "
    "whose ids sort before / after / around the old ones, each (c) followed by an (a') stale round for "
    "every old member that lost partitions.  Random part: histories of up to 5 rounds over up to 12 "
    "members, 8 topics, 12 partitions (60% identical subscriptions), ops drawn from same / remove / "
    "add / stale, half of them with every struct passed through its real wire encoding.  All "
    "randomness from random.Random(seed, shard).  A judged round is non-trivial when the previous "
    "assignment gives partitions to >= 2 members; distinct = (enumeration index, op) for the "
    "exhaustive part, sha1 of (layout, subscriptions, previous assignment, op) for the random part."
)
ASSUMPTIONS = [
    "Clauses (b) and (c) are judged only when all members (old and new) subscribe to the same topic set, "
    "as the statement conditions them; clause (a) is judged for every subscription pattern.",
    "'Moving between surviving/old members' = a partition owned by one such member in the previous result "
    "and by a different such member in the new result.",
    "Members keep their ids across rounds (static ids); new members join without user data.",
    "(a') reads 'the members' previous assignment' as the assignment of the newest generation when user "
    "data of different generations conflict (the conflict rule the anchored mechanism implements).",
]
REQUIRED_COUNTERS = ["judged_same", "judged_remove", "judged_add", "judged_stale", "userdata_bytes_decoded_by_assign"]


# ------------------------------------------------------------------------------------------
# running one history
# ------------------------------------------------------------------------------------------

class Run:
    def __init__(self):
        self.counters = {}
        self.violations = []
        self.nontrivial = []

    def count(self, k, n=1):
        self.counters[k] = self.counters.get(k, 0) + n


def _assign(lib, layout, subs, md):
    return lib.Sticky.assign(lib.cluster(layout), md)


def run_history(lib, case, run: Run, tag=None):
    """case = {"layout": {...}, "subs": {member: [topics]}, "ops": [...], "wire": bool}
    ops: {"op":"same"} | {"op":"remove","members":[..]} | {"op":"add","members":{id:[topics]}} |
         {"op":"stale","member": id}
    Returns the list of mechanisms fired."""
    fired = []
    wire = case.get("wire", False)
    layout = {t: (None if p is None else tuple(p)) for t, p in case["layout"].items()}
    subs = {m: tuple(v) for m, v in case["subs"].items()}
    lib.reset_sticky_members()
    snapshots = {}   # member -> (member_assignment, generation) before the latest delivery
    prev = None
    generation = 0
    ops = [None] + list(case["ops"])
    for step, op in enumerate(ops):
        kind = "first" if op is None else op["op"]
        old_members = list(subs)
        identical_before = ref.subscriptions_identical(subs)
        stale_member = None
        if kind == "remove":
            gone = set(op["members"])
            subs = {m: v for m, v in subs.items() if m not in gone}
            if not subs or len(subs) == len(old_members):
                raise ValueError("harness: remove must leave a non-empty proper subset")
        elif kind == "add":
            for m, v in op["members"].items():
                if m in subs:
                    raise ValueError("harness: added member already present")
                subs[m] = tuple(v)
                k = lib.sticky_member(m)
                k.member_assignment = None
                k.generation = lib.Sticky.DEFAULT_GENERATION_ID
            # optionally one OLD member missed the previous round's result and reports the generation before
            if op.get("stale") not in (None, "?") and op["stale"] in subs:
                stale_member = op["stale"]
                run.count("add_rounds_with_a_stale_old_member")
        elif kind == "stale":
            stale_member = op["member"]
        md = {}
        for m, v in subs.items():
            k = lib.sticky_member(m)
            if m == stale_member and snapshots.get(m) is not None:
                x = k._metadata(v, snapshots[m][0], snapshots[m][1])
            else:
                x = k.metadata(v)
            if x.user_data:
                run.count("userdata_bytes_decoded_by_assign", len(x.user_data))
            md[m] = lib.wire(x) if wire else x
        try:
            res = _assign(lib, layout, subs, md)
        except lib.stickyguard.StickyNonTermination:
            # assign() that never returns is C14's subject (known finding there); there is no second
            # result to compare, so the history ends here unjudged
            run.count("history_cut_by_nonterminating_assign")
            return fired
        except Exception as e:  # noqa: BLE001
            mech = f"sticky_round_raises_{type(e).__name__}"
            fired.append(mech)
            run.violations.append({"mechanism": mech, "what": f"round {step} ({kind}) raised {type(e).__name__}: {e}",
                                   "witness": {"case": case, "step": step}})
            return fired
        new = c14.flatten(res)
        run.count("assign_calls")
        problems = []
        judged = None
        if kind == "same":
            judged = "same"
            problems = ref.check_same_assignment(prev, new)
        elif kind == "remove":
            if identical_before:
                judged = "remove"
                problems = ref.check_no_moves_among(prev, new, subs.keys(), "sticky_moved_between_survivors")
            else:
                run.count("unjudged_remove_nonidentical")
        elif kind == "add":
            if ref.subscriptions_identical(subs):
                judged = "add"
                problems = ref.check_no_moves_among(prev, new, old_members, "sticky_moved_between_old_members")
            else:
                run.count("unjudged_add_nonidentical")
        elif kind == "stale":
            if identical_before and snapshots.get(stale_member) is not None:
                judged = "stale"
                problems = [("sticky_stale_generation_claim_wins", d) for _k, d in ref.check_same_assignment(prev, new)]
            else:
                run.count("unjudged_stale")
        if judged:
            run.count(f"judged_{judged}")
            po, no = ref.owner_map(prev), ref.owner_map(new)
            run.count("partitions_compared", len(po))
            run.count(f"partitions_changed_owner_in_{judged}", sum(1 for tp in po if no.get(tp) != po[tp]))
            if sum(1 for v in prev.values() if v) >= 2:
                if tag is not None:
                    run.nontrivial.append(f"{tag}:{step}{judged[0]}")
                else:
                    run.nontrivial.append(sig([case["layout"], c14.jsonable_subs(subs), c14.jsonable_assignment(prev), op]))
        if problems and judged in ("remove", "add"):
            # narrow classifier: the two situations in which the library does not recognise that the
            # subscriptions are identical (and therefore takes its general balancing path)
            lists = [list(v) for v in subs.values()]
            everyone = set(lists[0])
            if any(x != lists[0] for x in lists):
                suffix = "_when_subscription_order_differs"
            elif any(p and t not in everyone for t, p in layout.items()):
                suffix = "_with_unsubscribed_topic_in_cluster"
            else:
                suffix = ""
            problems = [(k + suffix, d) for k, d in problems]
        for mech, detail in problems:
            fired.append(mech)
            run.violations.append({
                "mechanism": mech,
                "what": f"round {step} ({kind}): {detail}",
                "witness": {"case": case, "step": step,
                            "previous": c14.jsonable_assignment(prev), "new": c14.jsonable_assignment(new)}})
        # deliver the assignment to the members
        generation += 1
        for m in subs:
            k = lib.sticky_member(m)
            snapshots[m] = (k.member_assignment, k.generation) if k.member_assignment is not None else None
            a = res[m]
            k.on_assignment(lib.MemberAssignment.decode(a.encode()) if wire else a)
            k.on_generation_assignment(generation)
        prev = new
    return fired


def lost_partitions(prev, new, members):
    return [m for m in members if set(prev.get(m, ())) - set(new.get(m, ()))]


# ------------------------------------------------------------------------------------------
# exhaustive second rounds
# ------------------------------------------------------------------------------------------

ADD_PATTERNS = [["a0"], ["z0"], ["a0", "a1"], ["z0", "z1"], ["a0", "z0"]]


def second_rounds(lib, layout, subs):
    """Op lists to run after the first round of (layout, subs)."""
    yield [{"op": "same"}]
    if not ref.subscriptions_identical(subs):
        return
    members = list(subs)
    common = list(next(iter(subs.values())))
    for r in range(1, len(members)):
        for gone in itertools.combinations(members, r):
            yield [{"op": "remove", "members": list(gone)}]
    for pat in ADD_PATTERNS:
        yield [{"op": "add", "members": {m: common for m in pat}}]


def expected_counts(max_m, max_t):
    a = c14.space_size(max_m, max_t)
    ident = {m: sum(len(c14.PART_STATES) ** t * (2 ** t - 1) for t in range(1, max_t + 1)) for m in range(1, max_m + 1)}
    b = sum(ident[m] * (2 ** m - 2) for m in ident)
    c = sum(ident[m] * len(ADD_PATTERNS) for m in ident)
    return {"same": a, "remove": b, "add": c}


# ------------------------------------------------------------------------------------------
# random histories
# ------------------------------------------------------------------------------------------

def random_history(rng):
    size = rng.random()
    if size < 0.3:
        nm, nt, mp = rng.randint(1, 4), rng.randint(1, 3), 5
    elif size < 0.7:
        nm, nt, mp = rng.randint(2, 8), rng.randint(1, 6), 8
    else:
        nm, nt, mp = rng.randint(4, 12), rng.randint(2, 8), 12
    topics = rng.sample(c14._TOPIC_POOL, nt)
    pool = list(c14._MEMBER_POOL)
    rng.shuffle(pool)
    members = pool[:nm]
    spare = pool[nm:]

    def rand_parts():
        x = rng.random()
        if x < 0.08:
            return None
        if x < 0.14:
            return []
        return list(range(rng.randint(1, mp)))

    layout = {t: rand_parts() for t in topics}
    identical = rng.random() < 0.6
    mode = "identical" if identical else rng.choice(["independent", "nested"])
    subs = c14._rand_subs(rng, members, topics, mode)
    common = list(next(iter(subs.values())))
    ops = []
    present = list(members)
    can_stale = False
    for _ in range(rng.randint(1, 4)):
        choices = ["same", "same"]
        if len(present) > 1:
            choices += ["remove", "remove"]
        if spare and len(present) < 12:
            choices += ["add", "add"]
        if can_stale:
            choices += ["stale", "stale", "stale"]
        k = rng.choice(choices)
        was_add = can_stale
        can_stale = False
        if k == "same":
            ops.append({"op": "same"})
        elif k == "remove":
            n = rng.randint(1, len(present) - 1)
            gone = rng.sample(present, n)
            present = [m for m in present if m not in gone]
            ops.append({"op": "remove", "members": gone})
        elif k == "add":
            n = min(rng.randint(1, 2), len(spare), 12 - len(present))
            new = [spare.pop() for _ in range(n)]
            op = {"op": "add", "members": {
                m: (list(common) if identical else rng.sample(topics, rng.randint(1, len(topics)))) for m in new}}
            if was_add and rng.random() < 0.5:
                op["stale"] = "?"      # resolved at run time: an old member that lost partitions in the preceding round
            ops.append(op)
            present += new
            can_stale = True
        elif k == "stale":
            ops.append({"op": "stale", "member": "?"})   # resolved at run time: a member that lost partitions
    return {"layout": layout, "subs": subs, "ops": ops, "wire": rng.random() < 0.5}


def resolve_stale(lib, case, rng_choice):
    """'stale' ops name a member that lost partitions in the preceding round; that is only known after
    running the prefix.  Replaces {"member": "?"} in place (or turns the op into 'same')."""
    for i, op in enumerate(case["ops"]):
        if op["op"] == "add" and op.get("stale") == "?":
            prefix = dict(case, ops=case["ops"][:i])
            hist = []
            _trace(lib, prefix, hist)
            cands = []
            if len(hist) >= 2:
                prev, new, members = hist[-2][0], hist[-1][0], hist[-2][1]
                cands = [m for m in lost_partitions(prev, new, members) if m in hist[-1][1]]
            if cands:
                op["stale"] = rng_choice(sorted(cands))
            else:
                op.pop("stale")
            continue
        if op["op"] == "stale" and op["member"] == "?":
            probe = Run()
            prefix = dict(case, ops=case["ops"][:i])
            hist = []
            _trace(lib, prefix, hist)
            if len(hist) >= 2:
                prev, new, members = hist[-2][0], hist[-1][0], hist[-2][1]
                cands = [m for m in lost_partitions(prev, new, members) if m in hist[-1][1]]
            else:
                cands = []
            if cands:
                op["member"] = rng_choice(sorted(cands))
            else:
                case["ops"][i] = {"op": "same"}
            del probe
    return case


def _trace(lib, case, hist):
    """Runs a history without judging; appends (assignment, members) per round."""
    wire = case.get("wire", False)
    layout = {t: (None if p is None else tuple(p)) for t, p in case["layout"].items()}
    subs = {m: tuple(v) for m, v in case["subs"].items()}
    lib.reset_sticky_members()
    snapshots = {}
    gen = 0
    for op in [None] + list(case["ops"]):
        stale = None
        if op is not None:
            if op["op"] == "remove":
                subs = {m: v for m, v in subs.items() if m not in set(op["members"])}
            elif op["op"] == "add":
                for m, v in op["members"].items():
                    subs[m] = tuple(v)
                    k = lib.sticky_member(m)
                    k.member_assignment = None
                    k.generation = lib.Sticky.DEFAULT_GENERATION_ID
                if op.get("stale") not in (None, "?"):
                    stale = op["stale"]
            elif op["op"] == "stale":
                stale = op["member"]
        md = {}
        for m, v in subs.items():
            k = lib.sticky_member(m)
            x = k._metadata(v, *snapshots[m]) if (m == stale and snapshots.get(m)) else k.metadata(v)
            md[m] = lib.wire(x) if wire else x
        try:
            res = _assign(lib, layout, subs, md)
        except Exception:  # noqa: BLE001
            return
        hist.append((c14.flatten(res), list(subs)))
        gen += 1
        for m in subs:
            k = lib.sticky_member(m)
            snapshots[m] = (k.member_assignment, k.generation) if k.member_assignment is not None else None
            k.on_assignment(lib.MemberAssignment.decode(res[m].encode()) if wire else res[m])
            k.on_generation_assignment(gen)


# ------------------------------------------------------------------------------------------
# shrinking
# ------------------------------------------------------------------------------------------

def _variants(case):
    ops = case["ops"]
    for i in range(len(ops) - 1, -1, -1):
        yield dict(case, ops=ops[:i] + ops[i + 1:])
    members = sorted(case["subs"])
    for m in members:
        if len(members) > 1:
            nops, ok = [], True
            for op in ops:
                if op["op"] == "remove":
                    g = [x for x in op["members"] if x != m]
                    if not g:
                        ok = False
                        break
                    op = dict(op, members=g)
                elif op["op"] == "stale" and op["member"] == m:
                    ok = False
                    break
                elif op["op"] == "add" and op.get("stale") == m:
                    ok = False
                    break
                nops.append(op)
            if ok:
                yield dict(case, subs={k: v for k, v in case["subs"].items() if k != m}, ops=nops)
    for i, op in enumerate(ops):
        if op["op"] == "add" and len(op["members"]) > 1:
            for m in op["members"]:
                yield dict(case, ops=ops[:i] + [dict(op, members={k: v for k, v in op["members"].items() if k != m})] + ops[i + 1:])
        if op["op"] == "remove" and len(op["members"]) > 1:
            for m in op["members"]:
                yield dict(case, ops=ops[:i] + [dict(op, members=[k for k in op["members"] if k != m])] + ops[i + 1:])
    for t in sorted(case["layout"]):
        s = {k: [x for x in v if x != t] for k, v in case["subs"].items()}
        if all(s.values()):
            nops, ok = [], True
            for op in ops:
                if op["op"] == "add":
                    nm = {k: [x for x in v if x != t] for k, v in op["members"].items()}
                    if not all(nm.values()):
                        ok = False
                        break
                    op = dict(op, members=nm)
                nops.append(op)
            if ok:
                yield dict(case, layout={k: v for k, v in case["layout"].items() if k != t}, subs=s, ops=nops)
    for t, p in case["layout"].items():
        if p:
            yield dict(case, layout=dict(case["layout"], **{t: list(p)[:-1]}))
    if case.get("wire"):
        yield dict(case, wire=False)


def shrink(lib, viol, budget_s=20.0):
    mech = viol["mechanism"]
    case = viol["witness"]["case"]
    best = viol
    t0 = time.time()
    changed = True
    while changed and time.time() - t0 < budget_s:
        changed = False
        for v in _variants(case):
            run = Run()
            try:
                fired = run_history(lib, v, run)
            except Exception:  # noqa: BLE001
                continue
            if mech in fired:
                case = v
                best = next(x for x in run.violations if x["mechanism"] == mech)
                changed = True
                break
            if time.time() - t0 > budget_s:
                break
    return best


# ------------------------------------------------------------------------------------------
# runner interface
# ------------------------------------------------------------------------------------------

def shards(tier: str, seed: int):
    out = []
    mm, mt = (c14.MAX_M, c14.MAX_T) if tier == "thorough" else (c14.QUICK_M, c14.QUICK_T)
    n = N_STRIPES[tier]
    for s in range(n):
        out.append({"kind": "exhaustive", "stripe": s, "stripes": n, "max_m": mm, "max_t": mt,
                    "seed": seed, "timeout_s": 3000})
    for s in range(N_RANDOM_SHARDS[tier]):
        out.append({"kind": "random", "shard": s, "count": RANDOM_PER_SHARD[tier], "seed": seed,
                    "timeout_s": 3000})
    return out


def run_shard(params):
    t0 = time.time()
    lib = c14.Lib.get()
    run = Run()
    res = {"evaluations": 0, "nontrivial": [], "violations": [], "inconclusive": [],
           "counters": {}, "sets": {"repo_root": [lib.root]}, "samples": []}
    if params["kind"] == "exhaustive":
        stripe, stripes = params["stripe"], params["stripes"]
        n_inputs = 0
        for idx, layout, subs in c14.exhaustive_inputs(params["max_m"], params["max_t"]):
            if idx % stripes != stripe:
                continue
            n_inputs += 1
            jl, js = c14.jsonable_layout(layout), c14.jsonable_subs(subs)
            for j, ops in enumerate(second_rounds(lib, layout, subs)):
                case = {"layout": jl, "subs": js, "ops": ops}
                run_history(lib, case, run, tag=f"{idx:x}.{j}")
                res["evaluations"] += 1
                run.count(f"exhaustive_second_rounds_{ops[0]['op']}")
                if ops[0]["op"] == "add":
                    # (a') one stale round per old member that lost partitions to the newcomers
                    hist = []
                    _trace(lib, case, hist)
                    if len(hist) == 2:
                        for b in lost_partitions(hist[0][0], hist[1][0], hist[0][1]):
                            c2 = dict(case, ops=ops + [{"op": "stale", "member": b}])
                            run_history(lib, c2, run, tag=f"{idx:x}.{j}.{b}")
                            res["evaluations"] += 1
                            run.count("exhaustive_third_rounds_stale")
                            if not res["samples"] and stripe == 0 and idx > 1200:
                                res["samples"].append({"exhaustive_index": idx, "history": c2})
        run.count("exhaustive_inputs", n_inputs)
        run.count("exhaustive_stripes_completed")
    else:
        rng = random.Random(f"C15/{params['seed']}/{params['shard']}")
        for i in range(params["count"]):
            case = resolve_stale(lib, random_history(rng), rng.choice)
            run_history(lib, case, run)
            res["evaluations"] += len(case["ops"])   # every round transition is one evaluated pair of results
            run.count("random_histories")
            run.count("random_rounds", 1 + len(case["ops"]))
            if i == 5 and not res["samples"]:
                res["samples"].append({"random_history": case})
    by_mech = {}
    for v in run.violations:
        by_mech.setdefault(v["mechanism"], []).append(v)
    for mech, vs in sorted(by_mech.items()):
        best = min(vs, key=lambda v: len(json.dumps(v["witness"], default=str)))
        res["violations"].append(shrink(lib, best))
        run.count(f"violating_rounds_{mech}", len(vs))
    res["nontrivial"] = run.nontrivial
    res["counters"] = dict(run.counters)
    res["counters"]["cpu_ms"] = int((time.time() - t0) * 1000)
    return res


def replay(witness):
    lib = c14.Lib.get()
    run = Run()
    run_history(lib, witness["case"], run)
    return {"evaluations": 1, "violations": run.violations}


def finalize(merged, tier):
    mm, mt = (c14.MAX_M, c14.MAX_T) if tier == "thorough" else (c14.QUICK_M, c14.QUICK_T)
    want = expected_counts(mm, mt)
    got = {k: merged["counters"].get(f"exhaustive_second_rounds_{k}", 0) for k in want}
    stripes = merged["counters"].get("exhaustive_stripes_completed", 0)
    inputs = merged["counters"].get("exhaustive_inputs", 0)
    complete = got == want and stripes == N_STRIPES[tier] and inputs == c14.space_size(mm, mt)
    cov = merged.setdefault("extra_coverage", {})
    cov["exhaustive_space"] = {
        "bounds": f"first rounds: <= {mm} members x <= {mt} topics x (no metadata | 0..{c14.MAX_P} partitions) x every "
                  "non-empty subscription; second rounds: (a) all, (b) every non-empty proper subset removed and "
                  "(c) +1/+2 members in 5 id patterns for the identical-subscription inputs",
        "first_round_inputs": inputs, "second_rounds_expected": want, "second_rounds_run": got, "complete": complete,
    }
    if tier == "thorough":
        cov["exhaustive"] = bool(complete)
    if not complete:
        merged["inconclusive"].append(f"exhaustive part incomplete: ran {got} of {want}, {stripes}/{N_STRIPES[tier]} stripes")
