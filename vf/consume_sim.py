"""Group-less consumer histories over generated partition logs (C03, C08).

run_history(P) drives a real AIOKafkaConsumer (manual assignment) with several tasks issuing a seeded mix of
getone/getmany/seek/pause/resume/position calls against the simulated cluster, whose partition logs are built
with the independent reference encoder (vf.loggen).  Returns a JSON-able history:
  events: program-order log of every API call with what it returned
  truth:  tp -> visible records at the consumer's isolation level [(offset, uid, ts, key_hex)], bounds
  fetches: broker-side fetch replies
"""
from __future__ import annotations

import asyncio
import random

from vf import cluster as C
from vf import loggen
from vf.simharness import FaultPlan, make_cluster, owned, run_sim, idle_ms

TOPIC = "t"


def gen_params(rng, idx, tier="quick", txn=None):
    magics = rng.choice([(2,), (2,), (1,), (0,), (0, 1, 2), (1, 2)])
    txn = (rng.random() < 0.4) if txn is None else txn
    if txn:
        magics = (2,) if rng.random() < 0.8 else (1, 2)
    iso = rng.choice(["read_uncommitted", "read_committed"]) if txn else "read_uncommitted"
    P = {
        "idx": idx, "seed": rng.randrange(2**31),
        "n_parts": rng.choice([1, 2, 3]),
        "n_batches": rng.choice([6, 10, 16, 24]) if tier == "quick" else rng.choice([8, 16, 30, 50]),
        "magics": list(magics), "txn": txn, "compaction": rng.random() < 0.6,
        "isolation": iso,
        "loaded_frac": rng.choice([1.0, 1.0, 0.5, 0.2]),
        "max_partition_fetch_bytes": rng.choice([150, 400, 1000, 100000]),
        "fetch_max_wait_ms": rng.choice([50, 200, 500]),
        "fetch_one_batch": rng.random() < 0.3,
        "partial_tail": rng.random() < 0.4,
        "fetch_max_version": rng.choice([4, 5, 7, 10, 11, 11]) if iso == "read_committed" else rng.choice([1, 2, 3, 4, 7, 10, 11, 11]),
        "fault_p": rng.choice([0.0, 0.0, 0.1, 0.25]),
        "n_leader_moves": rng.choice([0, 0, 1, 3]),
        "n_tasks": rng.choice([1, 1, 2, 3]),
        "n_ops": rng.choice([15, 30, 60]),
        "op_weights": rng.choice([
            {"getone": 5, "getmany": 3, "seek": 1, "pause": 1, "resume": 1, "position": 1, "sleep": 1},
            {"getone": 2, "getmany": 5, "seek": 2, "pause": 0, "resume": 0, "position": 2, "sleep": 1},
            {"getone": 4, "getmany": 4, "seek": 0, "pause": 2, "resume": 2, "position": 1, "sleep": 2},
            {"getone": 3, "getmany": 3, "seek": 3, "pause": 1, "resume": 1, "position": 3, "sleep": 0},
        ]),
        "request_timeout_ms": rng.choice([2000, 4000]),
        "retry_backoff_ms": rng.choice([50, 100]),
        "quiet_after": 12.0,
        "check_crcs": rng.random() < 0.8,
        "trim_frac": rng.choice([0.0, 0.0, 0.2, 0.5]),     # log start > 0: positions below it are out of range
        "getone_only": rng.random() < 0.25,                 # consume (and drain) through getone() alone
        # replies of all brokers arrive on a common time lattice (several fetch replies complete in one loop pass)
        "reply_quantum": rng.choice([None, None, 0.01, 0.05]),
        # drain through ONE getone() call per record that is allowed to block for the whole retry bound: a wake-up
        # lost while the record already sits in the fetch buffer is not repaired by calling again
        "patient_drain": rng.random() < 0.35,
    }
    if P["patient_drain"] and rng.random() < 0.7:
        # leave most of the log for the drain phase, spread over at least two brokers
        P["n_ops"] = 15
        P["n_parts"] = max(2, P["n_parts"])
        P["reply_quantum"] = P["reply_quantum"] or 0.01
    return P


def run_history(P):
    from aiokafka import AIOKafkaConsumer
    from aiokafka.structs import TopicPartition

    rng = random.Random(P["seed"])
    net, cl = make_cluster(P["seed"], n_brokers=3, versions={1: (0, P["fetch_max_version"])})
    if P.get("reply_quantum"):
        net.quantum = P["reply_quantum"]
        net.fragment = False
    cl.create_topic(TOPIC, P["n_parts"])
    cl.fetch_one_batch = P["fetch_one_batch"]
    cl.partial_tail = P["partial_tail"]
    logs = {}
    later = []
    for p in range(P["n_parts"]):
        raws = loggen.gen_log(random.Random(P["seed"] * 13 + p), n_batches=P["n_batches"], magics=tuple(P["magics"]),
                              txn=P["txn"], compaction=P["compaction"], uid_prefix=f"p{p}o")
        k = max(1, int(len(raws) * P["loaded_frac"]))
        for raw in raws[:k]:
            cl.plog(TOPIC, p).append_raw(raw, 0.0)
        for raw in raws[k:]:
            later.append((p, raw))
        logs[p] = raws
        pl = cl.plog(TOPIC, p)
        if P.get("trim_frac") and len(pl.batches) > 2:
            pl.log_start = pl.batches[int(len(pl.batches) * P["trim_frac"])].base
    plan = FaultPlan(random.Random(P["seed"] ^ 0xFE7C), p={"Fetch": P["fault_p"], "Metadata": P["fault_p"] / 2,
                                                           "ListOffsets": P["fault_p"]},
                     kinds={"Fetch": ["drop_before", "reset_after", "lose_reply", "delay",
                                      ("error", C.NOT_LEADER_FOR_PARTITION), ("error", C.UNKNOWN_TOPIC_OR_PARTITION),
                                      ("error", C.LEADER_NOT_AVAILABLE), ("error", C.REQUEST_TIMED_OUT)],
                            "Metadata": ["drop_before", "delay"], "ListOffsets": ["drop_before", "delay"]})
    cl.faults = plan
    H = {"params": P, "events": [], "errors": [], "notes": []}
    tps = [TopicPartition(TOPIC, p) for p in range(P["n_parts"])]

    async def main(loop):
        t0 = loop.time()
        H["t0"] = t0
        plan.quiet_at = t0 + P["quiet_after"]
        ev = H["events"]

        def log(task, op, **kw):
            kw.update(n=len(ev), t=loop.time() - t0, task=task, op=op)
            ev.append(kw)
            return kw

        def rec(m):
            return {"p": m.partition, "o": m.offset, "uid": C.uid_of(m.value), "ts": m.timestamp,
                    "key": m.key.hex() if m.key is not None else None}

        with owned("consumer"):
            cons = AIOKafkaConsumer(bootstrap_servers=cl.bootstrap(), group_id=None, enable_auto_commit=False,
                                    auto_offset_reset="earliest", isolation_level=P["isolation"],
                                    max_partition_fetch_bytes=P["max_partition_fetch_bytes"],
                                    fetch_max_wait_ms=P["fetch_max_wait_ms"], request_timeout_ms=P["request_timeout_ms"],
                                    retry_backoff_ms=P["retry_backoff_ms"], check_crcs=P["check_crcs"],
                                    metadata_max_age_ms=5000, connections_max_idle_ms=idle_ms(P))
            cons.assign(tps)
            plan.enabled = False
            await cons.start()
            plan.enabled = True
        # explicit start positions (C13 covers reset policies)
        for tp in tps:
            leo = cl.plog(TOPIC, tp.partition).leo
            o = rng.choice([0, 0, rng.randint(0, leo)])
            cons.seek(tp, o)
            log(-1, "seek", p=tp.partition, o=o)

        async def appender():
            for p, raw in later:
                await asyncio.sleep(rng.uniform(0.0, P["quiet_after"] * 0.8 / max(1, len(later))))
                cl.plog(TOPIC, p).append_raw(raw, loop.time())

        async def mischief():
            for _ in range(P["n_leader_moves"]):
                await asyncio.sleep(rng.uniform(0.01, P["quiet_after"] * 0.6))
                cl.move_leader(TOPIC, rng.randrange(P["n_parts"]))

        bg = [asyncio.ensure_future(appender()), asyncio.ensure_future(mischief())]
        weights = dict(P["op_weights"])
        if P.get("getone_only"):
            weights["getone"] += weights["getmany"]
            weights["getmany"] = 0
        names = [k for k, w in weights.items() if w > 0]
        ws = [weights[k] for k in names]

        async def worker(ti):
            trng = random.Random(P["seed"] * 101 + ti)
            for _ in range(P["n_ops"]):
                if loop.time() - t0 > P["quiet_after"]:
                    break
                op = trng.choices(names, ws)[0]
                sub = [tp for tp in tps if trng.random() < 0.5] if trng.random() < 0.4 else []
                try:
                    if op == "getone":
                        e = log(ti, "getone.call", parts=[tp.partition for tp in sub])
                        try:
                            with owned("consumer"):
                                m = await asyncio.wait_for(cons.getone(*sub), trng.choice([0.05, 0.3, 1.0]))
                            log(ti, "getone", parts=[tp.partition for tp in sub], recs=[rec(m)], call=e["n"])
                        except asyncio.TimeoutError:
                            log(ti, "getone", parts=[tp.partition for tp in sub], recs=[], call=e["n"], timeout=True)
                    elif op == "getmany":
                        tmo = trng.choice([0, 50, 300])
                        mx = trng.choice([None, None, 1, 3])
                        e = log(ti, "getmany.call", parts=[tp.partition for tp in sub], timeout_ms=tmo, max_records=mx)
                        with owned("consumer"):
                            res = await cons.getmany(*sub, timeout_ms=tmo, max_records=mx)
                        recs = []
                        for tp, msgs in res.items():
                            recs.extend(rec(m) for m in msgs)
                        log(ti, "getmany", parts=[tp.partition for tp in sub], recs=recs, max_records=mx, call=e["n"])
                    elif op == "seek":
                        tp = trng.choice(tps)
                        leo = cl.plog(TOPIC, tp.partition).leo
                        o = trng.randint(0, leo)
                        cons.seek(tp, o)
                        log(ti, "seek", p=tp.partition, o=o)
                        if trng.random() < 0.5:
                            pos = await cons.position(tp)
                            log(ti, "position", p=tp.partition, pos=pos, after_seek=o)
                    elif op == "pause":
                        tp = trng.choice(tps)
                        cons.pause(tp)
                        log(ti, "pause", p=tp.partition)
                    elif op == "resume":
                        tp = trng.choice(tps)
                        cons.resume(tp)
                        log(ti, "resume", p=tp.partition)
                    elif op == "position":
                        tp = trng.choice(tps)
                        pos = await asyncio.wait_for(cons.position(tp), 2.0)
                        log(ti, "position", p=tp.partition, pos=pos)
                    else:
                        await asyncio.sleep(trng.choice([0.001, 0.02, 0.2]))
                except asyncio.TimeoutError:
                    pass
                except Exception as e:
                    log(ti, "exception", exc=type(e).__name__, msg=str(e)[:200], during=op)

        workers = [asyncio.ensure_future(worker(i)) for i in range(P["n_tasks"])]
        await asyncio.wait(workers)
        now = loop.time() - t0
        if now < P["quiet_after"]:
            await asyncio.sleep(P["quiet_after"] - now + 0.01)
        await asyncio.wait(bg)
        H["t_quiet"] = loop.time() - t0
        # drain to the end of every log
        for tp in tps:
            cons.resume(tp)
            log(-1, "resume", p=tp.partition)
        n_batches_total = sum(len(v) for v in logs.values())
        bound = (4 * (P["request_timeout_ms"] + P["fetch_max_wait_ms"]) / 1000.0 + 40 * P["retry_backoff_ms"] / 1000.0) \
            * max(1, n_batches_total)
        H["bound"] = bound
        idle = 0
        t_drain = loop.time()
        # stop early only after a silence several request timeouts long (a fetch whose reply was lost just
        # before the quiet point needs request_timeout to be retried)
        idle_limit = int(3 * P["request_timeout_ms"] / 300.0) + 5
        patient = bool(P.get("patient_drain"))
        patience = 3 * P["request_timeout_ms"] / 1000.0 + 2.0
        if patient:
            idle_limit = 1
        while loop.time() - t_drain < bound and idle < idle_limit:
            if P.get("getone_only") or patient:
                e = log(-1, "getone.call", parts=[], patient=patient)
                try:
                    with owned("consumer"):
                        m = await asyncio.wait_for(cons.getone(), patience if patient else 0.3)
                    log(-1, "getone", parts=[], recs=[rec(m)], call=e["n"])
                    idle = 0
                except asyncio.TimeoutError:
                    log(-1, "getone", parts=[], recs=[], call=e["n"], timeout=True)
                    idle += 1
                except Exception as ex:
                    log(-1, "exception", exc=type(ex).__name__, msg=str(ex)[:200], during="drain")
                    break
                continue
            e = log(-1, "getmany.call", parts=[], timeout_ms=300, max_records=None)
            try:
                with owned("consumer"):
                    res = await cons.getmany(timeout_ms=300)
            except Exception as ex:
                log(-1, "exception", exc=type(ex).__name__, msg=str(ex)[:200], during="drain")
                break
            recs = []
            for tp, msgs in res.items():
                recs.extend(rec(m) for m in msgs)
            log(-1, "getmany", parts=[], recs=recs, max_records=None, call=e["n"])
            idle = 0 if recs else idle + 1
        H["final_positions"] = {}
        for tp in tps:
            try:
                H["final_positions"][str(tp.partition)] = await asyncio.wait_for(cons.position(tp), 2.0)
            except Exception as ex:
                H["final_positions"][str(tp.partition)] = f"{type(ex).__name__}"
        with owned("consumer"):
            await cons.stop()
        H["t_end"] = loop.time() - t0

    try:
        run_sim(main, seed=P["seed"], net=net, max_virtual_s=7200, max_events=600000)
    except Exception as e:
        H["errors"].append(f"{type(e).__name__}: {e}")
    iso = 1 if P["isolation"] == "read_committed" else 0
    H["truth"] = {}
    for p in range(P["n_parts"]):
        pl = cl.plog(TOPIC, p)
        H["truth"][str(p)] = {
            "visible": [(o, C.uid_of(r.value), r.timestamp, r.key.hex() if r.key is not None else None)
                        for (o, r, sb) in pl.visible_records(iso)],
            "hw": pl.hw, "lso": pl.lso, "log_start": pl.log_start, "bound": pl.lso if iso else pl.hw,
            "n_batches": len(pl.batches),
            "control_offsets": [sb.base for sb in pl.batches if sb.view.is_control],
            "aborted": pl.aborted,
            "classes": record_classes(pl),
        }
    H["fetches"] = [{k: e.get(k) for k in ("t", "node", "topic", "partition", "error", "fetch_offset", "n_bytes", "batches", "isolation")}
                    for e in cl.events if e["kind"] == "fetch_reply"]
    H["fault_hits"] = dict(plan.hits)
    H["sim_errors"] = [e for e in cl.events if e["kind"] in ("SIM_ENCODE_ERROR", "undecodable_request", "bad_header",
                                                              "unsupported_request")]
    return H


def record_classes(pl):
    """offset -> plain | committed | aborted | open | control (independent reading of the simulator's log)."""
    out = {}
    for sb in pl.batches:
        v = sb.view
        for r in v.records:
            if v.is_control:
                c = "control"
            elif v.magic == 2 and v.is_transactional:
                if any(p == v.pid and f <= r.offset <= m for (p, f, m) in pl.aborted):
                    c = "aborted"
                elif any(p == v.pid and f <= r.offset <= m for (p, f, m) in pl.committed_ranges):
                    c = "committed"
                else:
                    c = "open"
            else:
                c = "plain"
            out[str(r.offset)] = c
    return out


def judge_cursor(H, want_stats=True):
    """The per-partition cursor oracle (C03; reused by C08). -> (violations, stats)"""
    V = []
    st = {"records_checked": 0, "seeks": 0, "seek_with_fetch_in_flight": 0, "positions_checked": 0,
          "pause_windows": 0, "getmany_subset_calls": 0, "drained_partitions": 0, "records_after_seek_checked": 0}
    truth = H["truth"]
    vis = {int(p): t["visible"] for p, t in truth.items()}
    voff = {p: [x[0] for x in v] for p, v in vis.items()}
    vrow = {p: {x[0]: x for x in v} for p, v in vis.items()}
    import bisect
    cursor = {}
    paused = {p: False for p in vis}
    fresh_seek = {}

    def next_visible(p, c):
        i = bisect.bisect_left(voff[p], c)
        return voff[p][i] if i < len(voff[p]) else None

    fetch_times = sorted((f["t"] - H["t0"], f["partition"]) for f in H["fetches"])
    for e in H["events"]:
        op = e["op"]
        if op == "seek":
            cursor[e["p"]] = e["o"]
            fresh_seek[e["p"]] = e["n"]
            st["seeks"] += 1
        elif op == "pause":
            if not paused[e["p"]]:
                st["pause_windows"] += 1
            paused[e["p"]] = True
        elif op == "resume":
            paused[e["p"]] = False
        elif op == "position":
            p = e["p"]
            st["positions_checked"] += 1
            c = cursor.get(p)
            if c is None:
                continue
            nv = next_visible(p, c)
            upper = nv if nv is not None else max(truth[str(p)]["bound"], c)
            if "after_seek" in e and e["pos"] != e["after_seek"]:
                V.append(("position_differs_from_sought_offset_right_after_seek",
                          f"partition {p}: seek({e['after_seek']}) then position() == {e['pos']}", {"event": e}))
            elif e["pos"] < c:
                V.append(("position_behind_last_returned_record", f"partition {p}: position() == {e['pos']} but records up to "
                          f"{c - 1} were already returned / sought", {"event": e, "cursor": c}))
            elif e["pos"] > upper:
                V.append(("position_ahead_of_undelivered_visible_record", f"partition {p}: position() == {e['pos']} but the "
                          f"visible record at {upper} has not been returned", {"event": e, "cursor": c, "next_visible": nv}))
        elif op in ("getone", "getmany"):
            if e["parts"]:
                st["getmany_subset_calls"] += 1
            if op == "getmany" and e.get("max_records") is not None and len(e["recs"]) > e["max_records"]:
                V.append(("getmany_returned_more_than_max_records", f"getmany(max_records={e['max_records']}) returned "
                          f"{len(e['recs'])} records", {"event": e}))
            for r in e["recs"]:
                p = r["p"]
                st["records_checked"] += 1
                if e["parts"] and p not in e["parts"]:
                    V.append(("record_from_partition_outside_partitions_argument", f"{op}(partitions={e['parts']}) returned a "
                              f"record of partition {p}", {"event": e}))
                if paused[p]:
                    V.append(("record_returned_from_paused_partition", f"partition {p} offset {r['o']} returned while paused",
                              {"event": e}))
                c = cursor.get(p, 0)
                nv = next_visible(p, c)
                if p in fresh_seek:
                    st["records_after_seek_checked"] += 1
                    del fresh_seek[p]
                if nv is None or r["o"] != nv:
                    if r["o"] < c:
                        mech = "record_repeated_or_before_start_position"
                    elif r["o"] not in vrow[p]:
                        mech = "invisible_record_delivered"
                    else:
                        mech = "visible_record_skipped"
                    V.append((mech, f"partition {p}: returned offset {r['o']} (uid {r['uid']}), expected next visible offset "
                              f"{nv} from position {c}", {"event": {k: v for k, v in e.items() if k != 'recs'}, "record": r,
                                                           "cursor": c, "expected": nv}))
                    cursor[p] = max(c, r["o"] + 1)
                    continue
                row = vrow[p][nv]
                if r["uid"] != row[1] or r["key"] != row[3] or (row[2] is not None and r["ts"] != row[2]):
                    V.append(("delivered_record_differs_from_log", f"partition {p} offset {r['o']}: delivered uid/key/ts "
                              f"{r['uid']}/{r['key']}/{r['ts']} but the log holds {row[1]}/{row[3]}/{row[2]}", {"record": r, "row": row}))
                cursor[p] = r["o"] + 1
    # bounded progress: every partition drained to its end
    if not H["errors"]:
        for p in vis:
            c = cursor.get(p, 0)
            nv = next_visible(p, c)
            if nv is not None:
                V.append(("delivery_stalled_before_end_of_log", f"partition {p}: after the quiet point and {H.get('bound', 0):.0f}s "
                          f"of draining the visible record at offset {nv} was never delivered (position {c})",
                          {"cursor": c, "next_visible": nv, "final_position": H.get("final_positions", {}).get(str(p))}))
            else:
                st["drained_partitions"] += 1
    st["_cursors"] = {str(p): cursor.get(p, 0) for p in vis}
    P = H["params"]
    st["patient_drain_histories"] = 1 if P.get("patient_drain") else 0
    st["patient_getone_records"] = sum(1 for e in H["events"] if e["op"] == "getone" and e["task"] == -1 and e.get("recs")
                                       and P.get("patient_drain"))
    st["reply_lattice_histories"] = 1 if P.get("reply_quantum") else 0
    # observation: fetch replies of different brokers (one with data, one without) that reached the client in the
    # same loop pass (same lattice cell)
    st["coincident_data_and_empty_fetch_replies"] = 0
    if P.get("reply_quantum"):
        import math
        cells = {}
        for f in H.get("fetches", []):
            if f.get("t") is None:
                continue
            cells.setdefault(math.ceil(f["t"] / P["reply_quantum"] + 1e-9), []).append(f)
        for fs in cells.values():
            nodes_data = {f.get("node") for f in fs if f.get("n_bytes")}
            nodes_empty = {f.get("node") for f in fs if not f.get("n_bytes")}
            if nodes_data and nodes_empty and len(nodes_data | nodes_empty) > 1:
                st["coincident_data_and_empty_fetch_replies"] += 1
    # seeks that overlapped an in-flight fetch (for the non-triviality rule)
    calls = {}
    for e in H["events"]:
        if e["op"] == "seek" and e["task"] >= 0:
            st["seek_with_fetch_in_flight"] += 1 if any(abs(t - e["t"]) < 0.6 and p == e["p"] for t, p in fetch_times) else 0
    return V, st
