"""Build aiokafka's compiled record codec from the CURRENT .pyx sources and serve it.

The in-tree ``aiokafka/record/_crecords/*.so`` are untracked build products that may be stale;
they are never used.  ``build(kind, dest_dir)`` copies the .pyx/.pxd/.pxi/crc32c.[ch] sources of
``repoimport.REPO_ROOT`` into ``dest_dir/src``, cythonizes and compiles them

  kind == "plain":  default compiler, -O2
  kind == "asan":   clang -O1 -g -fno-omit-frame-pointer -fsanitize=address
                    -fsanitize-recover=address, linked -fsanitize=address -shared-libasan
                    (AddressSanitizer only; UBSan is not part of any verdict: hton.pxd stores through
                    unaligned uint16_t*/uint32_t* on purpose).  -fsanitize-recover only has an effect
                    when the process runs with ASAN_OPTIONS=halt_on_error=0 (asan_env(recover=True)):
                    then a bad access is reported and execution continues, which lets one process
                    judge thousands of hostile inputs (report attributed per case via the log size).

and returns the directory holding the four extension modules.  ``install_finder(dir)`` puts a
``sys.meta_path`` finder in front that maps ONLY ``aiokafka.record._crecords.<mod>`` (cutil,
default_records, legacy_records, memory_records) to those files; the package ``__init__`` and every
``.py`` still come from the repository.  ``asan_env()`` is the environment an interpreter needs
to load the ASan build.

dest_dir must be outside /repo and /verif (a tempfile.mkdtemp dir or the runner's scratch dir).
"""
from __future__ import annotations

import glob
import importlib.abc
import importlib.machinery
import importlib.util
import os
import shutil
import subprocess
import sys
import textwrap

from . import repoimport

MODULES = ("cutil", "default_records", "legacy_records", "memory_records")
PKG = "aiokafka.record._crecords"
PY = "/venv/bin/python"
ASAN_RT = "/usr/lib/llvm-14/lib/clang/14.0.6/lib/linux/libclang_rt.asan-x86_64.so"
SYMBOLIZER = "/usr/bin/llvm-symbolizer-14"

_BUILD_SCRIPT = textwrap.dedent(
    """
    import sys
    from setuptools import Extension, setup
    from Cython.Build import cythonize

    kind = sys.argv.pop(1)
    if kind == "asan":
        cflags = ["-O1", "-g", "-fno-omit-frame-pointer", "-fsanitize=address", "-fsanitize-recover=address"]
        ldflags = ["-fsanitize=address", "-shared-libasan"]
    else:
        cflags = ["-O2"]
        ldflags = []
    P = "aiokafka/record/_crecords/"
    def ext(name, extra=()):
        return Extension("aiokafka.record._crecords." + name, [P + s for s in extra] + [P + name + ".pyx"],
                         libraries=["z"], extra_compile_args=cflags, extra_link_args=ldflags)
    exts = [ext("legacy_records"), ext("default_records", ["crc32c.c"]), ext("memory_records"),
            ext("cutil", ["crc32c.c"])]
    setup(name="vf_crecords", ext_modules=cythonize(exts, nthreads=4, quiet=True, language_level=3),
          script_args=["-q", "build_ext", "-j4", "--build-lib", "out", "--build-temp", "tmp"])
    """
)


class BuildError(RuntimeError):
    pass


def _check_outside(path: str) -> None:
    real = os.path.realpath(path)
    here = os.path.realpath(os.path.dirname(os.path.dirname(os.path.abspath(__file__))))
    for forbidden in (os.path.realpath(repoimport.REPO_ROOT), here, "/repo"):
        if real == forbidden or real.startswith(forbidden + os.sep):
            raise BuildError(f"build dir {path} must be outside {forbidden}")


def build(kind: str, dest_dir: str) -> str:
    """Compile the four _crecords modules; returns the directory containing the .so files."""
    if kind not in ("plain", "asan"):
        raise ValueError(kind)
    _check_outside(dest_dir)
    src_root = os.path.join(dest_dir, "src")
    pkg_dir = os.path.join(src_root, "aiokafka", "record", "_crecords")
    if os.path.isdir(src_root):
        shutil.rmtree(src_root)
    os.makedirs(pkg_dir)
    for d in (os.path.join(src_root, "aiokafka"), os.path.join(src_root, "aiokafka", "record"), pkg_dir):
        with open(os.path.join(d, "__init__.py"), "w"):
            pass
    repo_pkg = os.path.join(os.path.abspath(repoimport.REPO_ROOT), "aiokafka", "record", "_crecords")
    copied = 0
    for pat in ("*.pyx", "*.pxd", "*.pxi", "crc32c.c", "crc32c.h"):
        for f in glob.glob(os.path.join(repo_pkg, pat)):
            shutil.copy(f, pkg_dir)
            copied += 1
    if copied < 8:
        raise BuildError(f"extension sources not found under {repo_pkg}")
    with open(os.path.join(src_root, "build_ext.py"), "w") as f:
        f.write(_BUILD_SCRIPT)
    env = dict(os.environ)
    for k in ("LD_PRELOAD", "ASAN_OPTIONS", "PYTHONMALLOC", "AIOKAFKA_NO_EXTENSIONS"):
        env.pop(k, None)
    if kind == "asan":
        env["CC"] = "clang"
        env["LDSHARED"] = "clang -shared"
    cp = subprocess.run([PY, "build_ext.py", kind], cwd=src_root, env=env, stdout=subprocess.PIPE,
                        stderr=subprocess.STDOUT, timeout=600)
    out_dir = os.path.join(src_root, "out", "aiokafka", "record", "_crecords")
    missing = [m for m in MODULES if not glob.glob(os.path.join(out_dir, m + ".*.so"))]
    if cp.returncode != 0 or missing:
        raise BuildError(f"extension build ({kind}) failed rc={cp.returncode} missing={missing}: "
                         + cp.stdout.decode(errors="replace")[-3000:])
    final = os.path.join(dest_dir, "lib-" + kind)
    os.makedirs(final, exist_ok=True)
    for m in MODULES:
        shutil.copy(glob.glob(os.path.join(out_dir, m + ".*.so"))[0], os.path.join(final, m + ".so"))
    # keep the generated C next to the libraries: the symbolizer reports its lines
    shutil.rmtree(os.path.join(src_root, "tmp"), ignore_errors=True)
    return final


class _Finder(importlib.abc.MetaPathFinder):
    def __init__(self, lib_dir: str):
        self.lib_dir = lib_dir

    def find_spec(self, fullname, path=None, target=None):
        if not fullname.startswith(PKG + "."):
            return None
        mod = fullname[len(PKG) + 1:]
        if mod not in MODULES:
            return None
        so = os.path.join(self.lib_dir, mod + ".so")
        if not os.path.exists(so):
            raise ImportError(f"vf.extbuild: {so} missing")
        loader = importlib.machinery.ExtensionFileLoader(fullname, so)
        return importlib.util.spec_from_file_location(fullname, so, loader=loader)


def install_finder(lib_dir: str) -> None:
    """Serve aiokafka.record._crecords.<mod> from lib_dir.  Call before importing aiokafka.record."""
    for m in MODULES:
        if f"{PKG}.{m}" in sys.modules:
            raise RuntimeError(f"{PKG}.{m} already imported; install_finder() must come first")
    sys.meta_path[:] = [f for f in sys.meta_path if not isinstance(f, _Finder)]
    sys.meta_path.insert(0, _Finder(lib_dir))


def assert_served(lib_dir: str) -> None:
    """After importing aiokafka.record: every compiled module must come from lib_dir."""
    real = os.path.realpath(lib_dir)
    for m in MODULES:
        mod = sys.modules.get(f"{PKG}.{m}")
        if mod is None:
            raise RuntimeError(f"{PKG}.{m} not imported (extensions disabled?)")
        got = os.path.realpath(mod.__file__)
        if os.path.dirname(got) != real:
            raise RuntimeError(f"{PKG}.{m} loaded from {got}, expected {real}")


def asan_env(log_path: str | None = None, extra_options: str = "", recover: bool = False,
             symbolize: bool = True) -> dict:
    """Environment for an interpreter that loads the ASan build (merge into os.environ).

    recover=True: halt_on_error=0 and suppress_equal_pcs=0 (EVERY bad access is reported, also a
    repeated one at the same pc) - the process survives non-fatal reports."""
    opts = ["detect_leaks=0", "symbolize=1" if symbolize else "symbolize=0", "allocator_may_return_null=1",
            "handle_abort=1", "abort_on_error=0", "print_summary=1", "print_legend=0"]
    if recover:
        # small quarantine / short allocation stacks keep the process small, so that forking a runner
        # from it and reaping it stay cheap (a case allocates a few KiB; 16 MiB of quarantine is ample)
        opts += ["halt_on_error=0", "suppress_equal_pcs=0", "fast_unwind_on_fatal=1", "quarantine_size_mb=16",
                 "malloc_context_size=4"]
    if log_path:
        opts.append("log_path=" + log_path)
    if extra_options:
        opts.append(extra_options)
    return {
        "LD_PRELOAD": ASAN_RT,
        "PYTHONMALLOC": "malloc",
        "ASAN_OPTIONS": ":".join(opts),
        "ASAN_SYMBOLIZER_PATH": SYMBOLIZER,
    }
