"""Hand-written Kafka protocol tables (independent oracle; never imports aiokafka).

Written from the Apache Kafka message definitions
(clients/src/main/resources/common/message/*.json).  Each API is a list of
fields in the style of those JSON files:

    F(name, type, versions, nullable=<version range>, default=<value>, fields=[...])

  * name      Kafka JSON field name in snake_case.  One name per field across all
              versions of an API (the name of the newest spec revision, with the
              documented exception of AddPartitionsToTxn, see there).
  * type      int8 int16 int32 int64 uint32 float64 bool string bytes records
              "[]int32" "[]int64" "[]string"  "[]" (array of struct, needs fields=)
              "struct" (inline struct, needs fields=)
  * versions  "0+", "3+", "0-7", "1" ... the API versions that carry the field
  * nullable  version range in which null is allowed (strings, bytes, arrays);
              'records' is always nullable
  * default   value used by the encoder when the key is missing from the dict
              (Kafka's declared default where it matters to the simulator;
              otherwise 0 / "" / None for nullable string+bytes / [] / False)

A field is laid out in a version iff the version is inside ``versions``; fields
keep the listed order.  In flexible versions (FLEXIBLE_SINCE) strings, bytes and
arrays use the compact forms and every struct ends with a tagged-field section,
exposed as the pseudo field ``_tagged_fields`` ({tag: bytes}, default {}).
None of the versions covered here defines a tagged field of its own.

``build_schemas()`` compiles the tables into the concrete per-version schemas
described in ``vf.wire``.
"""
from __future__ import annotations

_AUTO = object()


class F:
    __slots__ = ("name", "type", "versions", "nullable", "default", "fields")

    def __init__(self, name, type, versions="0+", nullable=None, default=_AUTO, fields=None):
        self.name = name
        self.type = type
        self.versions = versions
        self.nullable = nullable
        self.default = default
        self.fields = fields
        if (type in ("[]", "struct")) != (fields is not None):
            raise ValueError(f"{name}: fields= goes with '[]'/'struct' only")


def _in_range(rng, version: int) -> bool:
    if rng is None or rng == "none":
        return False
    rng = str(rng)
    if rng.endswith("+"):
        return version >= int(rng[:-1])
    if "-" in rng:
        lo, hi = rng.split("-")
        return int(lo) <= version <= int(hi)
    return version == int(rng)


_INT_TYPES = ("int8", "int16", "int32", "int64", "uint16", "uint32")


def _compile(fields, version: int, flexible: bool):
    out = []
    c = "compact_" if flexible else ""
    for f in fields:
        if not _in_range(f.versions, version):
            continue
        nullable = _in_range(f.nullable, version)
        t = f.type
        if t in _INT_TYPES:
            ct, d = t, 0
        elif t == "float64":
            ct, d = t, 0.0
        elif t == "bool":
            ct, d = t, False
        elif t == "string":
            ct, d = c + ("nullable_string" if nullable else "string"), (None if nullable else "")
        elif t == "bytes":
            ct, d = c + ("nullable_bytes" if nullable else "bytes"), (None if nullable else b"")
        elif t == "records":
            ct, d = c + "records", None
        elif t == "struct":
            ct, d = ("struct", _compile(f.fields, version, flexible)), None
        elif t.startswith("[]"):
            et = t[2:]
            if et == "":
                elem = ("struct", _compile(f.fields, version, flexible))
            elif et == "string":
                elem = c + "string"
            elif et in _INT_TYPES:
                elem = et
            else:
                raise ValueError(f"{f.name}: unknown element type {et!r}")
            ct, d = ("array", elem, nullable, flexible), []
        else:
            raise ValueError(f"{f.name}: unknown type {t!r}")
        if f.default is not _AUTO:
            d = f.default
        out.append((f.name, ct, d))
    if flexible:
        out.append(("_tagged_fields", "tagged_fields", {}))
    return tuple(out)


# First flexible version per API key (Kafka "flexibleVersions"); None = never.
FLEXIBLE_SINCE = {
    0: 9, 1: 12, 2: 6, 3: 9, 8: 8, 9: 6, 10: 3, 11: 6, 12: 4, 13: 4, 14: 4,
    15: 5, 16: 3, 17: None, 18: 3, 19: 5, 20: 4, 21: 2, 22: 2, 24: 3, 25: 3,
    26: 3, 28: 3, 29: 2, 30: 2, 31: 2, 32: 4, 33: 2, 36: 2, 37: 2, 42: 2,
    45: 0, 46: 0, 48: 1,
}

APIS: dict = {}       # api_key -> (name, first_version, last_version, request fields, response fields)
API_NAMES: dict = {}


def API(key, name, valid, request, response):
    lo, hi = (int(x) for x in valid.split("-"))
    APIS[key] = (name, lo, hi, request, response)
    API_NAMES[key] = name


# ===========================================================================
# GROUP 1 - client-facing APIs
# ===========================================================================

# ---- ApiVersions (18) v0-v2 (v3+ is flexible; not covered) -----------------
API(18, "ApiVersions", "0-2",
    request=[
        # v0-v2: empty body (client_software_name/version are 3+)
    ],
    response=[
        F("error_code", "int16"),
        F("api_keys", "[]", fields=[
            F("api_key", "int16"),
            F("min_version", "int16"),
            F("max_version", "int16"),
        ]),
        F("throttle_time_ms", "int32", "1+"),
    ])

# ---- Metadata (3) v0-v5 ----------------------------------------------------
API(3, "Metadata", "0-5",
    request=[
        # v0: empty array = all topics; v1+: null = all topics, empty = none
        F("topics", "[]", nullable="1+", fields=[
            F("name", "string"),
        ]),
        F("allow_auto_topic_creation", "bool", "4+", default=True),
    ],
    response=[
        F("throttle_time_ms", "int32", "3+"),
        F("brokers", "[]", fields=[
            F("node_id", "int32"),
            F("host", "string"),
            F("port", "int32"),
            F("rack", "string", "1+", nullable="1+"),
        ]),
        F("cluster_id", "string", "2+", nullable="2+"),
        F("controller_id", "int32", "1+", default=-1),
        F("topics", "[]", fields=[
            F("error_code", "int16"),
            F("name", "string"),
            F("is_internal", "bool", "1+"),
            F("partitions", "[]", fields=[
                F("error_code", "int16"),
                F("partition_index", "int32"),
                F("leader_id", "int32"),
                F("replica_nodes", "[]int32"),
                F("isr_nodes", "[]int32"),
                F("offline_replicas", "[]int32", "5+"),
            ]),
        ]),
    ])

# ---- Produce (0) v0-v8 -----------------------------------------------------
API(0, "Produce", "0-8",
    request=[
        F("transactional_id", "string", "3+", nullable="3+"),
        F("acks", "int16"),
        F("timeout_ms", "int32"),
        F("topic_data", "[]", fields=[
            F("name", "string"),
            F("partition_data", "[]", fields=[
                F("index", "int32"),
                F("records", "records"),
            ]),
        ]),
    ],
    response=[
        F("responses", "[]", fields=[
            F("name", "string"),
            F("partition_responses", "[]", fields=[
                F("index", "int32"),
                F("error_code", "int16"),
                F("base_offset", "int64"),
                F("log_append_time_ms", "int64", "2+", default=-1),
                F("log_start_offset", "int64", "5+", default=-1),
                F("record_errors", "[]", "8+", fields=[
                    F("batch_index", "int32"),
                    F("batch_index_error_message", "string", nullable="8+"),
                ]),
                F("error_message", "string", "8+", nullable="8+"),
            ]),
        ]),
        F("throttle_time_ms", "int32", "1+"),      # note: AFTER responses
    ])

# ---- Fetch (1) v0-v11 ------------------------------------------------------
API(1, "Fetch", "0-11",
    request=[
        F("replica_id", "int32", default=-1),
        F("max_wait_ms", "int32"),
        F("min_bytes", "int32"),
        F("max_bytes", "int32", "3+", default=0x7FFFFFFF),
        F("isolation_level", "int8", "4+"),
        F("session_id", "int32", "7+"),
        F("session_epoch", "int32", "7+", default=-1),
        F("topics", "[]", fields=[
            F("topic", "string"),
            F("partitions", "[]", fields=[
                F("partition", "int32"),
                F("current_leader_epoch", "int32", "9+", default=-1),
                F("fetch_offset", "int64"),
                F("log_start_offset", "int64", "5+", default=-1),
                F("partition_max_bytes", "int32"),
            ]),
        ]),
        F("forgotten_topics_data", "[]", "7+", fields=[
            F("topic", "string"),
            F("partitions", "[]int32"),
        ]),
        F("rack_id", "string", "11+"),
    ],
    response=[
        F("throttle_time_ms", "int32", "1+"),
        F("error_code", "int16", "7+"),
        F("session_id", "int32", "7+"),
        F("responses", "[]", fields=[
            F("topic", "string"),
            F("partitions", "[]", fields=[
                F("partition_index", "int32"),
                F("error_code", "int16"),
                F("high_watermark", "int64"),
                F("last_stable_offset", "int64", "4+", default=-1),
                F("log_start_offset", "int64", "5+", default=-1),
                F("aborted_transactions", "[]", "4+", nullable="4+", fields=[
                    F("producer_id", "int64"),
                    F("first_offset", "int64"),
                ]),
                F("preferred_read_replica", "int32", "11+", default=-1),
                F("records", "records"),
            ]),
        ]),
    ])

# ---- ListOffsets (2) v0-v5 -------------------------------------------------
API(2, "ListOffsets", "0-5",
    request=[
        F("replica_id", "int32", default=-1),
        F("isolation_level", "int8", "2+"),
        F("topics", "[]", fields=[
            F("name", "string"),
            F("partitions", "[]", fields=[
                F("partition_index", "int32"),
                F("current_leader_epoch", "int32", "4+", default=-1),
                F("timestamp", "int64"),
                F("max_num_offsets", "int32", "0", default=1),
            ]),
        ]),
    ],
    response=[
        F("throttle_time_ms", "int32", "2+"),
        F("topics", "[]", fields=[
            F("name", "string"),
            F("partitions", "[]", fields=[
                F("partition_index", "int32"),
                F("error_code", "int16"),
                F("old_style_offsets", "[]int64", "0"),
                F("timestamp", "int64", "1+", default=-1),
                F("offset", "int64", "1+", default=-1),
                F("leader_epoch", "int32", "4+", default=-1),
            ]),
        ]),
    ])

# ---- FindCoordinator (10) v0-v1 --------------------------------------------
API(10, "FindCoordinator", "0-1",
    request=[
        F("key", "string"),
        F("key_type", "int8", "1+"),          # 0 = group, 1 = transaction
    ],
    response=[
        F("throttle_time_ms", "int32", "1+"),
        F("error_code", "int16"),
        F("error_message", "string", "1+", nullable="1+"),
        F("node_id", "int32"),
        F("host", "string"),
        F("port", "int32"),
    ])

# ---- JoinGroup (11) v0-v5 (the library defines v0, v1, v2, v5) --------------
API(11, "JoinGroup", "0-5",
    request=[
        F("group_id", "string"),
        F("session_timeout_ms", "int32"),
        F("rebalance_timeout_ms", "int32", "1+", default=-1),
        F("member_id", "string"),
        F("group_instance_id", "string", "5+", nullable="5+"),
        F("protocol_type", "string"),
        F("protocols", "[]", fields=[
            F("name", "string"),
            F("metadata", "bytes"),
        ]),
    ],
    response=[
        F("throttle_time_ms", "int32", "2+"),
        F("error_code", "int16"),
        F("generation_id", "int32", default=-1),
        F("protocol_name", "string"),
        F("leader", "string"),
        F("member_id", "string"),
        F("members", "[]", fields=[
            F("member_id", "string"),
            F("group_instance_id", "string", "5+", nullable="5+"),
            F("metadata", "bytes"),
        ]),
    ])

# ---- SyncGroup (14) v0-v3 --------------------------------------------------
API(14, "SyncGroup", "0-3",
    request=[
        F("group_id", "string"),
        F("generation_id", "int32"),
        F("member_id", "string"),
        F("group_instance_id", "string", "3+", nullable="3+"),
        F("assignments", "[]", fields=[
            F("member_id", "string"),
            F("assignment", "bytes"),
        ]),
    ],
    response=[
        F("throttle_time_ms", "int32", "1+"),
        F("error_code", "int16"),
        F("assignment", "bytes"),
    ])

# ---- Heartbeat (12) v0-v1 (fields up to v3 listed for reference) -----------
API(12, "Heartbeat", "0-1",
    request=[
        F("group_id", "string"),
        F("generation_id", "int32"),
        F("member_id", "string"),
        F("group_instance_id", "string", "3+", nullable="3+"),
    ],
    response=[
        F("throttle_time_ms", "int32", "1+"),
        F("error_code", "int16"),
    ])

# ---- LeaveGroup (13) v0-v1 -------------------------------------------------
API(13, "LeaveGroup", "0-1",
    request=[
        F("group_id", "string"),
        F("member_id", "string", "0-2"),
    ],
    response=[
        F("throttle_time_ms", "int32", "1+"),
        F("error_code", "int16"),
    ])

# ---- OffsetCommit (8) v0-v3 ------------------------------------------------
API(8, "OffsetCommit", "0-3",
    request=[
        F("group_id", "string"),
        F("generation_id_or_member_epoch", "int32", "1+", default=-1),
        F("member_id", "string", "1+"),
        F("retention_time_ms", "int64", "2-4", default=-1),
        F("topics", "[]", fields=[
            F("name", "string"),
            F("partitions", "[]", fields=[
                F("partition_index", "int32"),
                F("committed_offset", "int64"),
                F("commit_timestamp", "int64", "1", default=-1),
                F("committed_metadata", "string", nullable="0+"),
            ]),
        ]),
    ],
    response=[
        F("throttle_time_ms", "int32", "3+"),
        F("topics", "[]", fields=[
            F("name", "string"),
            F("partitions", "[]", fields=[
                F("partition_index", "int32"),
                F("error_code", "int16"),
            ]),
        ]),
    ])

# ---- OffsetFetch (9) v0-v3 -------------------------------------------------
API(9, "OffsetFetch", "0-3",
    request=[
        F("group_id", "string"),
        # v2+: null = all topics of the group
        F("topics", "[]", nullable="2+", fields=[
            F("name", "string"),
            F("partition_indexes", "[]int32"),
        ]),
    ],
    response=[
        F("throttle_time_ms", "int32", "3+"),
        F("topics", "[]", fields=[
            F("name", "string"),
            F("partitions", "[]", fields=[
                F("partition_index", "int32"),
                F("committed_offset", "int64"),
                F("metadata", "string", nullable="0+"),
                F("error_code", "int16"),
            ]),
        ]),
        F("error_code", "int16", "2+"),
    ])

# ---- InitProducerId (22) v0 ------------------------------------------------
API(22, "InitProducerId", "0-0",
    request=[
        F("transactional_id", "string", nullable="0+"),
        F("transaction_timeout_ms", "int32"),
    ],
    response=[
        F("throttle_time_ms", "int32"),
        F("error_code", "int16"),
        F("producer_id", "int64", default=-1),
        F("producer_epoch", "int16"),
    ])

# ---- AddPartitionsToTxn (24) v0 --------------------------------------------
# Naming exception: the newest spec revision (v4+, KIP-890) renamed the v0-v3
# fields to v3_and_below_*; the names used here are those of the v0-v3 era spec.
API(24, "AddPartitionsToTxn", "0-0",
    request=[
        F("transactional_id", "string"),
        F("producer_id", "int64"),
        F("producer_epoch", "int16"),
        F("topics", "[]", fields=[
            F("name", "string"),
            F("partitions", "[]int32"),
        ]),
    ],
    response=[
        F("throttle_time_ms", "int32"),
        F("results", "[]", fields=[
            F("name", "string"),
            F("results", "[]", fields=[
                F("partition_index", "int32"),
                F("error_code", "int16"),
            ]),
        ]),
    ])

# ---- AddOffsetsToTxn (25) v0 -----------------------------------------------
API(25, "AddOffsetsToTxn", "0-0",
    request=[
        F("transactional_id", "string"),
        F("producer_id", "int64"),
        F("producer_epoch", "int16"),
        F("group_id", "string"),
    ],
    response=[
        F("throttle_time_ms", "int32"),
        F("error_code", "int16"),
    ])

# ---- EndTxn (26) v0 --------------------------------------------------------
API(26, "EndTxn", "0-0",
    request=[
        F("transactional_id", "string"),
        F("producer_id", "int64"),
        F("producer_epoch", "int16"),
        F("committed", "bool"),               # true = commit, false = abort
    ],
    response=[
        F("throttle_time_ms", "int32"),
        F("error_code", "int16"),
    ])

# ---- TxnOffsetCommit (28) v0 -----------------------------------------------
API(28, "TxnOffsetCommit", "0-0",
    request=[
        F("transactional_id", "string"),
        F("group_id", "string"),
        F("producer_id", "int64"),
        F("producer_epoch", "int16"),
        F("topics", "[]", fields=[
            F("name", "string"),
            F("partitions", "[]", fields=[
                F("partition_index", "int32"),
                F("committed_offset", "int64"),
                F("committed_metadata", "string", nullable="0+"),
            ]),
        ]),
    ],
    response=[
        F("throttle_time_ms", "int32"),
        F("topics", "[]", fields=[
            F("name", "string"),
            F("partitions", "[]", fields=[
                F("partition_index", "int32"),
                F("error_code", "int16"),
            ]),
        ]),
    ])

# ---- SaslHandshake (17) v0-v1 ----------------------------------------------
API(17, "SaslHandshake", "0-1",
    request=[
        F("mechanism", "string"),
    ],
    response=[
        F("error_code", "int16"),
        F("mechanisms", "[]string"),
    ])

# ---- SaslAuthenticate (36) v0-v1 -------------------------------------------
API(36, "SaslAuthenticate", "0-1",
    request=[
        F("auth_bytes", "bytes"),
    ],
    response=[
        F("error_code", "int16"),
        F("error_message", "string", nullable="0+"),
        F("auth_bytes", "bytes"),
        F("session_lifetime_ms", "int64", "1+"),
    ])


# ===========================================================================
# GROUP 2 - admin APIs
# ===========================================================================

# ---- DescribeGroups (15) v0-v3 ---------------------------------------------
API(15, "DescribeGroups", "0-3",
    request=[
        F("groups", "[]string"),
        F("include_authorized_operations", "bool", "3+"),
    ],
    response=[
        F("throttle_time_ms", "int32", "1+"),
        F("groups", "[]", fields=[
            F("error_code", "int16"),
            F("group_id", "string"),
            F("group_state", "string"),
            F("protocol_type", "string"),
            F("protocol_data", "string"),
            F("members", "[]", fields=[
                F("member_id", "string"),
                F("group_instance_id", "string", "4+", nullable="4+"),
                F("client_id", "string"),
                F("client_host", "string"),
                F("member_metadata", "bytes"),
                F("member_assignment", "bytes"),
            ]),
            F("authorized_operations", "int32", "3+", default=-2147483648),
        ]),
    ])

# ---- ListGroups (16) v0-v2 -------------------------------------------------
API(16, "ListGroups", "0-2",
    request=[
        # empty (states_filter is 4+)
    ],
    response=[
        F("throttle_time_ms", "int32", "1+"),
        F("error_code", "int16"),
        F("groups", "[]", fields=[
            F("group_id", "string"),
            F("protocol_type", "string"),
        ]),
    ])

# ---- CreateTopics (19) v0-v3 -----------------------------------------------
API(19, "CreateTopics", "0-3",
    request=[
        F("topics", "[]", fields=[
            F("name", "string"),
            F("num_partitions", "int32"),
            F("replication_factor", "int16"),
            F("assignments", "[]", fields=[
                F("partition_index", "int32"),
                F("broker_ids", "[]int32"),
            ]),
            F("configs", "[]", fields=[
                F("name", "string"),
                F("value", "string", nullable="0+"),
            ]),
        ]),
        F("timeout_ms", "int32", default=60000),
        F("validate_only", "bool", "1+"),
    ],
    response=[
        F("throttle_time_ms", "int32", "2+"),
        F("topics", "[]", fields=[
            F("name", "string"),
            F("error_code", "int16"),
            F("error_message", "string", "1+", nullable="1+"),
        ]),
    ])

# ---- DeleteTopics (20) v0-v3 -----------------------------------------------
API(20, "DeleteTopics", "0-3",
    request=[
        F("topic_names", "[]string", "0-5"),
        F("timeout_ms", "int32"),
    ],
    response=[
        F("throttle_time_ms", "int32", "1+"),
        F("responses", "[]", fields=[
            F("name", "string"),
            F("error_code", "int16"),
        ]),
    ])

# ---- DeleteRecords (21) v0-v2 (v2 flexible) --------------------------------
API(21, "DeleteRecords", "0-2",
    request=[
        F("topics", "[]", fields=[
            F("name", "string"),
            F("partitions", "[]", fields=[
                F("partition_index", "int32"),
                F("offset", "int64"),
            ]),
        ]),
        F("timeout_ms", "int32"),
    ],
    response=[
        F("throttle_time_ms", "int32"),
        F("topics", "[]", fields=[
            F("name", "string"),
            F("partitions", "[]", fields=[
                F("partition_index", "int32"),
                F("low_watermark", "int64"),
                F("error_code", "int16"),
            ]),
        ]),
    ])

# ---- DescribeAcls (29) v0-v2 (v2 flexible) ---------------------------------
API(29, "DescribeAcls", "0-2",
    request=[
        F("resource_type_filter", "int8"),
        F("resource_name_filter", "string", nullable="0+"),
        F("pattern_type_filter", "int8", "1+", default=3),
        F("principal_filter", "string", nullable="0+"),
        F("host_filter", "string", nullable="0+"),
        F("operation", "int8"),
        F("permission_type", "int8"),
    ],
    response=[
        F("throttle_time_ms", "int32"),
        F("error_code", "int16"),
        F("error_message", "string", nullable="0+"),
        F("resources", "[]", fields=[
            F("resource_type", "int8"),
            F("resource_name", "string"),
            F("pattern_type", "int8", "1+", default=3),
            F("acls", "[]", fields=[
                F("principal", "string"),
                F("host", "string"),
                F("operation", "int8"),
                F("permission_type", "int8"),
            ]),
        ]),
    ])

# ---- CreateAcls (30) v0-v1 -------------------------------------------------
API(30, "CreateAcls", "0-1",
    request=[
        F("creations", "[]", fields=[
            F("resource_type", "int8"),
            F("resource_name", "string"),
            F("resource_pattern_type", "int8", "1+", default=3),
            F("principal", "string"),
            F("host", "string"),
            F("operation", "int8"),
            F("permission_type", "int8"),
        ]),
    ],
    response=[
        F("throttle_time_ms", "int32"),
        F("results", "[]", fields=[
            F("error_code", "int16"),
            F("error_message", "string", nullable="0+"),
        ]),
    ])

# ---- DeleteAcls (31) v0-v1 -------------------------------------------------
API(31, "DeleteAcls", "0-1",
    request=[
        F("filters", "[]", fields=[
            F("resource_type_filter", "int8"),
            F("resource_name_filter", "string", nullable="0+"),
            F("pattern_type_filter", "int8", "1+", default=3),
            F("principal_filter", "string", nullable="0+"),
            F("host_filter", "string", nullable="0+"),
            F("operation", "int8"),
            F("permission_type", "int8"),
        ]),
    ],
    response=[
        F("throttle_time_ms", "int32"),
        F("filter_results", "[]", fields=[
            F("error_code", "int16"),
            F("error_message", "string", nullable="0+"),
            F("matching_acls", "[]", fields=[
                F("error_code", "int16"),
                F("error_message", "string", nullable="0+"),
                F("resource_type", "int8"),
                F("resource_name", "string"),
                F("pattern_type", "int8", "1+", default=3),
                F("principal", "string"),
                F("host", "string"),
                F("operation", "int8"),
                F("permission_type", "int8"),
            ]),
        ]),
    ])

# ---- DescribeConfigs (32) v0-v2 --------------------------------------------
API(32, "DescribeConfigs", "0-2",
    request=[
        F("resources", "[]", fields=[
            F("resource_type", "int8"),
            F("resource_name", "string"),
            F("configuration_keys", "[]string", nullable="0+", default=None),
        ]),
        F("include_synonyms", "bool", "1+"),
    ],
    response=[
        F("throttle_time_ms", "int32"),
        F("results", "[]", fields=[
            F("error_code", "int16"),
            F("error_message", "string", nullable="0+"),
            F("resource_type", "int8"),
            F("resource_name", "string"),
            F("configs", "[]", fields=[
                F("name", "string"),
                F("value", "string", nullable="0+"),
                F("read_only", "bool"),
                F("is_default", "bool", "0"),
                F("config_source", "int8", "1+", default=-1),
                F("is_sensitive", "bool"),
                F("synonyms", "[]", "1+", fields=[
                    F("name", "string"),
                    F("value", "string", nullable="0+"),
                    F("source", "int8"),
                ]),
            ]),
        ]),
    ])

# ---- AlterConfigs (33) v0-v1 -----------------------------------------------
API(33, "AlterConfigs", "0-1",
    request=[
        F("resources", "[]", fields=[
            F("resource_type", "int8"),
            F("resource_name", "string"),
            F("configs", "[]", fields=[
                F("name", "string"),
                F("value", "string", nullable="0+"),
            ]),
        ]),
        F("validate_only", "bool"),
    ],
    response=[
        F("throttle_time_ms", "int32"),
        F("responses", "[]", fields=[
            F("error_code", "int16"),
            F("error_message", "string", nullable="0+"),
            F("resource_type", "int8"),
            F("resource_name", "string"),
        ]),
    ])

# ---- CreatePartitions (37) v0-v1 -------------------------------------------
API(37, "CreatePartitions", "0-1",
    request=[
        F("topics", "[]", fields=[
            F("name", "string"),
            F("count", "int32"),
            F("assignments", "[]", nullable="0+", default=None, fields=[
                F("broker_ids", "[]int32"),
            ]),
        ]),
        F("timeout_ms", "int32"),
        F("validate_only", "bool"),
    ],
    response=[
        F("throttle_time_ms", "int32"),
        F("results", "[]", fields=[
            F("name", "string"),
            F("error_code", "int16"),
            F("error_message", "string", nullable="0+"),
        ]),
    ])

# ---- DeleteGroups (42) v0-v1 -----------------------------------------------
API(42, "DeleteGroups", "0-1",
    request=[
        F("groups_names", "[]string"),
    ],
    response=[
        F("throttle_time_ms", "int32"),
        F("results", "[]", fields=[
            F("group_id", "string"),
            F("error_code", "int16"),
        ]),
    ])

# ---- AlterPartitionReassignments (45) v0 (flexible) ------------------------
API(45, "AlterPartitionReassignments", "0-0",
    request=[
        F("timeout_ms", "int32", default=60000),
        F("topics", "[]", fields=[
            F("name", "string"),
            F("partitions", "[]", fields=[
                F("partition_index", "int32"),
                # null = cancel the pending reassignment of this partition
                F("replicas", "[]int32", nullable="0+", default=None),
            ]),
        ]),
    ],
    response=[
        F("throttle_time_ms", "int32"),
        F("error_code", "int16"),
        F("error_message", "string", nullable="0+"),
        F("responses", "[]", fields=[
            F("name", "string"),
            F("partitions", "[]", fields=[
                F("partition_index", "int32"),
                F("error_code", "int16"),
                F("error_message", "string", nullable="0+"),
            ]),
        ]),
    ])

# ---- ListPartitionReassignments (46) v0 (flexible) -------------------------
API(46, "ListPartitionReassignments", "0-0",
    request=[
        F("timeout_ms", "int32", default=60000),
        # null = all partitions with an ongoing reassignment
        F("topics", "[]", nullable="0+", default=None, fields=[
            F("name", "string"),
            F("partition_indexes", "[]int32"),
        ]),
    ],
    response=[
        F("throttle_time_ms", "int32"),
        F("error_code", "int16"),
        F("error_message", "string", nullable="0+"),
        F("topics", "[]", fields=[
            F("name", "string"),
            F("partitions", "[]", fields=[
                F("partition_index", "int32"),
                F("replicas", "[]int32"),
                F("adding_replicas", "[]int32"),
                F("removing_replicas", "[]int32"),
            ]),
        ]),
    ])

# ---- DescribeClientQuotas (48) v0 ------------------------------------------
API(48, "DescribeClientQuotas", "0-0",
    request=[
        F("components", "[]", fields=[
            F("entity_type", "string"),
            F("match_type", "int8"),           # 0 exact, 1 default, 2 any
            F("match", "string", nullable="0+"),
        ]),
        F("strict", "bool"),
    ],
    response=[
        F("throttle_time_ms", "int32"),
        F("error_code", "int16"),
        F("error_message", "string", nullable="0+"),
        F("entries", "[]", nullable="0+", fields=[
            F("entity", "[]", fields=[
                F("entity_type", "string"),
                F("entity_name", "string", nullable="0+"),
            ]),
            F("values", "[]", fields=[
                F("key", "string"),
                F("value", "float64"),
            ]),
        ]),
    ])


# ===========================================================================
# Auxiliary structs: headers, consumer embedded protocol, sticky user data
# ===========================================================================

_REQUEST_HEADER = [
    F("request_api_key", "int16"),
    F("request_api_version", "int16"),
    F("correlation_id", "int32"),
    # header v1+; stays a NON-compact nullable string even in header v2
    F("client_id", "string", "1+", nullable="1+"),
]
_RESPONSE_HEADER = [
    F("correlation_id", "int32"),
]

# ConsumerProtocolSubscription / ConsumerProtocolAssignment: the int16 version
# prefix is part of the serialized form and is modelled as the first field.
_CONSUMER_SUBSCRIPTION = [
    F("version", "int16"),
    F("topics", "[]string"),
    F("user_data", "bytes", nullable="0+"),
    F("owned_partitions", "[]", "1+", fields=[
        F("topic", "string"),
        F("partitions", "[]int32"),
    ]),
]
_CONSUMER_ASSIGNMENT = [
    F("version", "int16"),
    F("assigned_partitions", "[]", fields=[
        F("topic", "string"),
        F("partitions", "[]int32"),
    ]),
    F("user_data", "bytes", nullable="0+"),
]
# StickyAssignor user data (Java: StickyAssignor.STICKY_ASSIGNOR_USER_DATA_V0/V1)
_STICKY_USER_DATA = [
    F("previous_assignment", "[]", fields=[
        F("topic", "string"),
        F("partitions", "[]int32"),
    ]),
    F("generation", "int32", "1+", default=-1),
]


def build_schemas() -> dict:
    out = {}
    for key, (name, lo, hi, req, resp) in APIS.items():
        first_flex = FLEXIBLE_SINCE.get(key)
        for v in range(lo, hi + 1):
            flexible = first_flex is not None and v >= first_flex
            out[(key, v)] = {
                "name": name,
                "flexible": flexible,
                "request": _compile(req, v, flexible),
                "response": _compile(resp, v, flexible),
            }
    return out


def build_aux() -> dict:
    aux = {
        "request_header_v0": _compile(_REQUEST_HEADER, 0, False),
        "request_header_v1": _compile(_REQUEST_HEADER, 1, False),
        # v2 = v1 fields (client_id NOT compact) + tagged fields
        "request_header_v2": _compile(_REQUEST_HEADER, 2, False)
        + (("_tagged_fields", "tagged_fields", {}),),
        "response_header_v0": _compile(_RESPONSE_HEADER, 0, False),
        "response_header_v1": _compile(_RESPONSE_HEADER, 1, False)
        + (("_tagged_fields", "tagged_fields", {}),),
        "consumer_protocol_subscription_v0": _compile(_CONSUMER_SUBSCRIPTION, 0, False),
        "consumer_protocol_subscription_v1": _compile(_CONSUMER_SUBSCRIPTION, 1, False),
        "consumer_protocol_assignment_v0": _compile(_CONSUMER_ASSIGNMENT, 0, False),
        "consumer_protocol_assignment_v1": _compile(_CONSUMER_ASSIGNMENT, 1, False),
        "sticky_assignor_user_data_v0": _compile(_STICKY_USER_DATA, 0, False),
        "sticky_assignor_user_data_v1": _compile(_STICKY_USER_DATA, 1, False),
    }
    return aux


def describe(api_key: int, version: int, side: str = "request") -> str:
    """Human-readable field listing of one compiled schema."""
    from . import wire

    def walk(schema, ind):
        lines = []
        for name, t, d in schema:
            if isinstance(t, str):
                lines.append(f"{ind}{name}: {t}" + (f" = {d!r}" if d not in (0, "", None, False, [], {}) else ""))
            elif t[0] == "struct":
                lines.append(f"{ind}{name}: struct")
                lines += walk(t[1], ind + "  ")
            else:
                _, elem, nullable, compact = t
                kind = ("compact_" if compact else "") + ("nullable_" if nullable else "") + "array"
                if isinstance(elem, str):
                    lines.append(f"{ind}{name}: {kind}<{elem}>")
                else:
                    lines.append(f"{ind}{name}: {kind}<struct>")
                    lines += walk(elem[1], ind + "  ")
        return lines
    e = wire.SCHEMAS[(api_key, version)]
    return f"{e['name']} v{version} {side}" + (" (flexible)" if e["flexible"] else "") + "\n" + "\n".join(walk(e[side], "  "))
