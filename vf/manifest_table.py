"""Per-property registration data for MANIFEST.json (tools/gen_manifest.py)."""
HOOK_COMMITS = []
NOTES = ("Runtime monitoring only: every check runs the real aiokafka code from /repo's working tree under seeded "
         "hostile workloads and decides with an oracle over observed events. Exit 0 held / 1 violation (VIOLATION "
         "line + replay file) / 2 inconclusive (a deciding monitor was never reached). Known findings are keyed by "
         "mechanism in known_findings.json.")
ENGINES = [
    {"name": "simloop", "path": "vf/simloop.py", "serves_properties": ["C12"],
     "kind_free_text": "virtual-time asyncio loop + in-memory network fabric under the real AIOKafkaConnection/Client"},
    {"name": "simcluster", "path": "vf/cluster.py",
     "serves_properties": ["C01", "C02", "C03", "C04", "C05", "C06", "C07", "C08", "C13", "C16", "C19"],
     "kind_free_text": "in-process simulated Kafka cluster (brokers, partition logs, group and transaction coordinators, "
                       "seeded fault plan) speaking the real wire protocol through the independent codecs vf/wire.py and "
                       "vf/refrecords.py; the real producer/consumer objects run on it unmodified in virtual time"},
    {"name": "refrecords", "path": "vf/refrecords.py", "serves_properties": ["C09", "C10"],
     "kind_free_text": "independent record-batch codec (v0/v1 message sets, v2 batches, varints, crc32/crc32c) + vf/extbuild.py, "
                       "which rebuilds the Cython extension from the working tree (plain or AddressSanitizer)"},
    {"name": "direct", "path": "vf/refmodels_direct.py", "serves_properties": ["C14", "C15", "C17", "C18"],
     "kind_free_text": "direct calls of real library functions under contracts/oracles: assignment predicates, Java murmur2 "
                       "transcription, RFC 5802 SCRAM server"},
    {"name": "wire", "path": "vf/wire.py", "serves_properties": ["C11"],
     "kind_free_text": "independent table-driven Kafka protocol codec (hand-written tables vf/wire_tables.py)"},
]
SIM_NOTE = ("trusted base: vf/simloop.py (virtual-time loop, FIFO links), the scripted peer / simulated cluster, "
            "and the oracle code; decides only the executions produced")
CHECKS = {
    "C01": dict(ready=True, engine="simcluster", level="exploration", design_ref="DESIGN.md §6 C01",
                technique="runtime monitoring: offline history checker (order / multiplicity / sequence discipline / in-flight "
                          "overlap) over real producer runs on a fault-injecting simulated cluster",
                text=("hundreds (quick) to ~10k (thorough) seeded histories of the real AIOKafkaProducer with concurrent senders, "
                      "13 fault fates on Produce/Metadata, leader moves, stale metadata and sequence counters preset next to "
                      "the 2^31 wrap; every partition log, every ProduceRequest arrival and every client-side in-flight "
                      "interval is checked after the run, and the simulated broker reports a Produce frame written behind a "
                      "still unanswered Produce of the same partition on one open connection"),
                note=SIM_NOTE + "; N1 (no delivery after the client failed the request); broker idempotence rules of Kafka 2.x"),
    "C02": dict(ready=True, engine="simcluster", level="exploration", design_ref="DESIGN.md §6 C02",
                technique="runtime monitoring: per-future resolution log and flush/stop return events checked against the "
                          "simulated brokers' partition logs",
                text=("every future returned by send()/send_batch() in each history is followed to its single resolution and "
                      "compared with the record actually stored at the named partition/offset (uid, key, headers, timestamp, "
                      "timestamp type) for produce v0..v7 x CreateTime/LogAppendTime x acks 0/1/all x idempotence; flush()/stop() "
                      "returns are checked against the set of previously accepted records; bounded resolution after the quiet point"),
                note=SIM_NOTE + "; N1; LogAppendTime semantics of the simulated broker"),
    "C03": dict(ready=True, engine="simcluster", level="exploration", design_ref="DESIGN.md §6 C03",
                technique="runtime monitoring: per-partition reference cursor fed with every getone/getmany/position/seek/pause/"
                          "resume event of a real consumer over generated logs",
                text=("real group-less AIOKafkaConsumer over generated v0/v1/v2/mixed logs (compaction gaps, wrappers, control and "
                      "empty batches, trimmed log start) with 1-3 concurrent API tasks, leader moves and retriable fetch faults; "
                      "each returned record must be exactly the next visible one from the cursor, position() is bounded on both "
                      "sides, paused/filtered partitions stay silent and every log is drained after the quiet point (in a third of "
                      "the histories through single blocking getone() calls, with the replies of all brokers arriving on a "
                      "common time lattice so that several fetch tasks finish in one pass); both codec "
                      "implementations (compiled one rebuilt from the working tree)"),
                note=SIM_NOTE + "; visibility definition; reference record codec for log generation and ground truth"),
    "C04": dict(ready=True, engine="simcluster", level="fault_enumeration", design_ref="DESIGN.md §6 C04",
                technique="runtime monitoring: commit-safety checker over the simulated coordinator's OffsetCommit log x the "
                          "harness's per-incarnation delivery log; kill / stop() injected at sampled event indices of every "
                          "reference history",
                text=("real group members (auto-commit or commit() without arguments) consuming logs that grow while they run; "
                      "joins, stop()s, kills, subscription changes, coordinator moves, commit and other group requests failing "
                      "with retriable/membership errors; every reference history re-run with one member killed or stopped at "
                      "sampled event indices; every accepted commit is checked against what had been handed out, every "
                      "ownership period against the committed offset its owner was given, and the union of all deliveries "
                      "against the logs (at-least-once)"),
                note=SIM_NOTE + "; kill = transports severed silently then tasks cancelled; auto_offset_reset=earliest, untrimmed logs"),
    "C05": dict(ready=True, engine="simcluster", level="exploration", design_ref="DESIGN.md §6 C05",
                technique="runtime monitoring: generation ledger of the simulated coordinator (assignments decoded with the "
                          "independent codec) x the harness's listener-callback / assignment() / delivery timeline",
                text=("1-4 real group members x range/roundrobin/sticky x equal, different and pattern subscriptions; members "
                      "joining, leaving, crashing, changing subscription; partitions and topics added; rebalances overlapping "
                      "in-flight fetches and getmany(); per generation: disjointness, adoption (callback argument = assignment() "
                      "= SyncGroup reply), silence outside ownership periods, exact cursor inside them, revoke-before-assign "
                      "barrier across all participants"),
                note=SIM_NOTE + "; request_timeout > rebalance_timeout (as with the defaults)"),
    "C06": dict(ready=True, engine="simcluster", level="exploration", design_ref="DESIGN.md §6 C06",
                technique="runtime monitoring: trace checker over every group request/reply seen by the simulated coordinator "
                          "(JoinGroup contents, Join->Sync succession with a justified-rejoin rule) + bounded-convergence observer",
                text=("1-4 members x 1-3 assignors in any order x JoinGroup v0..v5; every retriable/membership error code, "
                      "drops, resets, lost replies and delays on every group request type; coordinator moves with/without "
                      "state, broker bounces, session expiry; after the quiet point + B_group: Stable, all live members in the "
                      "latest generation, full coverage, then 3 x session_timeout without JoinGroup and with regular heartbeats"),
                note=SIM_NOTE + "; liveness restated as bounded progress in virtual time; non-retriable coordinator codes (authorization, inconsistent protocol) in 30% of the fault-heavy histories"),
    "C08": dict(ready=True, engine="simcluster", level="exploration", design_ref="DESIGN.md §6 C08",
                technique="runtime monitoring: independent isolation reader over generated transactional logs vs. what the real "
                          "consumer delivers at both isolation levels; fetch-offset stall detector",
                text=("each generated log (<=4 producers, committed/aborted/open transactions, compaction, solitary abort markers, "
                      "markers on response boundaries) is consumed at read_committed and read_uncommitted; delivered records are "
                      "classified against the markers, exactness comes from the cursor oracle, final position must reach LSO/HW"),
                note=SIM_NOTE + "; aborted-transaction index semantics of the simulated broker"),
    "C09": dict(ready=True, engine="refrecords", level="exploration", design_ref="DESIGN.md §6 C09",
                technique="runtime differential monitoring: compiled codec (rebuilt from the working tree) x pure-Python codec x "
                          "independent reference codec/validator, plus size-accounting postconditions on the real builders",
                text=("seeded record sequences (null/empty/boundary-sized keys, values, headers; decreasing timestamps; varint "
                      "boundaries; magic 0/1/2; every codec; transactional / pid / epoch / sequence extremes; batch_size around the "
                      "encoded size) are built by both library builders, every encoding is decoded by both library decoders and "
                      "the reference decoder and validated field by field; mixed-magic concatenations with trailing partial "
                      "batches go through both MemoryRecords implementations"),
                note="trusted base: vf/refrecords.py (independent v0/v1/v2 codec, crc32c table, varints); byte identity between "
                     "the two implementations is not demanded (compression policies differ)"),
    "C13": dict(ready=True, engine="simcluster", level="exploration", design_ref="DESIGN.md §6 C13",
                technique="runtime monitoring: start-position oracle over the settled position(), the first record handed out and "
                          "the errors surfaced by getmany(), against the committed offset stored in the simulated coordinator and "
                          "the log bounds the simulated brokers replied; seek() injected at chosen loop events",
                text=("one real consumer (group member / group-less) x committed {absent, inside, at start, at end, 0, below log "
                      "start, beyond log end} x policy {earliest, latest, none} x isolation level (open transactions: LSO < HW) x "
                      "ListOffsets v0..v3 / OffsetFetch v1..v3 / Fetch v1..v11 x lookup faults (retriable codes incl. v2+ top-level "
                      "OffsetFetch errors, drops, resets, lost replies, delays) x a user seek() landing k events after the "
                      "assignment; 960 histories quick, ~19k thorough"),
                note=SIM_NOTE + "; logs static until positions settle; settle bound 8 x request_timeout + 60 x backoff"),
    "C14": dict(ready=True, engine="direct", level="exploration", design_ref="DESIGN.md §6 C14",
                technique="runtime contracts (icontract ensure) on the three real assign() functions evaluating the statement's "
                          "validity/balance predicates; termination monitor hooked on the sticky executor's move function",
                text=("thorough: the complete bounded space of the quantifier (<=4 members x <=3 topics x {no metadata, 0..4 "
                      "partitions} x every non-empty subscription = 609,144 inputs, coverage.exhaustive=true) under range, "
                      "roundrobin, sticky fresh and sticky with user data through the real encoding; plus random chains beyond "
                      "the bounds (<=12 members, 8 topics, 12 partitions; stale, conflicting and garbage user data); quick: the "
                      "<=3x2 sub-space exhaustively + 18k random chains"),
                note="trusted base: predicates in vf/refmodels_direct.py written from the statement; non-termination is decided "
                     "on a logical move count (2000+4P^2), not on wall-clock time; one known finding (sticky ping-pong)"),
    "C15": dict(ready=True, engine="direct", level="exploration", design_ref="DESIGN.md §6 C15",
                technique="runtime monitoring: two-round stickiness oracle over consecutive real assign() results, previous "
                          "assignments carried through the real user-data encoding (metadata()/parse_member_metadata())",
                text=("every first-round input of C14's bounded space followed by (a) an identical round, (b) removal of every "
                      "non-empty proper subset of members, (c) +1/+2 members; random chains of <=5 rounds incl. a member reporting "
                      "a stale generation; partition-by-partition comparison of owner maps between consecutive results"),
                note="trusted base: owner-map comparison in vf/refmodels_direct.py; rounds with non-identical subscriptions are "
                     "executed but not judged for (b)/(c) (the statement gives them no guarantee)"),
    "C17": dict(ready=True, engine="direct", level="exploration", design_ref="DESIGN.md §6 C17",
                technique="runtime differential monitoring: real DefaultPartitioner / AIOKafkaProducer._partition vs. an int32 "
                          "transcription of the Java murmur2 + toPositive + modulo, anchored on Java-computed literals",
                text=("every key of length 0..2 (65,793), every short key over {00,7F,80,FF} for all tail lengths, up to 208k "
                      "random keys <=4 KiB; partition counts 1..1000, non-contiguous partition ids, every availability subset for "
                      "small counts; unkeyed records must land in `available` when non-empty"),
                note="trusted base: vf/refmodels_direct.java_partition (self-checked against the six literals of "
                     "tests/test_partitioner.py before every run; failing anchors make the run inconclusive)"),
    "C18": dict(ready=True, engine="direct", level="exploration", design_ref="DESIGN.md §6 C18",
                technique="runtime monitoring: the real ScramAuthenticator driven message by message against an independent RFC 5802 "
                          "server in honest / in-flight tampering / impostor modes",
                text=("seeded parameter sets (SHA-256/512, usernames with ',' '=' and non-ASCII, salts 1..64 bytes, iteration "
                      "counts 1..20000); per set: one honest exchange (server verifies header, username escaping, nonce, proof), "
                      "every single-field tampering of both server messages (nonce, salt, iterations, every signature byte) and "
                      "impostor guesses of v= ; the client must never complete in the last two kinds"),
                note="trusted base: vf/refmodels_direct.ScramServer built from hashlib/hmac; only the uuid4 nonce source is "
                     "rebound (seeded)"),
    "C10": dict(ready=True, engine="refrecords", level="exploration", design_ref="DESIGN.md §6 C10",
                technique="sanitizer + runtime monitoring: AddressSanitizer build of the Cython extension (system allocator, "
                          "per-case report attribution, guard-page buffers) with an outcome classifier (ASan report / signal / "
                          "confirmed hang / SystemError / MemoryError / ordinary exception) and a CRC-mismatch oracle; same inputs "
                          "through the pure-Python decoder",
                text=("valid v0/v1/v2 buffers (plain and every codec, with headers) x every truncation point, single-byte "
                      "mutations at every position, every located length/count/varint field x boundary values (extremes and "
                      "walk-stalling negatives), re-compressed inner message sets with mutated inner lengths, batches shorter than "
                      "their header at the end of the allocation or in front of a PROT_NONE page, mixed-magic concatenations, "
                      "random strings; with and without CRC checking; ~40k cases quick, ~900k thorough"),
                note="trusted base: vf/refrecords.py field locator; ASan red zones (an over-read that stays inside the enclosing "
                     "bytes object is invisible; direct-constructor cases therefore also run on guard-page buffers); UBSan is "
                     "not part of the verdict (hton.pxd stores through unaligned pointers on purpose)"),
    "C11": dict(ready=True, engine="wire", level="exploration", design_ref="DESIGN.md §6 C11",
                technique="runtime differential monitoring: library encode/decode vs. an independent table-driven Kafka codec; "
                          "postconditions on Request.prepare() and on the request builders",
                text=("every request/response struct reachable from a builder x seeded in-range values (type extremes, nulls, "
                      "varint boundaries, non-empty tagged fields): byte equality with the independent encoder and decode "
                      "round-trips; prepare() over every (min,max) pair incl. disjoint; RESPONSE_TYPE schema vs. the response "
                      "table; statement-named builder parameters either encoded or rejected"),
                note="trusted base: the hand-written tables in vf/wire_tables.py (written from the Kafka message definitions); "
                     "structs merely defined but not reachable from a builder are observations only"),
    "C12": dict(ready=True, engine="simloop", level="exploration", design_ref="DESIGN.md §6 C12",
                technique="runtime monitoring: waiter-outcome oracle over a real AIOKafkaConnection on a virtual-time loop with a scripted faulty peer",
                text=("thousands of scripted connections per run (pipelining, mixed header forms, timeouts, cancels, every "
                      "1-2 cut split of small reply streams, 10 fatal fault kinds at every reply position, correlation wrap); "
                      "each waiter's outcome, resolution time and the connection state are compared with a sequential FIFO "
                      "model evaluated on observed delivery times"),
                note=SIM_NOTE + "; hand-packed response bytes; a truncated reply to an already abandoned request is not counted as a malformed frame"),
    "C19": dict(ready=True, engine="simcluster", level="fault_enumeration", design_ref="DESIGN.md §6 C19",
                technique="runtime monitoring: stop() injected at sampled loop events of producer / group-consumer / group-less "
                          "consumer runs; virtual duration bound, ownership-tagged leftover scan (tasks, timer handles, "
                          "transports) on the simulation loop, post-stop API probes, LeaveGroup in the coordinator log",
                text=("3 workloads x 5 cluster states (healthy, broker refusing, black-holing, failover, unreachable then "
                      "restored) x stop() at event k for sampled k over the whole reference run (quick 5, thorough 40 points per "
                      "reference, 64 / 576 references) with requests in flight, blocked getmany(), mid-rebalance second member, "
                      "fault fates on every request"),
                note=SIM_NOTE + "; B_stop = 4 x (request + session + rebalance timeout) + 40 x backoff, runs continued to 4 x B"),
    "C07": dict(ready=True, engine="simcluster", level="fault_enumeration", design_ref="DESIGN.md §6 C07",
                technique="runtime monitoring: atomicity checker (API outcomes vs. an independent read_committed reading of the "
                          "simulated logs and the group's committed offsets) + wire-order checker over the coordinator's / "
                          "leaders' request logs and client-boundary send/return times, on a fault-injecting simulated "
                          "transaction coordinator; replacement, zombie and kill scenarios",
                text=("programs of 1-6 transactions (sends, bursts of concurrent sends, send_offsets_to_transaction, commit / "
                      "abort / commit-else-abort / context manager) x retriable fates on every transactional request type and "
                      "FindCoordinator, coordinator moves, delayed markers, scripted TOPIC/GROUP authorization errors at the "
                      "n-th request, a second instance with the same transactional id starting mid-transaction (zombie keeps "
                      "calling) and kill -9 mid-transaction; 960 histories quick, 24k thorough"),
                note=SIM_NOTE + "; pre-KIP-890 leader semantics (pid/epoch/sequence checks only); B_txn = 4 x request_timeout + 60 x backoff"),
    "C16": dict(ready=True, engine="simcluster", level="exploration", design_ref="DESIGN.md §6 C16",
                technique="runtime monitoring: lock-step reference model of the documented transactional API run against every "
                          "call's outcome, with a wire-silence observer on the simulated cluster after illegal calls and after "
                          "fatal errors",
                text=("every call sequence of length <= 3 (thorough <= 4) over 8 calls without fault, every sequence of length "
                      "<= 2 (thorough <= 3) x 24 single scripted faults (abortable / fatal / retriable / lost reply at each "
                      "transactional request type and Produce), transaction prefixes that reach the faulted request followed by "
                      "every short suffix, and sampled sequences of length 4-6 x a random fault"),
                note=SIM_NOTE + "; reference model written from the documented API; a fault served during a call makes that one "
                     "call's outcome model-dependent"),
}
