"""Per-property registration data for MANIFEST.json (tools/gen_manifest.py)."""
HOOK_COMMITS = []
NOTES = ("Runtime monitoring only: every check runs the real aiokafka code from /repo's working tree under seeded "
         "hostile workloads and decides with an oracle over observed events. Exit 0 held / 1 violation (VIOLATION "
         "line + replay file) / 2 inconclusive (a deciding monitor was never reached). Known findings are keyed by "
         "mechanism in known_findings.json.")
ENGINES = [
    {"name": "simloop", "path": "vf/simloop.py", "serves_properties": ["C12"],
     "kind_free_text": "virtual-time asyncio loop + in-memory network fabric under the real AIOKafkaConnection/Client"},
]
SIM_NOTE = ("trusted base: vf/simloop.py (virtual-time loop, FIFO links), the scripted peer / simulated cluster, "
            "and the oracle code; decides only the executions produced")
CHECKS = {
    "C12": dict(ready=True, engine="simloop", level="exploration", design_ref="DESIGN.md §6 C12",
                technique="runtime monitoring: waiter-outcome oracle over a real AIOKafkaConnection on a virtual-time loop with a scripted faulty peer",
                text=("thousands of scripted connections per run (pipelining, mixed header forms, timeouts, cancels, every "
                      "1-2 cut split of small reply streams, 10 fatal fault kinds at every reply position, correlation wrap); "
                      "each waiter's outcome, resolution time and the connection state are compared with a sequential FIFO "
                      "model evaluated on observed delivery times"),
                note=SIM_NOTE + "; hand-packed response bytes; a truncated reply to an already abandoned request is not counted as a malformed frame"),
}
