"""Start-position histories (C13): where does a consumer begin when a partition is (re)assigned?

One real AIOKafkaConsumer (group member or group-less) is started over pre-built partition logs with a preset
committed offset (absent / inside / below log start / beyond log end), a reset policy, an isolation level, a
ListOffsets version range and a seeded fault plan on the lookups.  Optionally a user seek() lands at loop event k
between the assignment and the completion of the lookup.  The harness records, per partition, the settled position,
the first record handed out and every exception surfaced by position()/getone()/getmany(); the simulated brokers
record every OffsetFetch and ListOffsets request and reply.
"""
from __future__ import annotations

import asyncio
import random

from vf import cluster as C
from vf import loggen
from vf.simharness import FaultPlan, make_cluster, run_sim
from vf.simloop import OWNER

TOPIC = "t"
GROUP = "g13"


def gen_params(rng, idx, tier="quick", force=None):
    iso = rng.choice(["read_uncommitted", "read_uncommitted", "read_committed"])
    lo_max = rng.choice([0, 1, 2, 3, 3]) if iso == "read_uncommitted" else rng.choice([2, 3, 3])
    P = {
        "idx": idx, "seed": rng.randrange(2 ** 31),
        "group": rng.random() < 0.7,
        "n_parts": rng.choice([1, 2, 3, 4]),
        "slow_node": rng.choice([None, None, 0, 1, 2]),      # one broker answers late: per-leader lookups get staggered
        "slow_by": rng.choice([0.02, 0.1, 0.4]),
        "policy": rng.choice(["earliest", "latest", "none"]),
        "isolation": iso,
        "committed": [rng.choice(["absent", "inside", "inside", "below_start", "beyond_end", "at_end", "at_start", "zero"])
                      for _ in range(4)],
        "n_batches": rng.choice([6, 12, 20]),
        "txn": iso == "read_committed" or rng.random() < 0.2,
        "trim_frac": rng.choice([0.0, 0.0, 0.3, 0.6]),
        "list_offsets_max_version": lo_max,
        "offset_fetch_max_version": rng.choice([1, 2, 3, 3]),
        "fetch_max_version": rng.choice([4, 7, 11]) if iso == "read_committed" else rng.choice([1, 3, 4, 7, 11]),
        "fault_p": rng.choice([0.0, 0.0, 0.2, 0.4]),
        "seek": None,             # {"k": event index after start() returned, "frac": where in the log}
        "request_timeout_ms": rng.choice([1500, 3000]),
        "retry_backoff_ms": rng.choice([50, 100]),
        "append_after": rng.choice([0, 3]),
        "coordinator_move": rng.random() < 0.1,
    }
    if rng.random() < 0.35:
        P["seek"] = {"k": rng.choice([0, 1, 2, 3, 5, 8, 12, 20, 40]), "frac": rng.random()}
    # "stagger": the lookups of the partitions do not start together - one partition leader is down when the
    # consumer starts (its partitions wait for a metadata refresh) while OffsetFetch replies are slow
    P["stagger"] = None
    if P["group"] and P["n_parts"] >= 2 and rng.random() < 0.3:
        P["stagger"] = {"leader_down_for": rng.choice([0.05, 0.2, 0.5, 1.0]), "offset_fetch_delay_p": rng.choice([0.5, 0.9])}
    # replies of all brokers (OffsetFetch, ListOffsets of several leaders, first Fetch) arrive on a common lattice:
    # lookups of several partitions complete in one pass of the fetcher / coordinator routines
    P["reply_quantum"] = rng.choice([None, None, 0.01, 0.05])
    if force:
        P.update(force)
    return P


def settle_bound(P):
    return 4 * (2 * P["request_timeout_ms"] / 1000.0) + 60 * P["retry_backoff_ms"] / 1000.0


def run_history(P):
    from aiokafka import AIOKafkaConsumer
    from aiokafka.errors import KafkaError
    from aiokafka.structs import TopicPartition

    rng = random.Random(P["seed"])
    net, cl = make_cluster(P["seed"], n_brokers=3, versions={2: (0, P["list_offsets_max_version"]),
                                                             9: (0, P["offset_fetch_max_version"]),
                                                             1: (0, P["fetch_max_version"])})
    cl.create_topic(TOPIC, P["n_parts"])
    if P.get("reply_quantum"):
        net.quantum = P["reply_quantum"]
        net.fragment = False
    if P.get("slow_node") is not None:
        slow_host = f"broker{P['slow_node']}"
        net.extra_delay = lambda direction, link: (P["slow_by"] if link is not None and link.host == slow_host else 0.0)
    truth0 = {}
    iso = 1 if P["isolation"] == "read_committed" else 0
    for p in range(P["n_parts"]):
        raws = loggen.gen_log(random.Random(P["seed"] * 17 + p), n_batches=P["n_batches"], magics=(2,), txn=P["txn"],
                              compaction=True, uid_prefix=f"p{p}o")
        pl = cl.plog(TOPIC, p)
        for raw in raws:
            pl.append_raw(raw, 0.0)
        if P["trim_frac"] and len(pl.batches) > 2:
            pl.log_start = pl.batches[int(len(pl.batches) * P["trim_frac"])].base
        truth0[p] = {"log_start": pl.log_start, "hw": pl.hw, "lso": pl.lso}
    committed = {}
    if P["group"]:
        g = cl.gc.group(GROUP)
        for p in range(P["n_parts"]):
            pl = cl.plog(TOPIC, p)
            kind = P["committed"][p]
            c = None
            if kind == "inside":
                c = rng.randint(pl.log_start, pl.leo)
            elif kind == "below_start":
                c = rng.randint(0, pl.log_start - 1) if pl.log_start > 0 else None
            elif kind == "beyond_end":
                c = pl.leo + rng.randint(1, 50)
            elif kind == "at_end":
                c = pl.leo
            elif kind == "at_start":
                c = pl.log_start
            elif kind == "zero":
                c = 0
            if c is not None:
                g.offsets[(TOPIC, p)] = (c, "")
                committed[p] = c
    plan = FaultPlan(random.Random(P["seed"] ^ 0x13C), p={"OffsetFetch": P["fault_p"], "ListOffsets": P["fault_p"],
                                                           "FindCoordinator": P["fault_p"] / 2, "Fetch": P["fault_p"] / 3,
                                                           "Metadata": P["fault_p"] / 4},
                     kinds={"OffsetFetch": ["drop_before", "reset_after", "lose_reply", "delay",
                                            ("error", C.COORDINATOR_LOAD_IN_PROGRESS), ("error", C.NOT_COORDINATOR)],
                            "ListOffsets": ["drop_before", "reset_after", "lose_reply", "delay",
                                            ("error", C.NOT_LEADER_FOR_PARTITION), ("error", C.UNKNOWN_TOPIC_OR_PARTITION),
                                            ("error", C.LEADER_NOT_AVAILABLE), ("error", C.REQUEST_TIMED_OUT)],
                            "FindCoordinator": ["drop_before", "delay", ("error", C.COORDINATOR_NOT_AVAILABLE)],
                            "Fetch": ["drop_before", "lose_reply", "delay", ("error", C.NOT_LEADER_FOR_PARTITION)],
                            "Metadata": ["drop_before", "delay"]})
    if P.get("stagger"):
        plan.p["OffsetFetch"] = P["stagger"]["offset_fetch_delay_p"]
        plan.kinds["OffsetFetch"] = ["delay", "delay", "delay", "lose_reply"]
    plan.enabled = False
    cl.faults = plan
    H = {"params": P, "events": [], "errors": [], "committed": {str(k): v for k, v in committed.items()},
         "truth0": {str(k): v for k, v in truth0.items()}}
    ev = H["events"]
    tps = [TopicPartition(TOPIC, p) for p in range(P["n_parts"])]

    async def main(loop):
        t0 = loop.time()
        H["t0"] = t0

        def log(op, **kw):
            kw.update(n=len(ev), t=round(loop.time() - t0, 6), op=op)
            ev.append(kw)
            return kw

        OWNER.set("c13")
        cons = AIOKafkaConsumer(
            bootstrap_servers=cl.bootstrap(), group_id=GROUP if P["group"] else None, client_id="c13",
            enable_auto_commit=False, auto_offset_reset=P["policy"], isolation_level=P["isolation"],
            request_timeout_ms=P["request_timeout_ms"], retry_backoff_ms=P["retry_backoff_ms"],
            session_timeout_ms=6000, heartbeat_interval_ms=1000, fetch_max_wait_ms=100, metadata_max_age_ms=3000)
        if P["group"]:
            from aiokafka.abc import ConsumerRebalanceListener

            class L(ConsumerRebalanceListener):
                def on_partitions_revoked(self, revoked):
                    log("revoked", tps=sorted(tp.partition for tp in revoked))

                def on_partitions_assigned(self, assigned):
                    log("assigned", tps=sorted(tp.partition for tp in assigned))

            cons.subscribe([TOPIC], listener=L())
        else:
            cons.assign(tps)
        if P.get("stagger"):
            coord = cl.coordinator_for(GROUP, 0)
            cands = sorted({cl.leaders[(TOPIC, p)] for p in range(P["n_parts"])} - {coord})
            if cands:
                b = cl.brokers[rng.choice(cands)]
                b.go_down()
                net.call_later(P["stagger"]["leader_down_for"], b.come_up)
                H["staggered_leader"] = b.node_id
            saved_md = plan.p.get("Metadata", 0.0)
            plan.p["Metadata"] = 0.0           # bootstrap itself must succeed: start() is not the subject here
            plan.enabled = True
        try:
            await cons.start()
        except Exception as e:  # noqa: BLE001
            log("exception", during="start", exc=type(e).__name__, msg=str(e)[:200])
            H["errors"].append(f"start failed: {type(e).__name__}: {e}")
            return
        if P.get("stagger"):
            plan.p["Metadata"] = saved_md
        plan.enabled = True
        plan.quiet_at = loop.time() + 0.75 * settle_bound(P)
        log("started", assignment=sorted(tp.partition for tp in cons.assignment()), events=loop.events)
        sought = {}
        if P["seek"]:
            def do_seek():
                for tp in list(cons.assignment()):
                    pl = cl.plog(TOPIC, tp.partition)
                    bound = pl.lso if iso else pl.hw
                    o = pl.log_start + int((bound - pl.log_start) * P["seek"]["frac"])
                    try:
                        cons.seek(tp, o)
                        sought[tp.partition] = o
                        log("seek", p=tp.partition, o=o)
                    except Exception as e:  # noqa: BLE001
                        log("exception", during="seek", exc=type(e).__name__, msg=str(e)[:200])
            if P["seek"]["k"] == 0:
                do_seek()
            else:
                loop.at_event(loop.events + P["seek"]["k"], do_seek)
        if P["coordinator_move"] and P["group"]:
            loop.call_later(rng.uniform(0.0, 0.3), lambda: cl.move_coordinator(GROUP, 0, with_state=True))
        # injected faults stop at quiet_at (0.75 x bound after start); the positions are read one full bound after THAT:
        # the statement is about where the consumer ends up, and a lookup chain that was being delayed until the last
        # moment of the fault window (OffsetFetch -> Fetch -> OFFSET_OUT_OF_RANGE -> ListOffsets) needs its own time
        await asyncio.sleep(1.75 * settle_bound(P))
        # ---- settled positions (nothing has been handed out yet: position only moves on hand-out / reset)
        for tp in tps:
            try:
                pos = await asyncio.wait_for(cons.position(tp), 2.0)
                log("position", p=tp.partition, pos=pos)
            except asyncio.TimeoutError:
                log("position", p=tp.partition, pos=None, timeout=True)
            except Exception as e:  # noqa: BLE001
                log("position", p=tp.partition, pos=None, exc=type(e).__name__)
        for tp in tps:
            pl = cl.plog(TOPIC, tp.partition)
            for _ in range(P["append_after"]):
                from vf import refrecords as rr
                raw = rr.encode_batch_v2([(0, 1_650_000_000_000 + pl.leo, None, b"uid:p%dn%d|" % (tp.partition, pl.leo), [])],
                                         base_offset=pl.leo)
                pl.append_raw(raw, loop.time())
        # ---- first records / surfaced errors, per partition
        first = {}
        errors = {}
        for _ in range(40):
            pending = [tp for tp in tps if tp.partition not in first and tp.partition not in errors]
            if not pending:
                break
            for tp in pending:
                try:
                    res = await cons.getmany(tp, timeout_ms=150, max_records=1)
                    for _tp, msgs in res.items():
                        for m in msgs:
                            if m.partition not in first:
                                first[m.partition] = m.offset
                                log("first_record", p=m.partition, o=m.offset, uid=C.uid_of(m.value))
                except KafkaError as e:
                    errors[tp.partition] = type(e).__name__
                    log("poll_error", p=tp.partition, exc=type(e).__name__, msg=str(e)[:160])
                except Exception as e:  # noqa: BLE001
                    errors[tp.partition] = type(e).__name__
                    log("poll_error", p=tp.partition, exc=type(e).__name__, msg=str(e)[:160], unexpected=True)
        H["sought"] = {str(k): v for k, v in sought.items()}
        try:
            await asyncio.wait_for(cons.stop(), 4 * settle_bound(P))
        except Exception as e:  # noqa: BLE001
            log("exception", during="stop", exc=type(e).__name__)

    try:
        run_sim(main, seed=P["seed"], net=net, max_virtual_s=3600, max_events=400000)
    except Exception as e:  # noqa: BLE001
        H["errors"].append(f"{type(e).__name__}: {e}")
    t0 = H.get("t0", 0.0)
    faulted = {e["n"]: e["fate"] for e in cl.events if e["kind"] == "request" and e.get("fate") != "ok"}
    H["list_offsets"] = [{"t": round(e["t"] - t0, 6), "p": e["partition"], "timestamp": e["timestamp"], "isolation": e["isolation"],
                          "version": e["version"], "error": e["error"], "offset": e["offset"]}
                         for e in cl.events if e["kind"] == "list_offsets_reply"]
    H["list_offsets_requests"] = [{"t": round(e["t"] - t0, 6), "version": e["version"], "fate": e["fate"]}
                                  for e in cl.events if e["kind"] == "request" and e["api"] == "ListOffsets"]
    H["offset_fetch"] = [{"t": round(e["t"] - t0, 6), "error": e.get("error"), "offsets": e.get("offsets"),
                          "delivered": not (e.get("req_n") in faulted and not faulted[e["req_n"]].startswith("Fate(delay"))}
                         for e in cl.events if e["kind"] == "group" and e["op"] == "OffsetFetch"]
    H["offset_fetch_requests"] = [{"t": round(e["t"] - t0, 6), "version": e["version"], "fate": e["fate"]}
                                  for e in cl.events if e["kind"] == "request" and e["api"] == "OffsetFetch"]
    H["fetch_errors"] = [{"t": round(e["t"] - t0, 6), "p": e["partition"], "error": e["error"], "fetch_offset": e["fetch_offset"]}
                         for e in cl.events if e["kind"] == "fetch_reply" and e["error"]]
    H["truth"] = {}
    for p in range(P["n_parts"]):
        pl = cl.plog(TOPIC, p)
        H["truth"][str(p)] = {"visible": [o for (o, _r, _sb) in pl.visible_records(iso)], "log_start": pl.log_start,
                              "hw": pl.hw, "lso": pl.lso, "leo": pl.leo}
    H["fault_hits"] = dict(plan.hits)
    H["sim_errors"] = [e for e in cl.events if e["kind"] in ("SIM_ENCODE_ERROR", "undecodable_request", "bad_header",
                                                              "unsupported_request")]
    return H


def judge(H):
    """-> (violations, stats)"""
    import bisect
    P = H["params"]
    V = []
    st = {"partitions_judged": 0, "start_from_committed": 0, "reset_earliest": 0, "reset_latest": 0, "policy_none_errors": 0,
          "out_of_range_committed": 0, "seek_wins_checked": 0, "seek_while_lookup_in_flight": 0, "first_records_checked": 0,
          "latest_requests_isolation_checked": 0, "lookups_with_faults": 0, "lso_below_hw": 0, "trimmed_logs": 0}
    iso = 1 if P["isolation"] == "read_committed" else 0
    pos = {e["p"]: e for e in H["events"] if e["op"] == "position"}
    first = {e["p"]: e for e in H["events"] if e["op"] == "first_record"}
    perr = {e["p"]: e for e in H["events"] if e["op"] == "poll_error"}
    seeks = {e["p"]: e for e in H["events"] if e["op"] == "seek"}
    # a rebalance after the seek (faults can cost the member its session) assigns the partition anew: the position
    # then comes from the committed offset again and the earlier seek is void
    reassigned = [e["t"] for e in H["events"] if e["op"] == "assigned"]
    for p_, e in list(seeks.items()):
        if any(t > e["t"] for t in reassigned):
            del seeks[p_]
            st["seeks_voided_by_later_rebalance"] = st.get("seeks_voided_by_later_rebalance", 0) + 1
    if sum(H["fault_hits"].values()):
        st["lookups_with_faults"] = 1
    # a read_committed consumer must ask for the end offset at its own isolation level
    for e in H["list_offsets"]:
        if e["timestamp"] == -1:
            st["latest_requests_isolation_checked"] += 1
            if e["version"] >= 2 and e["isolation"] != iso:
                V.append(("log_end_lookup_ignores_isolation_level",
                          f"ListOffsets(latest) v{e['version']} sent with isolation_level {e['isolation']} by a "
                          f"{P['isolation']} consumer", {"request": e}))
    for p_s, tr in H["truth"].items():
        p = int(p_s)
        t0_ = H["truth0"][p_s]
        if p not in pos and p not in first and p not in perr:
            continue
        st["partitions_judged"] += 1
        if t0_["lso"] < t0_["hw"]:
            st["lso_below_hw"] += 1
        if t0_["log_start"] > 0:
            st["trimmed_logs"] += 1
        vis = tr["visible"]
        c = H["committed"].get(p_s)
        log_start, hw, lso = t0_["log_start"], t0_["hw"], t0_["lso"]
        end = lso if iso else hw
        sought = seeks.get(p)
        detail = {"partition": p, "committed": c, "log_start": log_start, "hw": hw, "lso": lso, "policy": P["policy"],
                  "isolation": P["isolation"], "position": pos.get(p), "first_record": first.get(p), "poll_error": perr.get(p),
                  "seek": sought, "list_offsets": [e for e in H["list_offsets"] if e["p"] == p][:6],
                  "offset_fetch": H["offset_fetch"][:6], "fault_hits": H["fault_hits"]}
        # ---------------- expected start
        expected, expect_error, how = None, None, None
        if sought is not None:
            expected, how = sought["o"], "seek"
            st["seek_wins_checked"] += 1
            # was a lookup still in flight when the seek landed?
            lookups = [e["t"] for e in H["list_offsets"] if e["p"] == p] + [e["t"] for e in H["offset_fetch"]]
            if any(t >= sought["t"] for t in lookups):
                st["seek_while_lookup_in_flight"] += 1
        elif c is not None and log_start <= c <= hw:
            expected, how = c, "committed"
            st["start_from_committed"] += 1
        else:
            if c is not None:
                st["out_of_range_committed"] += 1
            if P["policy"] == "earliest":
                expected, how = log_start, "earliest"      # = what every ListOffsets(earliest) reply said (log is static)
                st["reset_earliest"] += 1
            elif P["policy"] == "latest":
                expected, how = end, "latest"
                st["reset_latest"] += 1
            else:
                expect_error = "OffsetOutOfRangeError" if c is not None else "NoOffsetForPartitionError"
                how = "none"
                st["policy_none_errors"] += 1
        # ---------------- compare
        if expect_error:
            got = perr.get(p)
            if got is None or got["exc"] != expect_error:
                V.append((f"policy_none_does_not_raise_{expect_error}",
                          f"partition {p}: committed={c}, log [{log_start},{hw}], policy none: expected {expect_error} from "
                          f"getmany(), observed position={pos.get(p, {}).get('pos')} first_record={first.get(p, {}).get('o')} "
                          f"error={got['exc'] if got else None}", detail))
            continue
        pe = pos.get(p)
        if pe is None or pe.get("pos") is None:
            V.append(("position_not_established_within_bound",
                      f"partition {p}: position() gave no value {round(settle_bound(P), 1)}s after the injected faults stopped "
                      f"(expected {expected} via {how}); {pe}", detail))
            continue
        if pe["pos"] != expected:
            mech = {"seek": "seek_during_lookup_overridden", "committed": "start_position_differs_from_committed_offset",
                    "earliest": "reset_earliest_not_at_log_start", "latest": "reset_latest_not_at_log_end_for_isolation_level"}[how]
            V.append((mech, f"partition {p}: expected start {expected} ({how}; committed={c}, log [{log_start},{hw}], lso {lso}, "
                      f"{P['isolation']}, policy {P['policy']}) but position() == {pe['pos']}", detail))
            continue
        fr = first.get(p)
        i = bisect.bisect_left(vis, expected)
        nv = vis[i] if i < len(vis) else None
        if fr is not None:
            st["first_records_checked"] += 1
            if fr["o"] != nv:
                V.append(("first_record_is_not_first_visible_at_start_position",
                          f"partition {p}: start position {expected} ({how}), first visible record at/after it is {nv}, "
                          f"first record returned has offset {fr['o']}", detail))
        elif nv is not None and p not in perr:
            V.append(("no_record_delivered_from_start_position",
                      f"partition {p}: start position {expected} ({how}) and a visible record at {nv}, but nothing was returned",
                      detail))
        elif p in perr:
            V.append((f"unexpected_error_{perr[p]['exc']}", f"partition {p}: getmany() raised {perr[p]['exc']} although the start "
                      f"position {expected} ({how}) is valid", detail))
    return V, st
