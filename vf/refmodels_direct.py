"""Independent oracles for the directly-checked properties C14, C15, C17, C18.

Nothing here imports aiokafka.  Everything is written from the property statements / the cited
specifications, deliberately in a different style from the library so that a shared mistake is
unlikely:

* murmur2_java / java_partition   -- org.apache.kafka.common.utils.Utils.murmur2 transcribed with
  explicit signed 32-bit (Java `int`) emulation; anchored on the six Java-computed literals of
  /repo/tests/test_partitioner.py (JAVA_ANCHORS, check_murmur2_anchors()).
* ScramServer                     -- RFC 5802 server side from hashlib/hmac; honest, single-field
  tampering (man in the middle) and impostor-without-password modes.
* assignment predicates           -- validity, within-one balance, KIP-54 balance, stickiness,
  each the sentence of the property statement turned into a loop.

Data model used by the assignment predicates (plain python, no library types):
  layout     : {topic: set[int] | None}      None = topic has no metadata
  subs       : {member: iterable[str]}       topics the member subscribes to
  assignment : {member: list[(topic, partition)]}   duplicates preserved as produced
"""
from __future__ import annotations

import base64
import hashlib
import hmac
import os

# --------------------------------------------------------------------------------------------
# murmur2 (Java int semantics)
# --------------------------------------------------------------------------------------------

_TWO32 = 1 << 32
_TWO31 = 1 << 31


def _int(x: int) -> int:
    """Wrap a python integer to a Java `int` (two's complement, signed 32 bit)."""
    x %= _TWO32
    return x - _TWO32 if x >= _TWO31 else x


def _imul(a: int, b: int) -> int:
    """Java `a * b` on ints (overflow wraps)."""
    return _int(a * b)


def _ushr(a: int, n: int) -> int:
    """Java `a >>> n` on an int: shift the 32-bit pattern right, zero filling."""
    return _int((a % _TWO32) >> n)


def _ixor(a: int, b: int) -> int:
    """Java `a ^ b` on ints (python's ^ on signed values already is two's complement)."""
    return _int(a ^ b)


_SEED = _int(0x9747B28C)
_M = 0x5BD1E995
_R = 24


def murmur2_java(data: bytes) -> int:
    """Utils.murmur2(byte[]) -> signed 32-bit result, as the Java client computes it.

    Java source being transcribed (Kafka clients, Utils.java):
        int length = data.length; int seed = 0x9747b28c; m = 0x5bd1e995; r = 24;
        int h = seed ^ length; int length4 = length / 4;
        for (int i = 0; i < length4; i++) { final int i4 = i * 4;
            int k = (data[i4+0]&0xff) + ((data[i4+1]&0xff)<<8) + ((data[i4+2]&0xff)<<16)
                    + ((data[i4+3]&0xff)<<24);
            k *= m; k ^= k >>> r; k *= m; h *= m; h ^= k; }
        switch (length % 4) { case 3: h ^= (data[(length&~3)+2]&0xff) << 16;
                              case 2: h ^= (data[(length&~3)+1]&0xff) << 8;
                              case 1: h ^= data[length&~3]&0xff; h *= m; }
        h ^= h >>> 13; h *= m; h ^= h >>> 15; return h;
    """
    n = len(data)
    h = _ixor(_SEED, n)
    whole = n - (n % 4)
    for off in range(0, whole, 4):
        # four bytes little endian; the top byte shifted by 24 overflows into the sign bit in Java
        k = int.from_bytes(data[off:off + 4], "little", signed=True)
        k = _imul(k, _M)
        k = _ixor(k, _ushr(k, _R))
        k = _imul(k, _M)
        h = _imul(h, _M)
        h = _ixor(h, k)
    tail = data[whole:]
    rem = len(tail)
    # the Java switch falls through 3 -> 2 -> 1
    if rem == 3:
        h = _ixor(h, tail[2] << 16)
    if rem >= 2:
        h = _ixor(h, tail[1] << 8)
    if rem >= 1:
        h = _ixor(h, tail[0])
        h = _imul(h, _M)
    h = _ixor(h, _ushr(h, 13))
    h = _imul(h, _M)
    h = _ixor(h, _ushr(h, 15))
    return h


def java_to_positive(x: int) -> int:
    """Utils.toPositive: x & 0x7fffffff on a Java int."""
    return (x % _TWO32) & 0x7FFFFFFF


def java_partition(key: bytes, num_partitions: int) -> int:
    """BuiltInPartitioner/DefaultPartitioner for a keyed record."""
    return java_to_positive(murmur2_java(key)) % num_partitions


# (key, partition out of 1000) computed by Kafka's Java partitioner; copied from
# /repo/tests/test_partitioner.py::test_murmur2_java_compatibility
JAVA_ANCHORS = [
    (b"", 681),
    (b"a", 524),
    (b"ab", 434),
    (b"abc", 107),
    (b"123456789", 566),
    (b"\x00 ", 742),
]


def check_murmur2_anchors() -> list:
    """[] when the transcription reproduces all six Java literals, else the mismatches."""
    bad = []
    for key, want in JAVA_ANCHORS:
        got = java_partition(key, 1000)
        if got != want:
            bad.append((key.hex(), want, got))
    return bad


# --------------------------------------------------------------------------------------------
# assignment predicates
# --------------------------------------------------------------------------------------------

def expected_partitions(layout, subs):
    """Set of (topic, partition) that must be assigned: partitions of topics that have metadata
    and at least one subscriber."""
    out = set()
    subscribed = set()
    for topics in subs.values():
        subscribed.update(topics)
    for topic in subscribed:
        parts = layout.get(topic)
        if parts is None:
            continue
        for p in parts:
            out.add((topic, p))
    return out


def check_validity(layout, subs, assignment):
    """'assign each partition of each subscribed topic that has metadata to exactly one member
    subscribed to that topic, and assign nothing else'.  Returns [(kind, detail)]."""
    problems = []
    must = expected_partitions(layout, subs)
    owners = {}
    for member, tps in assignment.items():
        if member not in subs:
            if tps:
                problems.append(("assigned_to_non_member", f"{member!r} is not a group member but got {sorted(tps)}"))
            else:
                problems.append(("non_member_in_result", f"{member!r} is not a group member"))
            continue
        mine = set(subs[member])
        for tp in tps:
            owners.setdefault(tp, []).append(member)
            topic, p = tp
            if tp not in must:
                parts = layout.get(topic)
                if parts is None:
                    why = "topic has no metadata"
                elif p not in parts:
                    why = "partition does not exist"
                else:
                    why = "nobody subscribes to the topic"
                problems.append(("assigned_something_else", f"{member!r} got {tp}: {why}"))
            elif topic not in mine:
                problems.append(("owner_not_subscribed", f"{member!r} got {tp} but subscribes to {sorted(mine)}"))
    for tp in sorted(must):
        n = len(owners.get(tp, ()))
        if n == 0:
            problems.append(("partition_unassigned", f"{tp} has no owner"))
        elif n > 1:
            problems.append(("partition_multiple_owners", f"{tp} owned by {owners[tp]}"))
    return problems


def loads(assignment, members):
    return {m: len(assignment.get(m, ())) for m in members}


def within_one(counts) -> bool:
    counts = list(counts)
    return not counts or max(counts) - min(counts) <= 1


def subscriptions_identical(subs) -> bool:
    sets = [frozenset(v) for v in subs.values()]
    return all(s == sets[0] for s in sets[1:])


def check_range_within_one_per_topic(layout, subs, assignment):
    """'range within each topic keep member loads within one of each other' (among the members
    subscribed to that topic)."""
    problems = []
    topics = set()
    for v in subs.values():
        topics.update(v)
    for topic in sorted(topics):
        if layout.get(topic) is None:
            continue
        counts = {}
        for member, v in subs.items():
            if topic in v:
                counts[member] = sum(1 for (t, _p) in assignment.get(member, ()) if t == topic)
        if not within_one(counts.values()):
            problems.append(("range_not_within_one", f"topic {topic}: per-member counts {counts}"))
    return problems


def check_roundrobin_within_one(layout, subs, assignment):
    """'round-robin with identical subscriptions ... keep member loads within one'."""
    if not subscriptions_identical(subs):
        return []
    counts = loads(assignment, subs)
    if not within_one(counts.values()):
        return [("roundrobin_not_within_one", f"identical subscriptions, loads {counts}")]
    return []


def check_kip54_balance(layout, subs, assignment):
    """'no member could take a partition it is subscribed to from a member holding at least two
    more than it'."""
    counts = loads(assignment, subs)
    problems = []
    for b, tps in assignment.items():
        if b not in subs:
            continue
        for (topic, p) in tps:
            for a in subs:
                if a == b:
                    continue
                if topic in subs[a] and counts[b] >= counts[a] + 2:
                    problems.append(("sticky_kip54_imbalance",
                                     f"{a!r} holds {counts[a]}, is subscribed to {topic} and could take "
                                     f"({topic},{p}) from {b!r} holding {counts[b]}"))
                    return problems  # one witness is enough
    return problems


def owner_map(assignment):
    """(topic, partition) -> owner (first owner wins; validity is judged elsewhere)."""
    out = {}
    for member, tps in assignment.items():
        for tp in tps:
            out.setdefault(tp, member)
    return out


def check_same_assignment(prev, new):
    """clause (a): the previous assignment is reproduced unchanged."""
    a = {m: sorted(set(v)) for m, v in prev.items()}
    b = {m: sorted(set(v)) for m, v in new.items()}
    if a == b and all(len(set(v)) == len(v) for v in new.values()):
        return []
    moved = []
    po, no = owner_map(prev), owner_map(new)
    for tp in sorted(set(po) | set(no)):
        if po.get(tp) != no.get(tp):
            moved.append((tp, po.get(tp), no.get(tp)))
    return [("sticky_identical_round_changed", f"owner changes (partition, before, after): {moved[:8]}")]


def check_no_moves_among(prev, new, group, kind):
    """clauses (b)/(c): no partition moves between two members of `group` (the survivors resp.
    the old members)."""
    po, no = owner_map(prev), owner_map(new)
    group = set(group)
    moved = []
    for tp in sorted(po):
        o1 = po[tp]
        o2 = no.get(tp)
        if o1 in group and o2 in group and o1 != o2:
            moved.append((tp, o1, o2))
    if moved:
        return [(kind, f"moved (partition, from, to): {moved[:8]}")]
    return []


# --------------------------------------------------------------------------------------------
# SCRAM (RFC 5802) server
# --------------------------------------------------------------------------------------------

SCRAM_HASHES = {"SCRAM-SHA-256": "sha256", "SCRAM-SHA-512": "sha512"}


_HI_CACHE = {}


def _hi(hashname: str, password: bytes, salt: bytes, i: int) -> bytes:
    key = (hashname, password, salt, i)
    v = _HI_CACHE.get(key)
    if v is None:
        if len(_HI_CACHE) > 256:
            _HI_CACHE.clear()
        v = _HI_CACHE[key] = _hi_uncached(hashname, password, salt, i)
    return v


def _hi_uncached(hashname: str, password: bytes, salt: bytes, i: int) -> bytes:
    """RFC 5802 Hi(): U1 = HMAC(str, salt + INT(1)); Ui = HMAC(str, Ui-1); xor of all.
    Written out (not pbkdf2_hmac) for small i so that the oracle does not share the library's
    primitive; falls back to pbkdf2_hmac (same function by RFC 5802 section 2.2) above 64 rounds
    after cross-checking both on the first call."""
    if i <= 64:
        return _hi_loop(hashname, password, salt, i)
    return hashlib.pbkdf2_hmac(hashname, password, salt, i)


def _hi_loop(hashname, password, salt, i):
    u = hmac.new(password, salt + b"\x00\x00\x00\x01", hashname).digest()
    acc = int.from_bytes(u, "big")
    for _ in range(i - 1):
        u = hmac.new(password, u, hashname).digest()
        acc ^= int.from_bytes(u, "big")
    return acc.to_bytes(len(u), "big")


def hi_selfcheck() -> bool:
    for hn in ("sha256", "sha512"):
        for it in (1, 2, 65, 100):
            if _hi_loop(hn, b"pw\xc3\xa4", b"salt", it) != hashlib.pbkdf2_hmac(hn, b"pw\xc3\xa4", b"salt", it):
                return False
    # RFC 7677 section 3 test vector (SCRAM-SHA-256, user/pencil)
    salt = base64.b64decode("W22ZaJ0SNY7soEsUEjb6gQ==")
    sp = _hi("sha256", b"pencil", salt, 4096)
    ck = hmac.new(sp, b"Client Key", "sha256").digest()
    sk = hashlib.sha256(ck).digest()
    am = ("n=user,r=rOprNGfwEbeRWgbNEkqO,"
          "r=rOprNGfwEbeRWgbNEkqO%hvYDpWUa2RaTCAfuxFIlj)hNlF$k0,s=W22ZaJ0SNY7soEsUEjb6gQ==,i=4096,"
          "c=biws,r=rOprNGfwEbeRWgbNEkqO%hvYDpWUa2RaTCAfuxFIlj)hNlF$k0").encode()
    cs = hmac.new(sk, am, "sha256").digest()
    proof = bytes(x ^ y for x, y in zip(ck, cs))
    if base64.b64encode(proof) != b"dHzbZapWIk4jUhN+Ute9ytag9zjfMHgsqmmiz7AndVQ=":
        return False
    svk = hmac.new(sp, b"Server Key", "sha256").digest()
    if base64.b64encode(hmac.new(svk, am, "sha256").digest()) != b"6rriTRBi23WpRR/wtup+mMhUZUn/dB5nLTJRsjl95G4=":
        return False
    return True


def unescape_saslname(s: str):
    """RFC 5802 saslname: '=2C' -> ',', '=3D' -> '='; any other '=' or a bare ',' is invalid.
    Returns (name, None) or (None, reason)."""
    out = []
    i = 0
    while i < len(s):
        c = s[i]
        if c == ",":
            return None, "bare ',' in saslname"
        if c == "=":
            code = s[i + 1:i + 3]
            if code == "2C":
                out.append(",")
            elif code == "3D":
                out.append("=")
            else:
                return None, f"invalid escape {s[i:i + 3]!r} in saslname"
            i += 3
            continue
        out.append(c)
        i += 1
    return "".join(out), None


NONCE_TAMPERS = ["drop_client_part", "flip_first_char", "flip_last_char_of_client_part", "flip_middle_char",
                 "truncate_client_part", "prefix_garbage", "swap_case", "client_part_after_server_part",
                 "empty", "reverse_client_part"]


def _flip_char(c: str) -> str:
    return "A" if c != "A" else "B"


def tampered_nonce(kind: str, client: str, ext: str) -> str:
    """A combined nonce that is NOT client + something (callers verify with startswith and skip
    the rare coincidences)."""
    if kind == "drop_client_part":
        return ext
    if kind == "flip_first_char":
        return _flip_char(client[0]) + client[1:] + ext
    if kind == "flip_last_char_of_client_part":
        return client[:-1] + _flip_char(client[-1]) + ext
    if kind == "flip_middle_char":
        m = len(client) // 2
        return client[:m] + _flip_char(client[m]) + client[m + 1:] + ext
    if kind == "truncate_client_part":
        return client[:-1] + ext
    if kind == "prefix_garbage":
        return "x" + client + ext
    if kind == "swap_case":
        return client.swapcase() + ext
    if kind == "client_part_after_server_part":
        return ext + client
    if kind == "empty":
        return ""
    if kind == "reverse_client_part":
        return client[::-1] + ext
    raise ValueError(kind)


class ScramServer:
    """One RFC 5802 exchange, server side.

    mode = "honest"   : knows the password; checks everything the RFC lets a server check;
                        `problems` lists what was wrong with the client's messages; `accepted`
                        is True when the proof verified.
    mode = "tamper"   : the same honest server with a man in the middle changing ONE field of ONE
                        server message (`tamper` = (field, how)); transcript = "server" computes
                        the signature over what the server originally wrote, "wire" over what the
                        client was shown.
    mode = "impostor" : no password at all; sends a well-formed server-first with its own salt and
                        iteration count and then guesses the server signature (`guess`).
    """

    def __init__(self, mechanism, username, password, salt, iterations, nonce_ext,
                 mode="honest", tamper=None, transcript="server", guess=None, alt_salt=None):
        self.hashname = SCRAM_HASHES[mechanism]
        self.hlen = hashlib.new(self.hashname).digest_size
        self.username = username
        self.password = None if password is None else password.encode("utf-8")
        self.salt = salt
        self.iterations = iterations
        self.nonce_ext = nonce_ext
        self.mode = mode
        self.tamper = tamper
        self.transcript = transcript
        self.guess = guess
        self.alt_salt = alt_salt
        self.problems = []
        self.accepted = False
        self.client_first_bare = None
        self.client_nonce = None
        self.server_first = None       # as the server wrote it
        self.server_first_wire = None  # as the client saw it
        self.sent_signature = None
        self.true_signature = None
        self.tampered_nonce_extends = False

    # -- helpers -------------------------------------------------------------------------
    def _H(self, b):
        return hashlib.new(self.hashname, b).digest()

    def _hmac(self, k, m):
        return hmac.new(k, m, self.hashname).digest()

    def _problem(self, kind, detail):
        self.problems.append((kind, detail))

    # -- message 1 -----------------------------------------------------------------------
    def on_client_first(self, raw: bytes) -> bytes:
        try:
            msg = raw.decode("utf-8")
        except Exception as e:  # noqa: BLE001
            self._problem("scram_client_first_malformed", f"not UTF-8: {e!r}")
            msg = raw.decode("utf-8", "replace")
        if not msg.startswith("n,,"):
            self._problem("scram_bad_gs2_header", f"client-first {msg[:40]!r} does not start with 'n,,'")
            bare = msg.split(",", 2)[-1]
        else:
            bare = msg[3:]
        self.client_first_bare = bare
        attrs = bare.split(",")
        if len(attrs) < 2 or not attrs[0].startswith("n=") or not attrs[1].startswith("r="):
            self._problem("scram_client_first_malformed", f"client-first-bare {bare!r} is not n=...,r=...")
            self.client_nonce = ""
        else:
            name, why = unescape_saslname(attrs[0][2:])
            if name is None:
                self._problem("scram_username_escaping", f"{why}; sent {attrs[0]!r} for user {self.username!r}")
            elif name != self.username:
                self._problem("scram_username_escaping",
                              f"server reads user {name!r} from {attrs[0]!r}, configured {self.username!r}")
            nonce = attrs[1][2:]
            if not nonce or any(not (0x21 <= ord(c) <= 0x7E) or c == "," for c in nonce):
                self._problem("scram_bad_client_nonce", f"nonce {nonce!r} is not RFC 5802 printable")
            self.client_nonce = nonce
            for ext in attrs[2:]:
                if len(ext) < 2 or ext[1] != "=" or not ext[0].isalpha():
                    self._problem("scram_client_first_malformed", f"junk {ext!r} after the nonce")
        combined = self.client_nonce + self.nonce_ext
        salt_b64 = base64.b64encode(self.salt).decode()
        self.server_first = f"r={combined},s={salt_b64},i={self.iterations}"
        wire = self.server_first
        if self.mode == "tamper" and self.tamper[0] in ("nonce", "salt", "iterations"):
            field, how = self.tamper
            if field == "nonce":
                bad = tampered_nonce(how, self.client_nonce, self.nonce_ext)
                self.tampered_nonce_extends = bad.startswith(self.client_nonce)
                wire = f"r={bad},s={salt_b64},i={self.iterations}"
            elif field == "salt":
                wire = f"r={combined},s={base64.b64encode(how).decode()},i={self.iterations}"
            elif field == "iterations":
                wire = f"r={combined},s={salt_b64},i={how}"
        self.server_first_wire = wire
        return wire.encode("utf-8")

    # -- message 2 -----------------------------------------------------------------------
    def on_client_final(self, raw: bytes) -> bytes:
        try:
            msg = raw.decode("utf-8")
        except Exception as e:  # noqa: BLE001
            self._problem("scram_client_final_malformed", f"not UTF-8: {e!r}")
            msg = raw.decode("utf-8", "replace")
        idx = msg.rfind(",p=")
        if idx < 0:
            self._problem("scram_client_final_malformed", f"no proof in {msg[:60]!r}")
            without_proof, proof_b64 = msg, ""
        else:
            without_proof, proof_b64 = msg[:idx], msg[idx + 3:]
        attrs = without_proof.split(",")
        wire_nonce = self.server_first_wire[2:].split(",s=", 1)[0] if self.server_first_wire else ""
        if len(attrs) < 2 or not attrs[0].startswith("c=") or not attrs[1].startswith("r="):
            self._problem("scram_client_final_malformed", f"client-final {without_proof!r} is not c=...,r=...")
        else:
            if attrs[0][2:] != "biws":  # base64("n,,")
                self._problem("scram_bad_channel_binding", f"c={attrs[0][2:]!r}, expected 'biws'")
            if attrs[1][2:] != wire_nonce:
                self._problem("scram_bad_final_nonce", f"client-final nonce {attrs[1][2:]!r} != {wire_nonce!r}")
        try:
            proof = base64.b64decode(proof_b64.encode(), validate=True)
        except Exception:  # noqa: BLE001
            proof = b""
            self._problem("scram_client_final_malformed", f"proof {proof_b64[:40]!r} is not base64")

        if self.mode == "impostor":
            return self._impostor_final(proof)

        shown_first = self.server_first if self.transcript == "server" else self.server_first_wire
        auth_message = (self.client_first_bare + "," + shown_first + "," + without_proof).encode("utf-8")
        salted = _hi(self.hashname, self.password, self.salt, self.iterations)
        client_key = self._hmac(salted, b"Client Key")
        stored_key = self._H(client_key)
        server_key = self._hmac(salted, b"Server Key")
        client_signature = self._hmac(stored_key, auth_message)
        ok = False
        if len(proof) != self.hlen:
            if self.mode == "honest":
                self._problem("scram_bad_client_proof", f"proof has {len(proof)} bytes, hash has {self.hlen}")
        else:
            recovered = bytes(a ^ b for a, b in zip(proof, client_signature))
            ok = hmac.compare_digest(self._H(recovered), stored_key)
            if not ok and self.mode == "honest":
                self._problem("scram_bad_client_proof",
                              "ClientProof does not verify against the StoredKey derived from the password")
        self.accepted = ok and not self.problems
        signature = self._hmac(server_key, auth_message)
        self.true_signature = signature
        send = signature
        if self.mode == "tamper" and self.tamper[0] == "signature":
            how = self.tamper[1]
            if how[0] == "flipbit":
                b = bytearray(signature)
                b[how[1] // 8] ^= 1 << (how[1] % 8)
                send = bytes(b)
            elif how[0] == "truncate":
                send = signature[:how[1]]
            elif how[0] == "extend":
                send = signature + bytes(how[1])
            elif how[0] == "zero":
                send = bytes(len(signature))
            elif how[0] == "other_password":
                sp2 = _hi(self.hashname, how[1].encode("utf-8"), self.salt, self.iterations)
                send = self._hmac(self._hmac(sp2, b"Server Key"), auth_message)
            elif how[0] == "error":
                self.sent_signature = None
                return b"e=invalid-proof"
            else:
                raise ValueError(how)
        self.sent_signature = send
        return b"v=" + base64.b64encode(send)

    def _impostor_final(self, proof: bytes) -> bytes:
        kind = self.guess[0]
        auth_message = (self.client_first_bare + "," + self.server_first_wire + ","
                        + f"c=biws,r={self.client_nonce}{self.nonce_ext}").encode("utf-8")
        if kind == "random":
            g = self.guess[1]
        elif kind == "zeros":
            g = bytes(self.hlen)
        elif kind == "echo_proof":
            g = proof
        elif kind == "hash_proof":
            g = self._H(proof)
        elif kind == "hmac_proof":
            g = self._hmac(proof, auth_message)
        elif kind == "wrong_password":
            sp = _hi(self.hashname, self.guess[1].encode("utf-8"), self.salt, self.iterations)
            g = self._hmac(self._hmac(sp, b"Server Key"), auth_message)
        elif kind == "unkeyed":
            g = self._hmac(b"Server Key", auth_message)
        elif kind == "empty":
            g = b""
        else:
            raise ValueError(kind)
        self.sent_signature = g
        return b"v=" + base64.b64encode(g)


def _selftest() -> None:  # pragma: no cover - run by hand: python -m vf.refmodels_direct
    assert check_murmur2_anchors() == [], check_murmur2_anchors()
    assert hi_selfcheck()
    assert unescape_saslname("a=2Cb=3Dc") == ("a,b=c", None)
    assert unescape_saslname("a=b")[0] is None
    lay = {"t0": {0, 1, 2}, "t1": None}
    subs = {"a": ["t0", "t1"], "b": ["t0"]}
    assert check_validity(lay, subs, {"a": [("t0", 0), ("t0", 1)], "b": [("t0", 2)]}) == []
    assert check_validity(lay, subs, {"a": [("t0", 0)], "b": [("t0", 2)]})[0][0] == "partition_unassigned"
    assert check_kip54_balance(lay, subs, {"a": [("t0", 0), ("t0", 1), ("t0", 2)], "b": []})
    print("refmodels_direct selftest ok", os.getpid())


if __name__ == "__main__":
    _selftest()
