"""Offline checkers over vf.txn_sim histories: C07 (atomicity, protocol order, bounded completion, fencing) and
C16 (lock-step reference model of the documented transactional API)."""
from __future__ import annotations

from vf import cluster as C
from vf import txn_sim as T

END_OPS = ("commit", "abort", "ctx_ok", "ctx_exc")


def _name(op):
    op = op[2:] if op.startswith("B.") else op
    return op.split(":")[0]


def transactions(H):
    """API-level transactions: [{who, n, uids, offsets, end: commit|abort|None, end_outcome, begin_op, end_op}]"""
    txns = {}
    order = []
    cur = {"A": None, "B": None}
    count = {"A": 0, "B": 0}
    for i, o in enumerate(H["ops"]):
        who, nm = o["who"], _name(o["op"])
        if nm == "begin" and o["outcome"] == "ok":
            count[who] += 1
            cur[who] = (who, count[who])
            txns[cur[who]] = {"who": who, "n": count[who], "uids": [], "offsets": [], "end": None, "end_outcome": None,
                              "begin_i": i, "end_i": None, "t_begin": o["t_ret"]}
            order.append(cur[who])
        elif nm in ("ctx_ok", "ctx_exc", "ctx_slow", "ctx_slow_exc"):
            if o.get("txn"):
                count[who] = max(count[who], o["txn"])
                key = (who, o["txn"])
                txns[key] = {"who": who, "n": o["txn"], "uids": [], "offsets": [], "end": "abort" if nm in ("ctx_exc", "ctx_slow_exc") else "commit",
                             "end_outcome": o["outcome"], "begin_i": i, "end_i": i, "t_begin": o["t_call"], "ctx": nm}
                order.append(key)
                cur[who] = None
        elif nm == "finish" and cur[who] is not None:
            t = txns[cur[who]]
            t["end"] = o.get("finished") or "commit"
            t["end_outcome"], t["end_i"] = o["outcome"], i
            t["commit_exc"] = o.get("commit_exc")
            cur[who] = None
        elif nm in ("commit", "abort") and cur[who] is not None:
            t = txns[cur[who]]
            # an abort after a failed commit is the real end of the transaction
            t["end"], t["end_outcome"], t["end_i"] = nm, o["outcome"], i
            t.setdefault("end_history", []).append((nm, o["outcome"]))
            if o["outcome"] == "ok":
                cur[who] = None
    for uid, s in H["sends"].items():
        key = (s["who"], s["txn"])
        if key in txns:
            txns[key]["uids"].append(uid)
    for ofs in H["offsets_sent"]:
        key = (ofs["who"], ofs["txn"])
        if key in txns and ofs["group"] == T.GROUP:
            txns[key]["offsets"].append(ofs)
    return [txns[k] for k in order]


# ==================================================================================================
# C07
# ==================================================================================================

def judge_c07(H):
    P = H["params"]
    V = []
    st = {"transactions_judged": 0, "committed_transactions": 0, "aborted_transactions": 0, "failed_or_open_transactions": 0,
          "records_checked": 0, "offset_commits_checked": 0, "transactional_arrivals_checked": 0, "endtxn_order_checked": 0,
          "produce_after_addpartitions_checked": 0, "bounded_completion_checked": 0, "fenced_calls_checked": 0,
          "retriable_faults_hit": sum(v for k, v in H["fault_hits"].items()), "histories_with_replacement": 0,
          "histories_with_abortable_error": 0, "concurrent_send_bursts": 0}
    rc_all = {}
    for tp, uids in H["rc"].items():
        for u in uids:
            rc_all.setdefault(u, []).append(tp)
    txns = transactions(H)
    prog = [o["op"] for o in H["ops"]]
    replaced = any(_name(o) == "replace" for o in prog)
    killed = any(_name(o) == "kill" for o in prog)
    if replaced or killed:
        st["histories_with_replacement"] = 1
    fault = P.get("fault")
    hard_fault = bool(fault and fault["kind"] == "error" and (fault["code"] in sum(T.FATAL.values(), []) or
                                                              fault["code"] in sum(T.ABORTABLE.values(), [])))
    if fault and fault["kind"] == "error" and fault["code"] in sum(T.ABORTABLE.values(), []) and H.get("fault_fired"):
        st["histories_with_abortable_error"] = 1
    st["concurrent_send_bursts"] = sum(1 for o in prog if _name(o) == "burst")
    committed_uids = set()
    last_committed_offset = None
    for t in txns:
        st["transactions_judged"] += 1
        vis = [u for u in t["uids"] if u in rc_all]
        dup = [u for u in t["uids"] if len(rc_all.get(u, [])) > 1 or H["ru"].get(H["sends"][u]["tp"], []).count(u) > 1]
        st["records_checked"] += len(t["uids"])
        detail = {"transaction": {k: v for k, v in t.items()}, "visible_at_read_committed": vis,
                  "classes": {u: H["classes"].get(u) for u in t["uids"]}, "coordinator": H["coordinator_state"],
                  "program": prog, "fault": fault, "txn_log": [
                      {k: v for k, v in e.items() if k in ("t", "op", "error", "partitions", "commit", "txn_seq", "per_partition")}
                      for e in H["txn_log"]][:40]}
        ok_commit = t["end"] == "commit" and t["end_outcome"] == "ok"
        explicit_abort = t["end"] == "abort" and (t["end_outcome"] == "ok" or
                                                   (t.get("ctx") in ("ctx_exc", "ctx_slow_exc") and t["end_outcome"] == "exc:RuntimeError"))
        if ok_commit:
            st["committed_transactions"] += 1
            committed_uids.update(t["uids"])
            acked_missing = [u for u in t["uids"] if u not in rc_all]
            if acked_missing:
                V.append(("committed_transaction_record_not_visible",
                          f"transaction {t['who']}{t['n']}: commit_transaction() returned normally but record(s) {acked_missing[:4]} "
                          f"are not visible to a read_committed reader (send outcomes "
                          f"{[H['sends'][u]['outcome'] for u in acked_missing[:4]]})", detail))
            if dup:
                V.append(("committed_transaction_record_duplicated", f"transaction {t['who']}{t['n']}: record(s) {dup[:4]} "
                          "appear more than once", detail))
            for ofs in t["offsets"]:
                st["offset_commits_checked"] += 1
                last_committed_offset = ofs
        elif explicit_abort:
            st["aborted_transactions"] += 1
            if vis:
                V.append(("aborted_transaction_record_visible_at_read_committed",
                          f"transaction {t['who']}{t['n']} was aborted ({t['end']} -> {t['end_outcome']}) but its record(s) "
                          f"{vis[:4]} are visible to a read_committed reader", detail))
        else:
            st["failed_or_open_transactions"] += 1
            if vis and len(vis) != len(t["uids"]):
                V.append(("failed_transaction_partially_visible",
                          f"transaction {t['who']}{t['n']} (end {t['end']} -> {t['end_outcome']}) is partially visible at "
                          f"read_committed: {vis[:4]} of {t['uids'][:6]}", detail))
            elif vis and t["end"] != "commit":
                V.append(("unfinished_transaction_record_visible_at_read_committed",
                          f"transaction {t['who']}{t['n']} never committed (end {t['end']} -> {t['end_outcome']}) but {vis[:4]} are "
                          "visible to a read_committed reader", detail))
    # phantom: visible records outside any committed transaction
    for u, tps in rc_all.items():
        if u is not None and u not in committed_uids and u in H["sends"]:
            s = H["sends"][u]
            key = [t for t in txns if t["who"] == s["who"] and t["n"] == s["txn"]]
            if not key:
                V.append(("record_outside_any_transaction_visible", f"record {u} (txn index {s['txn']}) is visible at read_committed "
                          "but was not sent inside a transaction that committed", {"uid": u, "send": s, "program": prog}))
    # offsets
    if last_committed_offset is not None:
        got = H["group_offsets"].get(last_committed_offset["tp"])
        if got != last_committed_offset["offset"]:
            V.append(("committed_transaction_offsets_not_materialized",
                      f"the last committed transaction sent offset {last_committed_offset['offset']} for {last_committed_offset['tp']} "
                      f"but the group's committed offset is {got}", {"sent": last_committed_offset, "group_offsets": H["group_offsets"],
                                                                      "program": prog}))
    aborted_offsets = [o for t in txns for o in t["offsets"]
                       if not (t["end"] == "commit" and t["end_outcome"] == "ok")]
    committed_vals = {o["offset"] for t in txns for o in t["offsets"] if t["end"] == "commit" and t["end_outcome"] == "ok"}
    for o in aborted_offsets:
        if H["group_offsets"].get(o["tp"]) == o["offset"] and o["offset"] not in committed_vals:
            V.append(("uncommitted_transaction_offsets_materialized",
                      f"offset {o['offset']} for {o['tp']} was sent in transaction {o['who']}{o['txn']} which did not commit, yet it "
                      "is the group's committed offset", {"sent": o, "group_offsets": H["group_offsets"], "program": prog}))
    # ---- protocol order, broker side
    for a in H["arrivals"]:
        for b in a.get("batches") or []:
            if b.get("transactional") and not b.get("control"):
                st["transactional_arrivals_checked"] += 1
                # (with a second instance the coordinator may be aborting the first one's transaction on its own -
                # PrepareAbort until the markers are written - while data the first instance sent in good faith still
                # arrives: only single-instance histories are judged from the broker side)
                if a["appended"] and a["txn_ongoing"] is not True and not replaced and not killed:
                    V.append(("transactional_data_written_to_partition_not_in_open_transaction",
                              f"a transactional batch (pid {b['pid']} epoch {b['epoch']}, uids {b['uids'][:3]}) was appended to "
                              f"{a['tp']} at t={a['t']} while the coordinator had "
                              f"{'no ongoing transaction with that partition' if a['txn_ongoing'] is False else 'no such producer'}",
                              {"arrival": a, "program": prog, "fault": fault,
                               "txn_log": [{k: v for k, v in e.items() if k in ("t", "op", "error", "partitions", "commit", "txn_seq")}
                                           for e in H["txn_log"]][:40]}))
    # ---- protocol order, client side
    by_client = {}
    for r in H["client"]:
        by_client.setdefault(r["client"], []).append(r)
    for cid, recs in by_client.items():
        adds = [r for r in recs if r["req"] == "AddPartitionsToTxnRequest" and r["outcome"] == "ok"]
        prods = [r for r in recs if r["req"] == "ProduceRequest" and r.get("transactional")]
        ends = [r for r in recs if r["req"] == "EndTxnRequest"]
        for p in prods:
            for tp in p["tps"]:
                st["produce_after_addpartitions_checked"] += 1
                if not any(tp in a["tps"] and a["t_ret"] is not None and a["t_ret"] <= p["t_call"] + 1e-9 for a in adds):
                    V.append(("produce_sent_before_addpartitions_reply",
                              f"{cid}: transactional ProduceRequest for {tp} sent at t={p['t_call']} before any "
                              "AddPartitionsToTxn reply covering it had been received", {"produce": p, "adds": adds[:6], "program": prog}))
        for e in ends:
            st["endtxn_order_checked"] += 1
            bad = [p for p in prods if p["t_call"] < e["t_call"] - 1e-9 and (p["t_ret"] is None or p["t_ret"] > e["t_call"] + 1e-9)]
            if bad:
                V.append(("endtxn_sent_while_produce_unanswered",
                          f"{cid}: EndTxn sent at t={e['t_call']} while a ProduceRequest sent at t={bad[0]['t_call']} was still "
                          f"unanswered (answered at {bad[0]['t_ret']})", {"endtxn": e, "produce": bad[0], "program": prog}))
    # ---- bounded completion under retriable faults only
    if not hard_fault and not replaced and not killed and not H["errors"]:
        bound = T.txn_bound(P) * 4
        legal = _legal_flags(H)
        for o, is_legal in zip(H["ops"], legal):
            if not is_legal or _name(o["op"]) in ("sleep", "move", "gmove"):
                continue
            st["bounded_completion_checked"] += 1
            if o["outcome"] == "hung" or (o["t_ret"] - o["t_call"]) > bound:
                V.append(("transactional_call_not_completed_within_bound",
                          f"{o['op']} took {o['t_ret'] - o['t_call']:.1f}s / outcome {o['outcome']} with only retriable faults "
                          f"(bound {bound:.1f}s)", {"op": o, "program": prog, "fault_hits": H["fault_hits"]}))
            elif o["outcome"] != "ok" and not (_name(o["op"]) in ("ctx_exc", "ctx_slow_exc") and o["outcome"] == "exc:RuntimeError") \
                    and not (_name(o["op"]) in ("send", "burst", "spray") and o["outcome"] == "exc:KafkaTimeoutError"):
                V.append(("transactional_call_failed_under_retriable_faults_only",
                          f"{o['op']} -> {o['outcome']} ({o.get('msg', '')}) although only retriable faults were injected "
                          f"({sorted(H['fault_hits'])})", {"op": o, "program": prog, "fault_hits": H["fault_hits"], "fault": fault}))
        if H.get("pending_sends_at_end"):
            V.append(("send_future_pending_after_quiet_period", f"send futures {H['pending_sends_at_end'][:4]} still pending "
                      f"{T.txn_bound(P):.1f}s after the last fault", {"program": prog}))
    # ---- fencing: after B has started, every transactional call on A must fail
    if replaced:
        b_started = next((o["t_ret"] for o in H["ops"] if _name(o["op"]) == "replace" and o["outcome"] == "ok"), None)
        if b_started is not None:
            for o in H["ops"]:
                if o["who"] == "A" and o["t_call"] >= b_started and _name(o["op"]) in ("commit", "offsets", "ctx_ok"):
                    st["fenced_calls_checked"] += 1
                    tx = [t for t in txns if t["who"] == "A" and t["end_i"] is not None and H["ops"][t["end_i"]] is o]
                    nonempty = bool(tx and (tx[0]["uids"] or tx[0]["offsets"])) or _name(o["op"]) != "commit"
                    if o["outcome"] == "ok" and nonempty:
                        V.append(("zombie_producer_not_fenced", f"instance A's {o['op']} at t={o['t_call']} succeeded although "
                                  f"instance B with the same transactional id had been initialised at t={b_started}",
                                  {"op": o, "program": prog, "pid_epoch": H.get("pid_epoch")}))
    return V, st


def _legal_flags(H):
    """True for ops that the documented API allows in the state the model is in (no fault effects)."""
    state = {"A": "READY", "B": "READY"}
    out = []
    for o in H["ops"]:
        who, nm = o["who"], _name(o["op"])
        s = state[who]
        legal = True
        if nm == "begin":
            legal = s == "READY"
            if legal:
                state[who] = "IN"
        elif nm in ("send", "burst", "spray", "offsets"):
            legal = s == "IN"
        elif nm in ("commit", "abort", "finish"):
            legal = s == "IN"
            if legal:
                state[who] = "READY"
        elif nm in ("ctx_ok", "ctx_exc", "ctx_slow", "ctx_slow_exc"):
            legal = s == "READY"
        out.append(legal)
    return out


# ==================================================================================================
# C16
# ==================================================================================================

ABORTABLE_EXC = {C.TOPIC_AUTHORIZATION_FAILED: "TopicAuthorizationFailedError", C.GROUP_AUTHORIZATION_FAILED: "GroupAuthorizationFailedError"}


def judge_c16(H):
    """Lock-step reference model {READY, IN_TXN, ABORTABLE, FATAL} for single-instance programs with at most one
    scripted fault.  The fault takes effect in the model at the first op that returns (or settles) after the cluster
    served the faulted request."""
    P = H["params"]
    V = []
    st = {"calls_judged": 0, "legal_calls": 0, "illegal_calls": 0, "illegal_calls_wire_silent": 0, "calls_after_abortable": 0,
          "calls_after_fatal": 0, "abortable_recoveries": 0, "fatal_silence_checked": 0, "programs_with_fault_fired": 0,
          "pending_futures_failed_after_fatal": 0}
    fault = P.get("fault")
    fired = H.get("fault_fired")
    kind = None
    if fault and fired:
        st["programs_with_fault_fired"] = 1
        if fault["kind"] == "error":
            if fault["code"] in T.FATAL.get(fault["api"], []):
                kind = "fatal"
            elif fault["code"] in T.ABORTABLE.get(fault["api"], []):
                kind = "abortable"
            else:
                kind = "retriable"
        else:
            kind = "retriable"
    prog = [o["op"] for o in H["ops"]]
    state = "READY"
    abort_exc = ABORTABLE_EXC.get(fault["code"]) if fault and kind == "abortable" else None
    fault_applied = False
    recovered_from_abortable = False
    t_fatal = None
    for i, o in enumerate(H["ops"]):
        nm = _name(o["op"])
        if nm in ("sleep",):
            continue
        st["calls_judged"] += 1
        # does the fault land before this call started?  (served before t_call)
        if kind in ("fatal", "abortable") and not fault_applied and fired["t"] is not None and fired["t"] <= o["t_call"] + 1e-9:
            fault_applied = True
            if state in ("IN",) or kind == "fatal":
                state = "FATAL" if kind == "fatal" else "ABORTABLE"
                if kind == "fatal":
                    t_fatal = fired["t"]
        detail = {"program": prog, "index": i, "op": o, "model_state": state, "fault": fault, "fault_fired": fired}
        # ---- expected outcome in `state`
        exp = None          # "ok" | "raise" | ("raise", ExcName)
        nxt = state
        if state == "FATAL":
            exp = "raise"
            st["calls_after_fatal"] += 1
        elif nm == "begin":
            exp, nxt = ("ok", "IN") if state == "READY" else ("raise", state)
        elif nm in ("send", "burst", "spray"):
            exp = "ok" if state == "IN" else "raise"
        elif nm == "offsets":
            exp = "ok" if state == "IN" else "raise"
        elif nm == "commit":
            if state == "IN":
                exp, nxt = "ok", "READY"
            elif state == "ABORTABLE":
                exp = ("raise", abort_exc)
            else:
                exp = "raise"
        elif nm == "abort":
            if state in ("IN", "ABORTABLE"):
                exp, nxt = "ok", "READY"
                if state == "ABORTABLE":
                    recovered_from_abortable = True
            else:
                exp = "raise"
        elif nm in ("ctx_ok", "ctx_slow"):
            exp, nxt = ("ok", "READY") if state == "READY" else ("raise", state)
        elif nm in ("ctx_exc", "ctx_slow_exc"):
            exp, nxt = (("raise", "RuntimeError"), "READY") if state == "READY" else ("raise", state)
        if state == "ABORTABLE":
            st["calls_after_abortable"] += 1
        # ---- a fault that lands DURING this call makes its outcome model-dependent: accept what the state after says
        lands_during = kind in ("fatal", "abortable") and not fault_applied and fired["t"] is not None \
            and o["t_call"] - 1e-9 <= fired["t"] <= o.get("t_settled", o["t_ret"]) + 1e-9
        if lands_during:
            fault_applied = True
            in_txn_now = nxt == "IN" or (state == "IN" and nm in ("commit", "abort", "send", "burst", "spray", "offsets"))
            if kind == "fatal":
                # a call that needs the cluster (offsets, commit, abort with data, context exit) and during which the
                # fatal reply arrives cannot have succeeded
                if nm in ("offsets", "commit", "ctx_ok", "ctx_slow") and state in ("IN", "READY") and legal_here(nm, state) \
                        and fired["t"] <= o["t_ret"] + 1e-9 and o["outcome"] == "ok":
                    V.append((f"call_succeeds_although_fatal_error_arrived_during_it:{nm}",
                              f"program {prog}: call #{i} {o['op']} returned normally although the fatal error was served at "
                              f"t={fired['t']} while it was running [{o['t_call']}, {o['t_ret']}]", detail))
                state = "FATAL"
                t_fatal = fired["t"]
                continue
            if kind == "abortable":
                # the error belongs to the transaction that was open when the request was served
                if nm in ("commit",) and state == "IN":
                    # commit may already raise the abortable error, or the error arrived after the commit completed
                    state = "ABORTABLE" if o["outcome"] != "ok" else "READY"
                elif nm in ("abort", "ctx_exc", "ctx_slow_exc", "ctx_ok", "ctx_slow"):
                    state = "READY" if o["outcome"] in ("ok", "exc:RuntimeError") else ("ABORTABLE" if nm in ("ctx_ok", "ctx_slow") else "READY")
                    if nm in ("ctx_ok", "ctx_slow") and o["outcome"] != "ok":
                        # commit inside the context raised: the transaction is still to be aborted
                        state = "ABORTABLE"
                elif in_txn_now:
                    state = "ABORTABLE"
                else:
                    state = nxt
                continue
        legal = exp == "ok" or (isinstance(exp, tuple) and exp[1] == "RuntimeError")
        if legal:
            st["legal_calls"] += 1
            want = "ok" if exp == "ok" else "exc:RuntimeError"
            if o["outcome"] != want:
                V.append((f"legal_call_fails:{nm}:in_{state}",
                          f"program {prog}: call #{i} {o['op']} in model state {state} -> {o['outcome']} ({o.get('msg', '')}), "
                          f"expected {want}", detail))
                # resynchronise on the library's own view to avoid cascades
                state = _resync(o, nxt)
                continue
        else:
            st["illegal_calls"] += 1
            if o["outcome"] == "ok" or o["outcome"] == "hung":
                V.append((f"illegal_call_accepted:{nm}:in_{state}",
                          f"program {prog}: call #{i} {o['op']} in model state {state} -> {o['outcome']}, expected an exception",
                          detail))
                state = _resync(o, nxt)
                continue
            if isinstance(exp, tuple) and exp[1] and o["outcome"] != "exc:" + exp[1]:
                V.append((f"commit_after_abortable_error_raises_other_error",
                          f"program {prog}: call #{i} {o['op']} after the abortable error -> {o['outcome']}, expected {exp[1]}", detail))
            # no effect on the cluster: no transactional-class request between the call and the end of its settle period
            if state != "FATAL" and o.get("req_after_settle") is not None:
                if o["req_after_settle"] != o["req_at_call"]:
                    new = [r for r in H["requests"] if o["n_at_call"] <= r["n"] < o.get("n_after_settle", 10 ** 9) and r["api"] in T.TXN_APIS]
                    V.append((f"illegal_call_has_effect_on_the_wire:{nm}:in_{state}",
                              f"program {prog}: call #{i} {o['op']} raised {o['outcome']} but {len(new)} transactional request(s) "
                              f"reached the cluster afterwards: {[r['api'] for r in new][:5]}", dict(detail, requests=new[:8])))
                else:
                    st["illegal_calls_wire_silent"] += 1
        state = nxt
    # ---- after a fatal error: nothing more is written, pending sends fail
    if t_fatal is not None:
        st["fatal_silence_checked"] = 1
        grace = 4 * P["retry_backoff_ms"] / 1000.0 + P["request_timeout_ms"] / 1000.0
        late = [r for r in H["requests"] if r["api"] in T.TXN_APIS and r["t"] > t_fatal + grace]
        if late:
            V.append(("request_sent_after_fatal_error",
                      f"program {prog}: fatal error served at t={t_fatal}, but {len(late)} transactional request(s) reached the "
                      f"cluster more than {grace:.1f}s later: {[(r['api'], r['t']) for r in late][:4]}",
                      {"program": prog, "fault": fault, "late": late[:8]}))
        pend = H.get("pending_sends_at_end") or []
        st["pending_futures_failed_after_fatal"] = sum(1 for s in H["sends"].values() if s["outcome"].startswith("exc:"))
        if pend:
            V.append(("send_future_pending_after_fatal_error", f"program {prog}: send futures {pend[:4]} are still pending after the "
                      "fatal error", {"program": prog, "fault": fault}))
    if recovered_from_abortable:
        st["abortable_recoveries"] = 1
    return V, st


def legal_here(nm, state):
    if nm in ("offsets", "commit"):
        return state == "IN"
    return state == "READY"


def _resync(o, fallback):
    s = (o.get("state_after") or {}).get(o["who"])
    return {"READY": "READY", "IN_TRANSACTION": "IN", "ABORTABLE_ERROR": "ABORTABLE", "FATAL_ERROR": "FATAL",
            "COMMITTING_TRANSACTION": "IN", "ABORTING_TRANSACTION": "IN"}.get(s, fallback)
