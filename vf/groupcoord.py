"""Simulated Kafka group coordinator (DESIGN Appendix A.2)."""
from __future__ import annotations

from vf import cluster as C

EMPTY, PREPARING, COMPLETING, STABLE, DEAD = "Empty", "PreparingRebalance", "CompletingRebalance", "Stable", "Dead"


class Member:
    def __init__(self, mid, client_id, req):
        self.id = mid
        self.client_id = client_id
        self.session_timeout = req["session_timeout_ms"] / 1000.0
        rb = req.get("rebalance_timeout_ms", -1)
        self.rebalance_timeout = (rb if rb is not None and rb > 0 else req["session_timeout_ms"]) / 1000.0
        self.protocols = [(p["name"], p["metadata"]) for p in req["protocols"]]
        self.instance_id = req.get("group_instance_id")
        self.join_ctx = None
        self.sync_ctx = None
        self.assignment = b""
        self.timer = None
        self.last_seen = 0.0

    def meta(self, proto):
        for n, m in self.protocols:
            if n == proto:
                return m
        return b""


class Group:
    def __init__(self, gid):
        self.id = gid
        self.state = EMPTY
        self.generation = 0
        self.protocol_type = None
        self.protocol = None
        self.leader = None
        self.members = {}
        self.pending = {}       # member id -> expiry timer (MEMBER_ID_REQUIRED handed out)
        self.offsets = {}       # (topic, p) -> (offset, metadata)
        self.pending_txn = {}   # pid -> {(topic,p): (offset, metadata)}
        self.rebalance_timer = None
        self.ledger = []        # one dict per generation
        self.counter = 0


class GroupCoordinator:
    def __init__(self, cluster):
        self.c = cluster
        self.groups = cluster.groups
        self.loading_until = {}   # group -> time

    # ------------------------------------------------------------------ helpers
    def group(self, gid, create=True):
        g = self.groups.get(gid)
        if g is None and create:
            g = self.groups[gid] = Group(gid)
        return g

    def _precheck(self, ctx, gid):
        if gid in self.c.unauthorized_groups:
            return C.GROUP_AUTHORIZATION_FAILED
        if self.c.coordinator_for(gid, 0) != ctx["node"]:
            return C.NOT_COORDINATOR
        if self.loading_until.get(gid, 0) > self.c.now():
            return C.COORDINATOR_LOAD_IN_PROGRESS
        return 0

    def _glog(self, ctx, what, **kw):
        return self.c.log("group", op=what, node=ctx["node"], client_id=ctx["client_id"], version=ctx["version"],
                          req_n=ctx["ev"]["n"], **kw)

    def _reset_session(self, g, m):
        if m.timer is not None:
            m.timer.cancel()
        m.last_seen = self.c.now()
        m.timer = self.c.net.call_later(m.session_timeout, self._expire, g, m.id, m)

    def _stop_session(self, m):
        if m.timer is not None:
            m.timer.cancel()
            m.timer = None

    def _expire(self, g, mid, m):
        if g.members.get(mid) is not m:
            return
        if m.join_ctx is not None:   # awaiting join keeps the member alive
            self._reset_session(g, m)
            return
        self.c.log("group_event", what="session_expired", group=g.id, member=mid, generation=g.generation)
        self._remove_member(g, mid, "expired")

    def _remove_member(self, g, mid, why):
        m = g.members.pop(mid, None)
        if m is None:
            return
        self._stop_session(m)
        if m.join_ctx is not None:
            ctx, m.join_ctx = m.join_ctx, None
            self.c.reply(ctx, self.c.error_response(ctx, C.UNKNOWN_MEMBER_ID))
        if m.sync_ctx is not None:
            ctx, m.sync_ctx = m.sync_ctx, None
            self.c.reply(ctx, {"error_code": C.UNKNOWN_MEMBER_ID, "assignment": b""})
        if g.leader == mid:
            g.leader = next(iter(g.members), None)
        if not g.members and not g.pending:
            if g.state == PREPARING:
                self._cancel_rebalance_timer(g)
            g.state = EMPTY
            g.generation += 1 if why != "moved" else 0
            g.protocol = None
            g.protocol_type = None
            self.c.log("group_event", what="empty", group=g.id, generation=g.generation)
            return
        if g.state in (STABLE, COMPLETING):
            self._prepare_rebalance(g, f"member {why}")
        elif g.state == PREPARING:
            self._maybe_complete_join(g)

    def _cancel_rebalance_timer(self, g):
        if g.rebalance_timer is not None:
            g.rebalance_timer.cancel()
            g.rebalance_timer = None

    def _prepare_rebalance(self, g, reason):
        if g.state == PREPARING:
            return
        was_empty = g.state == EMPTY
        if g.state == COMPLETING:
            for m in g.members.values():
                if m.sync_ctx is not None:
                    ctx, m.sync_ctx = m.sync_ctx, None
                    self.c.reply(ctx, {"error_code": C.REBALANCE_IN_PROGRESS, "assignment": b""})
        g.state = PREPARING
        self.c.log("group_event", what="prepare_rebalance", group=g.id, reason=reason, generation=g.generation)
        self._cancel_rebalance_timer(g)
        g.initial_wait = False
        if was_empty and self.c.initial_rebalance_delay > 0:
            delay = self.c.initial_rebalance_delay
            g.initial_wait = True
            g.rebalance_timer = self.c.net.call_later(delay, self._rebalance_timeout, g, True)
        else:
            delay = max([m.rebalance_timeout for m in g.members.values()] or [1.0])
            g.rebalance_timer = self.c.net.call_later(delay, self._rebalance_timeout, g, False)

    def _rebalance_timeout(self, g, initial):
        g.rebalance_timer = None
        if g.state != PREPARING:
            return
        self._complete_join(g)

    def _maybe_complete_join(self, g):
        if g.state != PREPARING:
            return
        if getattr(g, "initial_wait", False):
            return   # initial delayed join: wait for the timer
        if g.members and all(m.join_ctx is not None for m in g.members.values()) and not g.pending:
            self._complete_join(g)

    def _complete_join(self, g):
        g.initial_wait = False
        self._cancel_rebalance_timer(g)
        for mid in [mid for mid, m in g.members.items() if m.join_ctx is None]:
            m = g.members.pop(mid)
            self._stop_session(m)
            self.c.log("group_event", what="removed_not_rejoined", group=g.id, member=mid)
            if g.leader == mid:
                g.leader = None
        if not g.members:
            g.state = EMPTY
            g.generation += 1
            g.protocol = None
            self.c.log("group_event", what="empty", group=g.id, generation=g.generation)
            return
        g.generation += 1
        # protocol selection: every member votes for its first protocol among those all support
        common = None
        for m in g.members.values():
            names = [n for n, _ in m.protocols]
            common = set(names) if common is None else common & set(names)
        votes = {}
        for m in g.members.values():
            for n, _ in m.protocols:
                if n in common:
                    votes[n] = votes.get(n, 0) + 1
                    break
        g.protocol = max(sorted(votes), key=lambda n: votes[n])
        if g.leader not in g.members:
            g.leader = next(iter(g.members))
        g.state = COMPLETING
        entry = {"generation": g.generation, "protocol": g.protocol, "leader": g.leader, "t": self.c.now(),
                 "members": {mid: m.meta(g.protocol) for mid, m in g.members.items()},
                 "protocols": {mid: [n for n, _ in m.protocols] for mid, m in g.members.items()},
                 "assignments": {}, "synced_at": None, "group": g.id}
        g.ledger.append(entry)
        self.c.log("group_event", what="generation", group=g.id, generation=g.generation, protocol=g.protocol,
                   leader=g.leader, members=sorted(g.members))
        for mid, m in g.members.items():
            ctx, m.join_ctx = m.join_ctx, None
            m.assignment = b""
            self._reset_session(g, m)
            self._reply_join(g, m, ctx)

    def _reply_join(self, g, m, ctx):
        members = []
        if m.id == g.leader:
            members = [{"member_id": mid, "group_instance_id": x.instance_id, "metadata": x.meta(g.protocol)}
                       for mid, x in g.members.items()]
        resp = {"error_code": 0, "generation_id": g.generation, "protocol_name": g.protocol, "leader": g.leader,
                "member_id": m.id, "members": members}
        self._glog(ctx, "JoinGroup.reply", group=g.id, member=m.id, error=0, generation=g.generation,
                   leader=g.leader, protocol=g.protocol)
        self.c.reply(ctx, resp)

    # ------------------------------------------------------------------ JoinGroup
    def join(self, ctx):
        req = ctx["req"]
        gid, mid = req["group_id"], req["member_id"]
        self._glog(ctx, "JoinGroup", group=gid, member=mid, protocols=[p["name"] for p in req["protocols"]],
                   metadata=[p["metadata"] for p in req["protocols"]],
                   session_timeout_ms=req["session_timeout_ms"], rebalance_timeout_ms=req.get("rebalance_timeout_ms"),
                   protocol_type=req["protocol_type"], link=ctx["link"].id)

        def err(code, member_id=None):
            self._glog(ctx, "JoinGroup.reply", group=gid, member=mid if member_id is None else member_id, error=code,
                       generation=-1)
            r = self.c.error_response(ctx, code)
            if member_id is not None:
                r["member_id"] = member_id
            return r

        code = self._precheck(ctx, gid)
        if code:
            return err(code)
        g = self.group(gid)
        if mid == "":
            g.counter += 1
            new_id = f"{ctx['client_id']}-{gid}-{g.counter:04d}"
            if ctx["version"] >= 4 and req.get("group_instance_id") is None:
                g.pending[new_id] = self.c.net.call_later(req["session_timeout_ms"] / 1000.0, self._expire_pending, g, new_id)
                return err(C.MEMBER_ID_REQUIRED, new_id)
            mid = new_id
            known = False
        elif mid in g.pending:
            g.pending.pop(mid).cancel()
            known = False
        elif mid in g.members:
            known = True
        else:
            return err(C.UNKNOWN_MEMBER_ID)
        names = [p["name"] for p in req["protocols"]]
        if g.members or g.protocol_type is not None:
            others = [x for x in g.members.values() if x.id != mid]
            if others:
                if g.protocol_type != req["protocol_type"]:
                    return err(C.INCONSISTENT_GROUP_PROTOCOL)
                common = set(names)
                for x in others:
                    common &= {n for n, _ in x.protocols}
                if not common:
                    return err(C.INCONSISTENT_GROUP_PROTOCOL)
        if not names:
            return err(C.INCONSISTENT_GROUP_PROTOCOL)
        g.protocol_type = req["protocol_type"]
        if not known:
            m = Member(mid, ctx["client_id"], req)
            g.members[mid] = m
            m.join_ctx = ctx
            if g.leader is None:
                g.leader = mid
            self._reset_session(g, m)
            if g.state != PREPARING:
                self._prepare_rebalance(g, "new member")
            self._maybe_complete_join(g)
            return C.PARKED
        m = g.members[mid]
        new_protocols = [(p["name"], p["metadata"]) for p in req["protocols"]]
        changed = new_protocols != m.protocols
        if m.join_ctx is not None:   # duplicate join: answer the older one like a real broker would overwrite
            old, m.join_ctx = m.join_ctx, None
            self.c.reply(old, self.c.error_response(old, C.REBALANCE_IN_PROGRESS))
        if g.state == PREPARING:
            m.protocols = new_protocols
            m.session_timeout = req["session_timeout_ms"] / 1000.0
            m.join_ctx = ctx
            self._maybe_complete_join(g)
            return C.PARKED
        if g.state == COMPLETING:
            if not changed:
                self._reset_session(g, m)
                self._reply_join(g, m, ctx)
                return C.PARKED
            m.protocols = new_protocols
            m.join_ctx = ctx
            self._prepare_rebalance(g, "metadata changed during sync")
            self._maybe_complete_join(g)
            return C.PARKED
        # Stable (or Empty with known member cannot happen)
        if mid == g.leader or changed:
            m.protocols = new_protocols
            m.join_ctx = ctx
            self._prepare_rebalance(g, "leader rejoined" if mid == g.leader and not changed else "metadata changed")
            self._maybe_complete_join(g)
            return C.PARKED
        self._reset_session(g, m)
        self._reply_join(g, m, ctx)
        return C.PARKED

    def _expire_pending(self, g, mid):
        g.pending.pop(mid, None)
        if g.state == PREPARING:
            self._maybe_complete_join(g)

    # ------------------------------------------------------------------ SyncGroup
    def sync(self, ctx):
        req = ctx["req"]
        gid, mid, gen = req["group_id"], req["member_id"], req["generation_id"]
        self._glog(ctx, "SyncGroup", group=gid, member=mid, generation=gen,
                   assignments={a["member_id"]: a["assignment"] for a in req["assignments"]})

        def out(code, assignment=b""):
            self._glog(ctx, "SyncGroup.reply", group=gid, member=mid, error=code, generation=gen, assignment=assignment)
            return {"error_code": code, "assignment": assignment}

        code = self._precheck(ctx, gid)
        if code:
            return out(code)
        g = self.group(gid, create=False)
        if g is None or mid not in g.members:
            return out(C.UNKNOWN_MEMBER_ID)
        m = g.members[mid]
        if gen != g.generation:
            return out(C.ILLEGAL_GENERATION)
        if g.state == PREPARING:
            return out(C.REBALANCE_IN_PROGRESS)
        if g.state == EMPTY:
            return out(C.UNKNOWN_MEMBER_ID)
        self._reset_session(g, m)
        if g.state == STABLE:
            return out(0, m.assignment)
        # CompletingRebalance
        m.sync_ctx = ctx
        if mid == g.leader:
            given = {a["member_id"]: a["assignment"] for a in req["assignments"]}
            entry = g.ledger[-1]
            for xid, x in g.members.items():
                x.assignment = given.get(xid, b"")
                entry["assignments"][xid] = x.assignment
            entry["synced_at"] = self.c.now()
            entry["extra_assignees"] = sorted(set(given) - set(g.members))
            g.state = STABLE
            self.c.log("group_event", what="stable", group=gid, generation=g.generation)
            for x in g.members.values():
                if x.sync_ctx is not None:
                    c2, x.sync_ctx = x.sync_ctx, None
                    self._glog(c2, "SyncGroup.reply", group=gid, member=x.id, error=0, generation=gen,
                               assignment=x.assignment)
                    self._reset_session(g, x)
                    self.c.reply(c2, {"error_code": 0, "assignment": x.assignment})
        return C.PARKED

    # ------------------------------------------------------------------ Heartbeat / Leave
    def heartbeat(self, ctx):
        req = ctx["req"]
        gid, mid, gen = req["group_id"], req["member_id"], req["generation_id"]

        def out(code):
            self._glog(ctx, "Heartbeat", group=gid, member=mid, generation=gen, error=code)
            return {"error_code": code}

        code = self._precheck(ctx, gid)
        if code:
            return out(code)
        g = self.group(gid, create=False)
        if g is None or mid not in g.members:
            return out(C.UNKNOWN_MEMBER_ID)
        if gen != g.generation:
            return out(C.ILLEGAL_GENERATION)
        m = g.members[mid]
        if g.state == EMPTY:
            return out(C.UNKNOWN_MEMBER_ID)
        self._reset_session(g, m)
        if g.state == PREPARING:
            return out(C.REBALANCE_IN_PROGRESS)
        if g.state == COMPLETING:
            return out(0 if self.c.heartbeat_during_sync_ok else C.REBALANCE_IN_PROGRESS)
        return out(0)

    def leave(self, ctx):
        req = ctx["req"]
        gid, mid = req["group_id"], req["member_id"]

        def out(code):
            self._glog(ctx, "LeaveGroup", group=gid, member=mid, error=code)
            return {"error_code": code}

        code = self._precheck(ctx, gid)
        if code:
            return out(code)
        g = self.group(gid, create=False)
        if g is not None and mid in g.pending:
            g.pending.pop(mid).cancel()
            return out(0)
        if g is None or mid not in g.members:
            return out(C.UNKNOWN_MEMBER_ID)
        self.c.log("group_event", what="left", group=gid, member=mid, generation=g.generation)
        self._remove_member(g, mid, "left")
        return out(0)

    # ------------------------------------------------------------------ offsets
    def offset_commit(self, ctx):
        req = ctx["req"]
        gid = req["group_id"]
        gen = req.get("generation_id_or_member_epoch", -1)
        mid = req.get("member_id", "")
        code = self._precheck(ctx, gid)
        g = self.group(gid)
        if not code:
            if gen < 0 and mid == "":
                if g.state != EMPTY and g.members:
                    code = C.UNKNOWN_MEMBER_ID
            elif mid not in g.members:
                code = C.UNKNOWN_MEMBER_ID
            elif gen != g.generation:
                code = C.ILLEGAL_GENERATION
            elif g.state == COMPLETING:
                code = C.REBALANCE_IN_PROGRESS
            elif g.state == EMPTY:
                code = C.UNKNOWN_MEMBER_ID
        offs = {}
        topics = []
        for t in req["topics"]:
            parts = []
            for p in t["partitions"]:
                pc = code
                if not pc and t["name"] in self.c.unauthorized_topics:
                    pc = C.TOPIC_AUTHORIZATION_FAILED
                offs[(t["name"], p["partition_index"])] = (p["committed_offset"], p.get("committed_metadata"), pc)
                parts.append({"partition_index": p["partition_index"], "error_code": pc})
            topics.append({"name": t["name"], "partitions": parts})
        for tp, (off, meta, pc) in offs.items():
            if not pc:
                g.offsets[tp] = (off, meta)
        if not code and mid in g.members:
            self._reset_session(g, g.members[mid])
        self._glog(ctx, "OffsetCommit", group=gid, member=mid, generation=gen, error=code, state=g.state,
                   offsets={f"{t}:{p}": (o, pc) for (t, p), (o, m_, pc) in offs.items()})
        return {"topics": topics}

    def offset_fetch(self, ctx):
        req = ctx["req"]
        gid = req["group_id"]
        code = self._precheck(ctx, gid)
        g = self.group(gid)
        out = []
        if code:
            self._glog(ctx, "OffsetFetch", group=gid, error=code, offsets={})
            return self.c.error_response(ctx, code)
        wanted = req.get("topics")
        if wanted is None:
            by_t = {}
            for (t, p) in sorted(g.offsets):
                by_t.setdefault(t, []).append(p)
            wanted = [{"name": t, "partition_indexes": ps} for t, ps in by_t.items()]
        rep = {}
        for t in wanted:
            parts = []
            for p in t["partition_indexes"]:
                off, meta = g.offsets.get((t["name"], p), (-1, ""))
                rep[f"{t['name']}:{p}"] = off
                parts.append({"partition_index": p, "committed_offset": off, "metadata": meta if meta is not None else "",
                              "error_code": 0})
            out.append({"name": t["name"], "partitions": parts})
        self._glog(ctx, "OffsetFetch", group=gid, error=0, offsets=rep)
        return {"topics": out, "error_code": 0}

    def txn_offset_commit(self, ctx):
        req = ctx["req"]
        gid, pid, epoch = req["group_id"], req["producer_id"], req["producer_epoch"]
        code = self._precheck(ctx, gid)
        if not code:
            code = self.c.tc.check_producer(req["transactional_id"], pid, epoch)
        g = self.group(gid)
        topics = []
        offs = {}
        for t in req["topics"]:
            parts = []
            for p in t["partitions"]:
                if not code:
                    g.pending_txn.setdefault(pid, {})[(t["name"], p["partition_index"])] = (
                        p["committed_offset"], p.get("committed_metadata"))
                offs[f"{t['name']}:{p['partition_index']}"] = p["committed_offset"]
                parts.append({"partition_index": p["partition_index"], "error_code": code})
            topics.append({"name": t["name"], "partitions": parts})
        self.c.log("txn", op="TxnOffsetCommit", txn_id=req["transactional_id"], pid=pid, epoch=epoch, group=gid,
                   error=code, offsets=offs, node=ctx["node"], req_n=ctx["ev"]["n"])
        return {"topics": topics}

    def complete_txn_offsets(self, pid, group_ids, commit):
        for gid in group_ids:
            g = self.group(gid)
            pend = g.pending_txn.pop(pid, {})
            if commit:
                for tp, v in pend.items():
                    g.offsets[tp] = v
            self.c.log("txn_offsets_materialized" if commit else "txn_offsets_dropped", group=gid, pid=pid,
                       offsets={f"{t}:{p}": o for (t, p), (o, _) in pend.items()})

    # ------------------------------------------------------------------ failover / links
    def on_moved(self, gid, with_state):
        g = self.groups.get(gid)
        if g is None:
            return
        # parked requests on the old node learn that it is no longer the coordinator
        for m in list(g.members.values()):
            for attr in ("join_ctx", "sync_ctx"):
                ctx = getattr(m, attr)
                if ctx is not None:
                    setattr(m, attr, None)
                    self.c.reply(ctx, self.c.error_response(ctx, C.NOT_COORDINATOR))
        if not with_state:
            for m in g.members.values():
                self._stop_session(m)
            for t in g.pending.values():
                t.cancel()
            g.members.clear()
            g.pending.clear()
            self._cancel_rebalance_timer(g)
            g.state = EMPTY
            g.leader = None
            g.protocol = None
            g.protocol_type = None
            self.c.log("group_event", what="state_lost", group=gid, generation=g.generation)
        elif g.state == PREPARING:
            # members whose parked join was answered NOT_COORDINATOR must rejoin at the new node
            pass

    def on_link_closed(self, link):
        for g in self.groups.values():
            for m in g.members.values():
                for attr in ("join_ctx", "sync_ctx"):
                    ctx = getattr(m, attr)
                    if ctx is not None and ctx["link"] is link and attr == "sync_ctx":
                        setattr(m, attr, None)
