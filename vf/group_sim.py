"""Consumer-group histories on the simulated cluster (C04, C05, C06; stop()/kill points for C19).

run_history(P) runs 1..4 real AIOKafkaConsumer group members (each possibly in several incarnations)
against SimCluster's group coordinator under a script of joins, stops, kills, subscription changes,
topic / partition creation, coordinator moves and per-request fault fates, with records appended to
the partition logs while the members consume.  Everything the monitors need is returned JSON-able:

  events    harness-side, time ordered: start/stop/kill/subscribe calls, listener callback start/end
            (with the assignment() snapshot taken inside on_partitions_assigned), every delivered
            record (member incarnation, tp, offset, uid), commit() calls, exceptions
  group     coordinator-side log of every group request and reply (decoded independently)
  ledger    per generation: members, advertised topics, chosen protocol, assignment sent to each
  requests  every request that got a non-ok fate, coordinator moves, metadata changes
  truth     tp -> visible offsets / uids
  final     positions, committed offsets, group state at the convergence point and at the end

Incarnation ids look like "m0i0" and are used as client_id, so the coordinator's member ids
("<client_id>-<group>-<n>") identify the incarnation.
"""
from __future__ import annotations

import asyncio
import random

from vf import cluster as C
from vf import refrecords as rr
from vf import wire
from vf.simharness import FaultPlan, make_cluster, run_sim, idle_ms
from vf.simloop import OWNER, kill_owner

GROUP = "g"
ASSIGNOR_NAMES = ["range", "roundrobin", "sticky"]
GROUP_APIS = ["JoinGroup", "SyncGroup", "Heartbeat", "OffsetCommit", "OffsetFetch", "FindCoordinator", "LeaveGroup"]
RETRIABLE_GROUP_ERRORS = {
    "JoinGroup": [C.COORDINATOR_LOAD_IN_PROGRESS, C.COORDINATOR_NOT_AVAILABLE, C.NOT_COORDINATOR, C.UNKNOWN_MEMBER_ID],
    "SyncGroup": [C.COORDINATOR_NOT_AVAILABLE, C.NOT_COORDINATOR, C.REBALANCE_IN_PROGRESS, C.UNKNOWN_MEMBER_ID,
                  C.ILLEGAL_GENERATION],
    "Heartbeat": [C.COORDINATOR_NOT_AVAILABLE, C.NOT_COORDINATOR, C.REBALANCE_IN_PROGRESS, C.UNKNOWN_MEMBER_ID,
                  C.ILLEGAL_GENERATION],
    "OffsetCommit": [C.COORDINATOR_LOAD_IN_PROGRESS, C.COORDINATOR_NOT_AVAILABLE, C.NOT_COORDINATOR,
                     C.REQUEST_TIMED_OUT, C.REBALANCE_IN_PROGRESS, C.UNKNOWN_MEMBER_ID, C.ILLEGAL_GENERATION],
    "OffsetFetch": [C.COORDINATOR_LOAD_IN_PROGRESS, C.NOT_COORDINATOR],
    "FindCoordinator": [C.COORDINATOR_NOT_AVAILABLE],
}


# --------------------------------------------------------------------------------------------------
# parameters
# --------------------------------------------------------------------------------------------------

def gen_params(rng: random.Random, idx, tier="quick", profile="mixed", force=None):
    """profile: 'rebalance' (C05: membership churn, light faults), 'commit' (C04: kills/stops, commit faults),
    'faults' (C06: heavy group-API faults, several assignors), 'mixed'."""
    n_members = rng.choice([1, 2, 2, 3, 3, 4])
    n_topics = rng.choice([1, 1, 2, 3])
    topics = {f"t{chr(97 + i)}": rng.choice([2, 3, 4]) for i in range(n_topics)}
    n_assignors = rng.choice([1, 1, 2, 3]) if profile in ("faults", "mixed") else rng.choice([1, 1, 1, 2])
    assignors = rng.sample(ASSIGNOR_NAMES, n_assignors)
    session = rng.choice([3000, 4000, 6000])
    P = {
        "idx": idx, "seed": rng.randrange(2 ** 31), "profile": profile,
        "topics": topics, "assignors": assignors,
        "session_timeout_ms": session,
        "heartbeat_interval_ms": rng.choice([300, 500, 1000]),
        "rebalance_timeout_ms": 0,      # filled below
        "request_timeout_ms": 0,
        "retry_backoff_ms": rng.choice([50, 100]),
        "metadata_max_age_ms": rng.choice([1000, 2000, 3000]),
        "auto_commit": rng.random() < (0.8 if profile == "commit" else 0.6),
        "auto_commit_interval_ms": rng.choice([100, 200, 500, 1000, 2000]),
        "manual_commit_p": rng.choice([0.0, 0.2, 0.5]),
        "join_max_version": rng.choice([0, 1, 2, 3, 4, 5, 5, 5]),
        "heartbeat_during_sync_ok": rng.random() < 0.5,
        "initial_rebalance_delay": rng.choice([0.0, 0.0, 0.3]),
        "fetch_max_wait_ms": rng.choice([50, 200, 500]),
        "max_partition_fetch_bytes": rng.choice([300, 1000, 100000]),
        "getmany_timeout_ms": rng.choice([0, 50, 200]),
        "max_records": rng.choice([None, None, 1, 3]),
        "use_getone": rng.random() < 0.25,
        "proc_delay": rng.choice([0.0, 0.001, 0.02, 0.1]),
        "listener_delay": rng.choice([0.0, 0.01, 0.2, 0.8]),
        "produce_interval": rng.choice([0.02, 0.05, 0.2]),
        "produce_until": 0.0,      # filled below
        "compaction_gaps": rng.random() < 0.3,
        "initial_committed": rng.random() < 0.25,
        # transactional traffic in the logs (committed and aborted transactions of a few producer ids, markers);
        # read_committed members must skip aborted data and control batches without losing what follows
        "isolation": "read_uncommitted",
        "txn_traffic": False,
        "preloaded": rng.choice([0, 5, 20]),
        "quiet_after": 0.0,        # filled below
        "n_brokers": 3,
    }
    r = rng.random()
    if r < 0.3:
        P["isolation"], P["txn_traffic"] = "read_committed", True
    elif r < 0.45:
        P["txn_traffic"] = True
    # A JoinGroup stays parked at the coordinator for up to the rebalance timeout, and the library sends it with the
    # plain request timeout: as with the defaults (40 s vs 10 s) the request timeout must exceed the rebalance
    # timeout, otherwise every slow rebalance is abandoned by the client just before it completes.
    P["rebalance_timeout_ms"] = rng.choice([2000, 3000, 4000])
    P["request_timeout_ms"] = P["rebalance_timeout_ms"] + rng.choice([1500, 3000])
    # ---- subscriptions
    tnames = sorted(topics)
    members = {}
    pattern_mode = rng.random() < 0.15
    for i in range(n_members):
        if pattern_mode:
            members[f"m{i}"] = {"pattern": "^t.*"}
        elif len(tnames) > 1 and rng.random() < 0.35:
            members[f"m{i}"] = {"topics": sorted(rng.sample(tnames, rng.randint(1, len(tnames))))}
        else:
            members[f"m{i}"] = {"topics": list(tnames)}
    P["members"] = members
    # ---- script
    horizon = rng.choice([8.0, 12.0, 16.0]) if tier == "quick" else rng.choice([10.0, 16.0, 24.0])
    script = []
    t = 0.0
    for m in members:
        script.append({"t": round(t, 3), "op": "start", "m": m})
        t += rng.choice([0.0, 0.0, 0.05, 0.5, 2.0])
    churn = {"rebalance": 5, "commit": 4, "faults": 2, "mixed": 3}[profile]
    alive = set(members)
    for _ in range(rng.randint(0, churn)):
        at = round(rng.uniform(0.5, horizon), 3)
        r = rng.random()
        m = rng.choice(sorted(members))
        if r < 0.25:
            script.append({"t": at, "op": "kill", "m": m})
            if rng.random() < 0.7:
                script.append({"t": round(at + rng.uniform(0.05, 3.0), 3), "op": "start", "m": m})
        elif r < 0.5:
            script.append({"t": at, "op": "stop", "m": m})
            if rng.random() < 0.7:
                script.append({"t": round(at + rng.uniform(0.05, 3.0), 3), "op": "start", "m": m})
        elif r < 0.62 and not pattern_mode and len(tnames) > 1:
            script.append({"t": at, "op": "subscribe", "m": m,
                           "topics": sorted(rng.sample(tnames, rng.randint(1, len(tnames))))})
        elif r < 0.72:
            script.append({"t": at, "op": "add_partitions", "topic": rng.choice(tnames), "n": rng.choice([1, 2])})
        elif r < 0.8 and pattern_mode:
            script.append({"t": at, "op": "create_topic", "topic": f"tz{len(script)}", "n": rng.choice([1, 2])})
        elif r < 0.9:
            script.append({"t": at, "op": "move_coordinator", "with_state": rng.random() < 0.6})
        else:
            script.append({"t": at, "op": "broker_bounce", "down_for": rng.choice([0.3, 1.5, 4.0])})
    script.sort(key=lambda a: a["t"])
    P["script"] = script
    P["quiet_after"] = horizon + 0.5
    P["produce_until"] = horizon * rng.choice([0.6, 0.9])
    # ---- faults
    base = {"rebalance": 0.03, "commit": 0.1, "faults": 0.2, "mixed": 0.08}[profile]
    fp = rng.choice([0.0, base, base, 2 * base])
    P["fault_p"] = {a: fp for a in GROUP_APIS}
    if profile == "commit":
        P["fault_p"]["OffsetCommit"] = rng.choice([0.0, 0.2, 0.4])
    # non-retriable coordinator replies (authorization, inconsistent protocol, invalid session timeout): the error is
    # raised to the application's poll call; once consumed, coordination has to resume
    P["fatal_codes"] = profile in ("faults", "mixed") and rng.random() < 0.3
    P["fault_p"]["Fetch"] = rng.choice([0.0, 0.0, 0.05])
    P["fault_p"]["Metadata"] = rng.choice([0.0, 0.0, 0.05])
    # staggered position lookups: a partition leader (not the coordinator) is down while the first members start and
    # OffsetFetch replies are slow, so the per-leader committed-offset lookups of one member begin at different times
    P["stagger"] = None
    if P["initial_committed"] or rng.random() < 0.2:
        P["stagger"] = {"leader_down_for": rng.choice([0.2, 0.6, 1.5]), "offset_fetch_delay_p": rng.choice([0.4, 0.8])}
        P["initial_committed"] = True
    # an application that stops polling for longer than max_poll_interval_ms: the member leaves the group by itself
    # (LeaveGroup from its heartbeat task) and has to come back when polling resumes
    P["max_poll_interval_ms"] = 300000
    if profile in ("rebalance", "mixed") and rng.random() < (0.3 if profile == "rebalance" else 0.15):
        P["max_poll_interval_ms"] = rng.choice([1000, 1500, 2500])
        for _ in range(rng.choice([1, 1, 2])):
            d = P["max_poll_interval_ms"] / 1000.0 + rng.choice([0.3, 1.0, 2.0, 4.0])
            at = round(rng.uniform(0.5, max(0.6, horizon - d)), 3)
            script.append({"t": at, "op": "idle", "m": rng.choice(sorted(members)), "for": round(d, 3)})
        script.sort(key=lambda a: a["t"])
    # one on_partitions_revoked callback (with partitions to give up) that takes LONGER than the rebalance timeout: the
    # group completes the generation without this member, which may only join after its callback has returned
    P["long_revoke"] = None
    if profile in ("rebalance", "mixed") and rng.random() < 0.15:
        P["long_revoke"] = {"m": rng.choice(sorted(members)), "after_t": round(rng.uniform(0.5, horizon * 0.6), 3),
                            "extra": rng.choice([0.5, 1.5])}
    P["kill_at_event"] = None      # {"m": .., "k": ..}: kill member m at loop event k (crash-point enumeration)
    P["stop_at_event"] = None
    if force:
        P.update(force)
    return P


def group_bound(P):
    """B_group (DESIGN Appendix B), virtual seconds."""
    return 4 * (P["request_timeout_ms"] + P["session_timeout_ms"] + P["rebalance_timeout_ms"]) / 1000.0 \
        + 40 * P["retry_backoff_ms"] / 1000.0


# --------------------------------------------------------------------------------------------------
# independent decoding of the embedded consumer protocol
# --------------------------------------------------------------------------------------------------

def decode_subscription(b):
    if not b:
        return None
    try:
        v = wire.decode_struct(wire.AUX["consumer_protocol_subscription_v0"], b)[0]
        return {"topics": list(v["topics"]), "user_data_len": len(v["user_data"] or b"")}
    except Exception as e:  # noqa: BLE001
        return {"error": repr(e)}


def decode_assignment(b):
    if not b:
        return []
    try:
        v = wire.decode_struct(wire.AUX["consumer_protocol_assignment_v0"], b)[0]
        return sorted((t["topic"], p) for t in v["assigned_partitions"] for p in t["partitions"])
    except Exception as e:  # noqa: BLE001
        return {"error": repr(e)}


# --------------------------------------------------------------------------------------------------
# the history
# --------------------------------------------------------------------------------------------------

def run_history(P):
    from aiokafka import AIOKafkaConsumer
    from aiokafka.abc import ConsumerRebalanceListener
    from aiokafka.coordinator.assignors.range import RangePartitionAssignor
    from aiokafka.coordinator.assignors.roundrobin import RoundRobinPartitionAssignor
    from aiokafka.coordinator.assignors.sticky import sticky_assignor as _sa
    from aiokafka.errors import ConsumerStoppedError, KafkaError
    from vf import stickyguard
    stickyguard.install(_sa)
    sticky_before = stickyguard.STATS["nonterminating"]

    rng = random.Random(P["seed"])
    net, cl = make_cluster(P["seed"], n_brokers=P["n_brokers"], versions={11: (0, P["join_max_version"])})
    cl.heartbeat_during_sync_ok = P["heartbeat_during_sync_ok"]
    cl.initial_rebalance_delay = P["initial_rebalance_delay"]
    for t, n in P["topics"].items():
        cl.create_topic(t, n)
    plan = FaultPlan(
        random.Random(P["seed"] ^ 0x6A0B), p=dict(P["fault_p"]),
        kinds={**{a: ["drop_before", "reset_after", "lose_reply", "delay"] + [("error", c) for c in RETRIABLE_GROUP_ERRORS.get(a, [])]
                  for a in GROUP_APIS},
               "Fetch": ["drop_before", "lose_reply", "delay", ("error", C.NOT_LEADER_FOR_PARTITION)],
               "Metadata": ["drop_before", "delay"]})
    if P.get("stagger"):
        plan.p["OffsetFetch"] = max(plan.p.get("OffsetFetch", 0.0), P["stagger"]["offset_fetch_delay_p"])
        plan.kinds["OffsetFetch"] = ["delay", "delay", "delay"] + plan.kinds["OffsetFetch"]
    if P.get("fatal_codes"):
        extra = {"JoinGroup": [C.GROUP_AUTHORIZATION_FAILED, C.INCONSISTENT_GROUP_PROTOCOL, C.INVALID_SESSION_TIMEOUT],
                 "SyncGroup": [C.GROUP_AUTHORIZATION_FAILED], "Heartbeat": [C.GROUP_AUTHORIZATION_FAILED],
                 "OffsetCommit": [C.GROUP_AUTHORIZATION_FAILED, C.TOPIC_AUTHORIZATION_FAILED],
                 "OffsetFetch": [C.GROUP_AUTHORIZATION_FAILED], "FindCoordinator": [C.GROUP_AUTHORIZATION_FAILED]}
        for api, codes in extra.items():
            plan.kinds[api] = plan.kinds[api] + [("error", c) for c in codes]
    plan.enabled = False
    cl.faults = plan
    uid_n = {}

    iso = 1 if P.get("isolation") == "read_committed" else 0
    txn_pids = [9001, 9002, 9003]
    txn_seq = {}

    def append_marker(pl, pid, commit, now):
        pl.append_raw(rr.encode_control_batch(pl.leo, pid, 0, commit, 1_650_000_000_000 + pl.leo), now)

    def close_open_txns(now):
        for logs in cl.topics.values():
            for pl in logs:
                for pid in list(pl.open_txns):
                    append_marker(pl, pid, rng.random() < 0.5, now)

    def append_record(topic, p, now):
        pl = cl.plog(topic, p)
        if P.get("txn_traffic"):
            r = rng.random()
            if r < 0.25 and pl.open_txns:
                append_marker(pl, rng.choice(sorted(pl.open_txns)), rng.random() < 0.5, now)
                return
            if r < 0.6:
                pid = rng.choice(txn_pids)
                n = rng.choice([1, 2, 3])
                base = pl.leo
                seq = txn_seq.get((topic, p, pid), 0)
                txn_seq[(topic, p, pid)] = seq + n
                recs = [(i, 1_650_000_000_000 + base + i, None, b"uid:%s.%d.%d|" % (topic.encode(), p, base + i), [])
                        for i in range(n)]
                pl.append_raw(rr.encode_batch_v2(recs, base_offset=base, pid=pid, epoch=0, base_seq=seq, transactional=True,
                                                 last_offset_delta=n - 1), now)
                return
        n = 1 if not P["compaction_gaps"] else rng.choice([1, 2, 3])
        base = pl.leo
        keep = list(range(n))
        if n > 1 and rng.random() < 0.5:
            keep = sorted(rng.sample(range(n), rng.randint(1, n - 1)))
        recs = [(i, 1_650_000_000_000 + base + i, None, b"uid:%s.%d.%d|" % (topic.encode(), p, base + i), []) for i in keep]
        raw = rr.encode_batch_v2(recs, base_offset=base, last_offset_delta=n - 1)
        pl.append_raw(raw, now)
        uid_n[(topic, p)] = pl.leo

    for t, n in P["topics"].items():
        for p in range(n):
            for _ in range(P["preloaded"]):
                append_record(t, p, 0.0)
    close_open_txns(0.0)
    if P["initial_committed"]:
        g = cl.gc.group(GROUP)
        for t, n in P["topics"].items():
            for p in range(n):
                if rng.random() < 0.6 and cl.plog(t, p).leo > 0:
                    g.offsets[(t, p)] = (rng.randint(0, cl.plog(t, p).leo), "")
    H = {"params": P, "events": [], "errors": [], "notes": [], "initial_committed": {}}
    if P["initial_committed"]:
        H["initial_committed"] = {f"{t}:{p}": o for (t, p), (o, _m) in cl.gc.group(GROUP).offsets.items()}
    ev = H["events"]
    state = {"inc": {}, "live": {}, "count": {}}     # member -> current incarnation record

    assignor_classes = {"range": RangePartitionAssignor, "roundrobin": RoundRobinPartitionAssignor,
                        "sticky": _sa.StickyPartitionAssignor}

    async def main(loop):
        t0 = loop.time()
        H["t0"] = t0
        plan.quiet_at = t0 + P["quiet_after"]

        def log(m, op, **kw):
            kw.update(n=len(ev), t=round(loop.time() - t0, 6), m=m, op=op)
            ev.append(kw)
            return kw

        class Listener(ConsumerRebalanceListener):
            def __init__(self, inc):
                self.inc = inc

            async def on_partitions_revoked(self, revoked):
                inc = self.inc
                log(inc["id"], "revoked.start", tps=sorted([tp.topic, tp.partition] for tp in revoked))
                d = inc["rng"].uniform(0, P["listener_delay"])
                lr = P.get("long_revoke")
                if lr and lr["m"] == inc["member"] and revoked and not state.get("long_revoke_used") \
                        and loop.time() - t0 >= lr["after_t"]:
                    state["long_revoke_used"] = True
                    d = P["rebalance_timeout_ms"] / 1000.0 + lr["extra"]
                    log(inc["id"], "long_revoke", seconds=d)
                if d > 0:
                    await asyncio.sleep(d)
                log(inc["id"], "revoked.end")

            async def on_partitions_assigned(self, assigned):
                inc = self.inc
                snap = sorted([tp.topic, tp.partition] for tp in inc["cons"].assignment())
                log(inc["id"], "assigned.start", tps=sorted([tp.topic, tp.partition] for tp in assigned), snapshot=snap)
                d = inc["rng"].uniform(0, P["listener_delay"])
                if d > 0:
                    await asyncio.sleep(d)
                log(inc["id"], "assigned.end")

        async def member_main(inc):
            OWNER.set(inc["id"])
            mid = inc["id"]
            strategies = []
            for a in P["assignors"]:
                k = assignor_classes[a]
                if a == "sticky":     # member_assignment/generation are CLASS attributes: one class per incarnation
                    k = type("Sticky_" + mid, (k,), {})
                strategies.append(k)
            cons = AIOKafkaConsumer(
                bootstrap_servers=cl.bootstrap(), group_id=GROUP, client_id=mid, auto_offset_reset="earliest",
                enable_auto_commit=P["auto_commit"], auto_commit_interval_ms=P["auto_commit_interval_ms"],
                session_timeout_ms=P["session_timeout_ms"], heartbeat_interval_ms=P["heartbeat_interval_ms"],
                rebalance_timeout_ms=P["rebalance_timeout_ms"], request_timeout_ms=P["request_timeout_ms"],
                retry_backoff_ms=P["retry_backoff_ms"], metadata_max_age_ms=P["metadata_max_age_ms"],
                partition_assignment_strategy=tuple(strategies), fetch_max_wait_ms=P["fetch_max_wait_ms"],
                max_partition_fetch_bytes=P["max_partition_fetch_bytes"],
                isolation_level=P.get("isolation", "read_uncommitted"),
                max_poll_interval_ms=P.get("max_poll_interval_ms", 300000), connections_max_idle_ms=idle_ms(P))
            inc["cons"] = cons
            sub = inc["sub"]
            if "pattern" in sub:
                cons.subscribe(pattern=sub["pattern"], listener=Listener(inc))
            else:
                cons.subscribe(sub["topics"], listener=Listener(inc))
            log(mid, "start.call", sub=sub, assignors=P["assignors"])
            try:
                await cons.start()
            except asyncio.CancelledError:
                raise
            except Exception as e:  # noqa: BLE001
                log(mid, "exception", during="start", exc=type(e).__name__, msg=str(e)[:200])
                inc["failed_start"] = True
                return
            inc["started"] = True
            log(mid, "start.ret")
            mrng = inc["rng"]
            while not inc["stopping"]:
                try:
                    if loop.time() < inc.get("idle_until", 0.0):
                        log(mid, "idle.start", until=round(inc["idle_until"] - t0, 6))
                        while loop.time() < inc.get("idle_until", 0.0) and not inc["stopping"]:
                            await asyncio.sleep(min(0.05, max(0.0, inc["idle_until"] - loop.time())) or 0.001)
                        log(mid, "idle.end")
                        if inc["stopping"]:
                            break
                    if P["use_getone"]:
                        try:
                            m = await asyncio.wait_for(cons.getone(), 0.3)
                            msgs = [m]
                        except asyncio.TimeoutError:
                            msgs = []
                    else:
                        res = await cons.getmany(timeout_ms=P["getmany_timeout_ms"], max_records=P["max_records"])
                        msgs = [m for _tp, ms in res.items() for m in ms]
                    for m in msgs:       # same loop turn as the hand-out: no await in between
                        log(mid, "delivery", tp=[m.topic, m.partition], o=m.offset, uid=C.uid_of(m.value))
                    if msgs and not P["auto_commit"] and mrng.random() < P["manual_commit_p"]:
                        log(mid, "commit.call")
                        try:
                            await cons.commit()
                            log(mid, "commit.ret", ok=True)
                        except KafkaError as e:
                            log(mid, "commit.ret", ok=False, exc=type(e).__name__)
                    if not msgs or P["proc_delay"]:
                        await asyncio.sleep(P["proc_delay"] if msgs else max(P["proc_delay"], 0.01))
                except ConsumerStoppedError:
                    break
                except asyncio.CancelledError:
                    raise
                except Exception as e:  # noqa: BLE001
                    log(mid, "exception", during="poll", exc=type(e).__name__, msg=str(e)[:200],
                        retriable=bool(getattr(e, "retriable", False)))
                    await asyncio.sleep(0.05)

        def start_member(m, sub=None):
            if m in state["live"]:
                return
            k = state["count"].get(m, 0)
            state["count"][m] = k + 1
            inc = {"id": f"{m}i{k}", "member": m, "sub": dict(sub or state["inc"].get(m, {}).get("sub") or P["members"][m]),
                   "stopping": False, "started": False, "rng": random.Random(P["seed"] * 7 + hash_s(f"{m}i{k}")),
                   "cons": None}
            tok = OWNER.set(inc["id"])
            try:
                inc["task"] = asyncio.ensure_future(member_main(inc))
            finally:
                OWNER.reset(tok)
            state["inc"][m] = inc
            state["live"][m] = inc

        async def stop_member(m, why="stop"):
            inc = state["live"].pop(m, None)
            if inc is None:
                return
            inc["stopping"] = True
            log(inc["id"], "stop.call", why=why)
            tok = OWNER.set(inc["id"])
            try:
                if inc["cons"] is not None:
                    try:
                        await inc["cons"].stop()
                        log(inc["id"], "stop.ret")
                    except asyncio.CancelledError:
                        log(inc["id"], "stop.ret", exc="CancelledError")
                    except Exception as e:  # noqa: BLE001
                        log(inc["id"], "stop.ret", exc=type(e).__name__, msg=str(e)[:200])
            finally:
                OWNER.reset(tok)
            if not inc["task"].done():
                try:
                    await asyncio.wait_for(inc["task"], 5.0)
                except (asyncio.TimeoutError, asyncio.CancelledError, Exception):  # noqa: BLE001
                    inc["task"].cancel()

        def kill_member(m):
            inc = state["live"].pop(m, None)
            if inc is None:
                return
            log(inc["id"], "kill")
            inc["stopping"] = True
            inc["killed"] = True
            kill_owner(loop, inc["id"])

        async def producer():
            while loop.time() - t0 < P["produce_until"]:
                await asyncio.sleep(rng.uniform(0, 2 * P["produce_interval"]))
                t = rng.choice(sorted(cl.topics))
                p = rng.randrange(len(cl.topics[t]))
                append_record(t, p, loop.time())
            close_open_txns(loop.time())

        async def scripted():
            for a in P["script"]:
                dt = a["t"] - (loop.time() - t0)
                if dt > 0:
                    await asyncio.sleep(dt)
                op = a["op"]
                if op == "start":
                    start_member(a["m"])
                elif op == "stop":
                    asyncio.ensure_future(stop_member(a["m"]))
                elif op == "kill":
                    kill_member(a["m"])
                elif op == "subscribe":
                    inc = state["live"].get(a["m"])
                    if inc is not None and inc["cons"] is not None:
                        inc["sub"] = {"topics": a["topics"]}
                        log(inc["id"], "subscribe", topics=a["topics"])
                        try:
                            inc["cons"].subscribe(a["topics"], listener=inc["cons"]._subscription.listener)
                        except Exception as e:  # noqa: BLE001
                            log(inc["id"], "exception", during="subscribe", exc=type(e).__name__, msg=str(e)[:200])
                elif op == "idle":
                    inc = state["live"].get(a["m"])
                    if inc is not None:
                        inc["idle_until"] = loop.time() + a["for"]
                elif op == "add_partitions":
                    if a["topic"] in cl.topics:
                        cl.add_partitions(a["topic"], len(cl.topics[a["topic"]]) + a["n"])
                        log(None, "add_partitions", topic=a["topic"], total=len(cl.topics[a["topic"]]))
                elif op == "create_topic":
                    cl.create_topic(a["topic"], a["n"])
                    log(None, "create_topic", topic=a["topic"], n=a["n"])
                elif op == "move_coordinator":
                    cl.move_coordinator(GROUP, 0, with_state=a["with_state"])
                    log(None, "move_coordinator", with_state=a["with_state"])
                elif op == "broker_bounce":
                    node = cl.coordinator_for(GROUP, 0) if rng.random() < 0.5 else rng.choice(sorted(cl.brokers))
                    b = cl.brokers[node]
                    b.go_down()
                    log(None, "broker_down", node=node)
                    down_for = min(a["down_for"], max(0.05, P["quiet_after"] - (loop.time() - t0) - 0.1))

                    def up(b=b, node=node):
                        b.come_up()
                        log(None, "broker_up", node=node)
                    loop.call_later(down_for, up)

        if P.get("kill_at_event"):
            loop.at_event(P["kill_at_event"]["k"], lambda: kill_member(P["kill_at_event"]["m"]))
        if P.get("stop_at_event"):
            loop.at_event(P["stop_at_event"]["k"],
                          lambda: asyncio.ensure_future(stop_member(P["stop_at_event"]["m"], "stop_at_event")))
        if P.get("stagger"):
            coord = cl.coordinator_for(GROUP, 0)
            cands = sorted({cl.leaders[(t, p)] for t, n in P["topics"].items() for p in range(n)} - {coord})
            if cands:
                b = cl.brokers[rng.choice(cands)]
                b.go_down()
                log(None, "broker_down", node=b.node_id, stagger=True)

                def up(b=b):
                    b.come_up()
                    log(None, "broker_up", node=b.node_id)
                loop.call_later(P["stagger"]["leader_down_for"], up)
        plan.enabled = True
        bg = [asyncio.ensure_future(producer()), asyncio.ensure_future(scripted())]
        await asyncio.wait(bg)
        now = loop.time() - t0
        if now < P["quiet_after"]:
            await asyncio.sleep(P["quiet_after"] - now + 0.001)
        for b in cl.brokers.values():
            if not b.up:
                b.come_up()
        plan.enabled = False
        H["t_quiet"] = loop.time() - t0
        H["events_at_quiet"] = loop.events
        bound = group_bound(P)
        H["bound"] = bound
        await asyncio.sleep(bound)
        # ---------------- convergence point
        H["t_conv"] = loop.time() - t0
        H["conv"] = snapshot(cl, state, P)
        window = 3 * P["session_timeout_ms"] / 1000.0
        await asyncio.sleep(window)
        H["t_window_end"] = loop.time() - t0
        H["conv_end"] = snapshot(cl, state, P)
        # ---------------- drain: the survivors must get to the end of every log they own
        drain_bound = bound + 0.05 * sum(pl.leo for logs in cl.topics.values() for pl in logs) * max(1, P["proc_delay"] * 20)
        t_d = loop.time()
        while loop.time() - t_d < drain_bound:
            if all_drained(cl, ev, state, iso):
                break
            await asyncio.sleep(0.25)
        H["t_drained"] = loop.time() - t0
        H["final"] = snapshot(cl, state, P)
        positions = {}
        for m, inc in state["live"].items():
            cons = inc["cons"]
            if cons is None or not inc["started"]:
                continue
            for tp in cons.assignment():
                try:
                    positions[f"{tp.topic}:{tp.partition}"] = [inc["id"], await asyncio.wait_for(cons.position(tp), 2.0)]
                except Exception as e:  # noqa: BLE001
                    positions[f"{tp.topic}:{tp.partition}"] = [inc["id"], type(e).__name__]
        H["final"]["positions"] = positions
        for m in list(state["live"]):
            await stop_member(m, "end")
        H["t_end"] = loop.time() - t0
        H["loop_events"] = loop.events

    try:
        run_sim(main, seed=P["seed"], net=net, max_virtual_s=7200, max_events=1_500_000)
    except Exception as e:  # noqa: BLE001
        H["errors"].append(f"{type(e).__name__}: {e}")
    t0 = H.get("t0", 0.0)
    # ---- coordinator-side logs, decoded independently of the library
    grp = []
    for e in cl.events:
        if e["kind"] == "group":
            d = {k: v for k, v in e.items() if k not in ("kind", "metadata", "assignments", "assignment")}
            d["t"] = round(e["t"] - t0, 6)
            if "metadata" in e:
                d["subscriptions"] = [decode_subscription(b) for b in e["metadata"]]
            if "assignments" in e:
                d["assignments"] = {m: decode_assignment(b) for m, b in e["assignments"].items()}
            if "assignment" in e:
                d["assignment"] = decode_assignment(e["assignment"])
            grp.append(d)
    H["group"] = grp
    H["group_events"] = [dict({k: v for k, v in e.items() if k != "kind"}, t=round(e["t"] - t0, 6))
                         for e in cl.events if e["kind"] == "group_event"]
    H["faulted_requests"] = [{"t": round(e["t"] - t0, 6), "api": e["api"], "client_id": e["client_id"], "fate": e["fate"],
                              "n": e["n"]} for e in cl.events if e["kind"] == "request" and e.get("fate") != "ok"]
    H["requests_by_client"] = {}
    for e in cl.events:
        if e["kind"] == "request" and e["api"] in ("Metadata",):
            H["requests_by_client"].setdefault(e["client_id"], []).append([round(e["t"] - t0, 6), e["api"]])
    H["coordinator_moves"] = [round(e["t"] - t0, 6) for e in cl.events if e["kind"] == "coordinator_move"]
    H["md_changes"] = [[round(t - t0, 6) if t else 0.0, w] for t, w in cl.md_changes]
    g = cl.groups.get(GROUP)
    H["ledger"] = []
    if g is not None:
        for ent in g.ledger:
            H["ledger"].append({
                "generation": ent["generation"], "protocol": ent["protocol"], "leader": ent["leader"],
                "t": round(ent["t"] - t0, 6), "synced_at": None if ent["synced_at"] is None else round(ent["synced_at"] - t0, 6),
                "members": {m: decode_subscription(b) for m, b in ent["members"].items()},
                "protocols": ent["protocols"],
                "assignments": {m: decode_assignment(b) for m, b in ent["assignments"].items()},
                "extra_assignees": ent.get("extra_assignees", [])})
        H["committed"] = {f"{t}:{p}": o for (t, p), (o, _m) in g.offsets.items()}
    H["truth"] = {}
    for t, logs in cl.topics.items():
        for pl in logs:
            H["truth"][f"{t}:{pl.partition}"] = {"visible": [(o, C.uid_of(r.value)) for (o, r, _sb) in pl.visible_records(iso)],
                                                 "leo": pl.leo, "log_start": pl.log_start}
    H["fault_hits"] = dict(plan.hits)
    H["sticky_nonterminating"] = stickyguard.STATS["nonterminating"] - sticky_before
    H["sim_errors"] = [e for e in cl.events if e["kind"] in ("SIM_ENCODE_ERROR", "undecodable_request", "bad_header",
                                                              "unsupported_request")]
    return H


def hash_s(s):
    return C.hash_str(s)


def snapshot(cl, state, P):
    g = cl.groups.get(GROUP)
    out = {"group_state": g.state if g else None, "generation": g.generation if g else None,
           "members": {}, "live": {}, "topics": {t: len(l) for t, l in cl.topics.items()}}
    if g is not None:
        for mid, m in g.members.items():
            out["members"][mid] = {"assignment": decode_assignment(m.assignment), "client_id": m.client_id}
    for name, inc in state["live"].items():
        cons = inc["cons"]
        if cons is None:
            continue
        sub = inc["sub"]
        try:
            asg = sorted([tp.topic, tp.partition] for tp in cons.assignment())
        except Exception:  # noqa: BLE001
            asg = None
        out["live"][inc["id"]] = {"sub": sub, "assignment": asg, "started": inc["started"],
                                  "failed_start": bool(inc.get("failed_start"))}
    return out


def all_drained(cl, ev, state, iso=0):
    """True when every visible record of every partition owned by a live member has been delivered to someone."""
    delivered = {}
    for e in ev:
        if e["op"] == "delivery":
            delivered.setdefault((e["tp"][0], e["tp"][1]), set()).add(e["o"])
    owned_tps = set()
    for inc in state["live"].values():
        cons = inc["cons"]
        if cons is None or not inc["started"]:
            continue
        try:
            owned_tps.update((tp.topic, tp.partition) for tp in cons.assignment())
        except Exception:  # noqa: BLE001
            pass
    for (t, p) in owned_tps:
        pl = cl.plog(t, p)
        if pl is None:
            continue
        got = delivered.get((t, p), set())
        for (o, _r, _sb) in pl.visible_records(iso):
            if o not in got:
                return False
    return True


# --------------------------------------------------------------------------------------------------
# shared derived views
# --------------------------------------------------------------------------------------------------

def owner_of_member_id(member_id):
    """'m0i1-g-0003' -> 'm0i1' (incarnation id = client_id)."""
    return member_id.split("-" + GROUP + "-")[0] if member_id else None


def periods(H):
    """Ownership periods per (incarnation, tp): [{start_n, t_start, t_end, end_why, deliveries:[(t, offset, n)]}]
    A period opens at an assigned.start whose tps include tp and closes at the incarnation's next revoked.start,
    stop.call (graceful stop still hands out nothing new afterwards... the member loop ends), kill or the end."""
    per = {}
    open_ = {}
    outside = []
    for e in H["events"]:
        m, op = e["m"], e["op"]
        if op == "assigned.start":
            for tp in e["tps"]:
                key = (m, tp[0], tp[1])
                if key in open_:
                    continue     # re-assigned without a revoke in between cannot happen; keep the open one
                rec = {"inc": m, "tp": (tp[0], tp[1]), "n_start": e["n"], "t_start": e["t"], "t_end": None,
                       "end_why": None, "deliveries": []}
                open_[key] = rec
                per.setdefault(key, []).append(rec)
        elif op in ("revoked.start", "kill", "stop.ret"):
            for key in [k for k in open_ if k[0] == m]:
                rec = open_.pop(key)
                rec["t_end"] = e["t"]
                rec["end_why"] = op
        elif op == "delivery":
            key = (m, e["tp"][0], e["tp"][1])
            rec = open_.get(key)
            if rec is None:
                outside.append(e)
            else:
                rec["deliveries"].append((e["t"], e["o"], e["n"]))
    return per, outside
