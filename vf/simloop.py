"""Virtual-time asyncio loop + in-memory network fabric.

The real aiokafka client objects run unmodified on SimLoop.  Time only advances when nothing is
runnable (VSelector.select adds the timeout to the virtual clock).  loop.create_connection()
attaches the client's protocol to a Link of the SimNet fabric; the other end is an Endpoint
served by a handler object (the simulated cluster, or a scripted peer).

Nothing here reorders the loop's FIFO ready queue: interleavings arise only from (seeded)
network latencies, chunking and timers, i.e. at real suspension points.
"""
from __future__ import annotations

import asyncio
import contextvars
import random
import selectors
import struct
import types

MIN_TICK = 1e-6
EPS = 1e-7   # strict FIFO: equal deadlines in the timer heap are not ordered
OWNER: contextvars.ContextVar = contextvars.ContextVar("vf_owner", default=None)


class SimDeadlock(Exception):
    """select(None): nothing runnable and no timer pending."""


class SimBudgetExceeded(Exception):
    """virtual-time or event budget of the history exhausted."""


class SimLivelock(SimBudgetExceeded):
    """the loop keeps running callbacks although virtual time cannot advance: some task spins without ever
    waiting for a timer or the network (e.g. `while True: await already_done_future`)."""


SPIN_LIMIT = 300_000     # loop iterations at one frozen virtual instant


class VClock:
    def __init__(self, start=1000.0):
        self.now = start
        self.wall_offset = 1_700_000_000.0 - start  # time.time() = now + wall_offset


class VSelector(selectors.BaseSelector):
    def __init__(self, clock: VClock):
        self._clock = clock
        self._keys = {}
        self.max_time = None
        self.abort = None
        self.loop = None

    def register(self, fileobj, events, data=None):
        key = selectors.SelectorKey(fileobj, fileobj if isinstance(fileobj, int) else fileobj.fileno(), events, data)
        self._keys[key.fd] = key
        return key

    def unregister(self, fileobj):
        fd = fileobj if isinstance(fileobj, int) else fileobj.fileno()
        return self._keys.pop(fd)

    def select(self, timeout=None):
        if self.abort is not None:
            exc, self.abort = self.abort, None
            raise exc
        if timeout is None:
            raise SimDeadlock("nothing scheduled: every task waits for something that cannot happen")
        if timeout > 0:
            # jump exactly to the earliest timer (no float drift from adding differences)
            sched = self.loop._scheduled if self.loop is not None else None
            if sched:
                self._clock.now = max(self._clock.now, sched[0]._when)
            else:
                self._clock.now += timeout
            if self.max_time is not None and self._clock.now > self.max_time:
                raise SimBudgetExceeded(f"virtual time budget exceeded at {self._clock.now}")
        return []

    def get_map(self):
        return {k.fileobj: k for k in self._keys.values()}

    def close(self):
        self._keys.clear()


class SimTime(types.SimpleNamespace):
    """Replacement for the `time` module attribute of aiokafka modules."""

    def __init__(self, clock: VClock):
        import time as _t
        super().__init__()
        self._clock = clock
        self._real = _t

    def monotonic(self):
        return self._clock.now

    def time(self):
        return self._clock.now + self._clock.wall_offset

    def sleep(self, s):  # pragma: no cover - library never sleeps synchronously
        raise RuntimeError("blocking sleep in simulated code")

    def __getattr__(self, name):
        return getattr(self._real, name)


TIME_MODULES = [
    "aiokafka.client", "aiokafka.conn", "aiokafka.cluster", "aiokafka.consumer.fetcher",
    "aiokafka.consumer.group_coordinator", "aiokafka.consumer.subscription_state",
    "aiokafka.producer.message_accumulator", "aiokafka.protocol.message",
    "aiokafka.record.legacy_records", "aiokafka.record.default_records",
]


def bind_time(clock: VClock):
    """Rebind the module-level name `time` of every aiokafka module that reads the clock."""
    import importlib
    shim = SimTime(clock)
    for name in TIME_MODULES:
        mod = importlib.import_module(name)
        if hasattr(mod, "time"):
            mod.time = shim
    return shim


class SimLoop(asyncio.SelectorEventLoop):
    def __init__(self, net: "SimNet" = None, clock: VClock = None, max_virtual_s=None, max_events=None):
        self.clock = clock or VClock()
        self._vsel = VSelector(self.clock)
        super().__init__(selector=self._vsel)
        self._vsel.loop = self
        self.net = net
        if net is not None:
            net.loop = self
        self.events = 0           # network deliveries + timer firings
        self._spin_at = None
        self._spin_n = 0
        self.max_events = max_events
        self._event_actions = {}  # k -> [callables]
        self.tasks = []           # weak-ish registry (tasks kept until pruned)
        self.timers = []
        self.transports = []
        self.set_task_factory(self._vf_task_factory)   # NB: BaseEventLoop has an INSTANCE attribute _task_factory
        if max_virtual_s is not None:
            self._vsel.max_time = self.clock.now + max_virtual_s
        self.slow_callback_duration = 1e9
        self.callback_errors = []   # (message, repr(exc), raised_in_harness)
        self.set_exception_handler(self._on_callback_error)

    def _on_callback_error(self, loop, context):
        import traceback
        exc = context.get("exception")
        in_harness = False
        if exc is not None and exc.__traceback__ is not None:
            frames = traceback.extract_tb(exc.__traceback__)
            in_harness = bool(frames) and "/vf/" in frames[-1].filename
        self.callback_errors.append((context.get("message"), repr(exc), in_harness))

    def _run_once(self):
        # livelock detector: iterations of the loop during which the virtual clock did not move
        now = self.clock.now
        if now == self._spin_at:
            self._spin_n += 1
            if self._spin_n > SPIN_LIMIT and self._vsel.abort is None:
                self._spin_n = 0
                raise SimLivelock(f"{SPIN_LIMIT} loop iterations at virtual time {now:.6f} without progress: "
                                  f"a task is spinning ({self._spin_who()})")
        else:
            self._spin_at = now
            self._spin_n = 0
        super()._run_once()

    def _spin_who(self):
        try:
            names = []
            for h in list(self._ready)[:4]:
                cb = getattr(h, "_callback", None)
                task = getattr(cb, "__self__", None)
                coro = getattr(task, "get_coro", lambda: None)()
                names.append(getattr(coro, "__qualname__", None) or getattr(cb, "__qualname__", repr(cb))[:80])
            return ", ".join(str(n) for n in names)
        except Exception:  # noqa: BLE001
            return "?"

    def set_time_budget(self, virtual_s):
        self._vsel.max_time = self.clock.now + virtual_s

    # ---- time -------------------------------------------------------------------------
    def time(self):
        return self.clock.now

    # ---- events -----------------------------------------------------------------------
    def sim_event(self, kind=None):
        self.events += 1
        if self.max_events is not None and self.events > self.max_events:
            # exceptions raised inside callbacks are swallowed by the loop: abort via the selector
            self._vsel.abort = SimBudgetExceeded(f"event budget exceeded ({self.events})")
        acts = self._event_actions.pop(self.events, None)
        if acts:
            for a in acts:
                a()

    def at_event(self, k, fn):
        if k <= self.events:
            k = self.events + 1
        self._event_actions.setdefault(k, []).append(fn)

    # ---- ownership tagging -------------------------------------------------------------
    def _vf_task_factory(self, loop, coro, **kw):
        t = asyncio.Task(coro, loop=loop, **kw)
        t._vf_owner = OWNER.get()
        self.tasks.append(t)
        if len(self.tasks) > 4096:
            self.tasks = [x for x in self.tasks if not x.done()]
        return t

    def call_at(self, when, callback, *args, context=None):
        # real timers have a granularity: without a minimal tick a "retry in 1e-17 s" loop (e.g. the linger
        # wake-up computed from float differences) would spin forever at a frozen virtual instant
        when = max(when, self.clock.now + MIN_TICK)
        h = super().call_at(when, self._fire_timer, callback, args, context=context)
        self.timers.append((h, OWNER.get(), callback))
        if len(self.timers) > 8192:
            self.timers = [x for x in self.timers if not x[0].cancelled() and x[0]._scheduled]
        return h

    def _fire_timer(self, callback, args):
        self.sim_event("timer")
        callback(*args)

    def live_owned(self, owner):
        """Tasks / timers / transports tagged with `owner` that are still alive."""
        now = self.clock.now
        tasks = [t for t in self.tasks if getattr(t, "_vf_owner", None) == owner and not t.done()]
        timers = [(h, cb) for (h, o, cb) in self.timers
                  if o == owner and not h.cancelled() and h._scheduled]
        transports = [t for t in self.transports if t.owner == owner and not t.lost]
        return tasks, timers, transports

    # ---- executor: SASL steps run inline --------------------------------------------
    def run_in_executor(self, executor, func, *args):
        fut = self.create_future()
        try:
            fut.set_result(func(*args))
        except BaseException as e:  # noqa
            fut.set_exception(e)
        return fut

    # ---- connections ------------------------------------------------------------------
    async def create_connection(self, protocol_factory, host=None, port=None, *, ssl=None, **kw):
        if self.net is None:
            raise OSError("no simulated network")
        return await self.net.connect(self, protocol_factory, host, port)

    async def getaddrinfo(self, host, port, **kw):
        return [(2, 1, 6, "", (host, port))]


class SimTransport(asyncio.Transport):
    def __init__(self, loop, protocol, link):
        super().__init__()
        self._loop = loop
        self._protocol = protocol
        self.link = link
        self.owner = OWNER.get()
        self._closing = False
        self.lost = False
        self._paused = False
        self._pending = []
        loop.transports.append(self)
        if len(loop.transports) > 4096:
            loop.transports = [t for t in loop.transports if not t.lost]

    # -- asyncio.Transport surface --
    def get_extra_info(self, name, default=None):
        if name == "peername":
            return (self.link.host, self.link.port)
        if name == "sockname":
            return ("client", self.link.id)
        return default

    def is_closing(self):
        return self._closing

    def close(self):
        if self._closing:
            return
        self._closing = True
        self.link.client_closed()
        self._loop.call_soon(self._connection_lost, None)

    def abort(self):
        self.close()

    def set_protocol(self, protocol):
        self._protocol = protocol

    def get_protocol(self):
        return self._protocol

    def is_reading(self):
        return not self._paused and not self._closing

    def pause_reading(self):
        self._paused = True

    def resume_reading(self):
        self._paused = False
        pend, self._pending = self._pending, []
        for kind, data in pend:
            self._deliver(kind, data)

    def set_write_buffer_limits(self, high=None, low=None):
        pass

    def get_write_buffer_size(self):
        return 0

    def get_write_buffer_limits(self):
        return (0, 0)

    def write(self, data):
        if self._closing or self.lost:
            return
        self.link.client_wrote(bytes(data))

    def writelines(self, lines):
        self.write(b"".join(lines))

    def can_write_eof(self):
        return False

    def write_eof(self):
        pass

    # -- fed by the link --
    def _deliver(self, kind, data):
        if self.lost or self._closing:
            return
        if self._paused:
            self._pending.append((kind, data))
            return
        if kind == "data":
            self._protocol.data_received(data)
        elif kind == "eof":
            keep = self._protocol.eof_received()
            if not keep:
                self._closing = True
                self._connection_lost(None)
        elif kind == "reset":
            self._closing = True
            self._connection_lost(ConnectionResetError("Connection reset by peer (simulated)"))

    def _connection_lost(self, exc):
        if self.lost:
            return
        self.lost = True
        self._protocol.connection_lost(exc)

    def sever(self):
        """kill -9 of the owner: no callbacks, nothing further in either direction."""
        self.lost = True
        self._closing = True
        self.link.severed = True


class Link:
    """One TCP-like connection: two FIFO byte streams with seeded latencies."""

    _ids = 0

    def __init__(self, net, host, port, handler):
        Link._ids += 1
        self.id = Link._ids
        self.net = net
        self.host = host
        self.port = port
        self.handler = handler
        self.transport = None
        self.severed = False
        self.client_gone = False
        self.server_gone = False
        self._c2s_t = 0.0
        self._s2c_t = 0.0
        self._inbuf = b""
        self.busy = False          # a request is being processed (one at a time per connection)
        self._frames = []          # complete frames waiting for their turn
        self.raw_mode = False      # SASL raw tokens look like frames too, so nothing special
        self.state = {}            # handler scratch space (sasl state, node id...)
        self.bytes_in = 0

    # ---------------- client -> server -----------------
    def client_wrote(self, data):
        if self.severed or self.server_gone:
            return
        lat = self.net.latency("c2s", self)
        loop = self.net.loop
        when = max(self._c2s_t + EPS, loop.time() + lat)
        self._c2s_t = when
        self.net.call_at(when, self._server_receive, data)

    def client_closed(self):
        self.client_gone = True
        if self.severed or self.server_gone:
            return
        loop = self.net.loop
        when = max(self._c2s_t + EPS, loop.time() + self.net.latency("c2s", self))
        self._c2s_t = when
        self.net.call_at(when, self._server_sees_close)

    def _server_sees_close(self):
        if self.severed or self.server_gone:
            return
        self.server_gone = True
        self.handler.on_disconnect(self)

    def _server_receive(self, data):
        if self.severed or self.server_gone:
            return
        self.bytes_in += len(data)
        self._inbuf += data
        while len(self._inbuf) >= 4:
            (size,) = struct.unpack(">i", self._inbuf[:4])
            if size < 0 or len(self._inbuf) < 4 + size:
                break
            frame = self._inbuf[4:4 + size]
            self._inbuf = self._inbuf[4 + size:]
            if self.busy:
                hook = getattr(self.handler, "on_frame_queued", None)
                if hook is not None:
                    hook(self, frame)     # arrived behind a request of this connection that is still unanswered
            self._frames.append(frame)
        self._pump()

    def _pump(self):
        while self._frames and not self.busy and not self.server_gone and not self.severed:
            frame = self._frames.pop(0)
            self.busy = True
            self.handler.on_frame(self, frame)

    def done_request(self):
        """Handler finished the current request (after replying, or deciding not to reply)."""
        self.busy = False
        if self._frames:
            self.net.loop.call_soon(self._pump)

    # ---------------- server -> client -----------------
    def send(self, data, cuts=None):
        """Deliver `data` to the client in chunks; `cuts` = byte positions to split at."""
        if self.severed or self.server_gone or self.client_gone:
            return
        if cuts is None:
            cuts = self.net.choose_cuts(len(data))
        pieces = []
        prev = 0
        for c in sorted(set(c for c in cuts if 0 < c < len(data))):
            pieces.append(data[prev:c])
            prev = c
        pieces.append(data[prev:])
        for p in pieces:
            self._s2c("data", p)

    def send_frame(self, payload, cuts=None):
        self.send(struct.pack(">i", len(payload)) + payload, cuts)

    def _s2c(self, kind, data):
        loop = self.net.loop
        when = max(self._s2c_t + EPS, loop.time() + self.net.latency("s2c", self))
        self._s2c_t = when
        self.net.call_at(when, self._client_receive, kind, data)

    def _client_receive(self, kind, data):
        if self.severed or self.transport is None:
            return
        self.transport._deliver(kind, data)

    def send_glued_eof(self, data):
        """Server writes `data` and closes at once, and the client's protocol gets both in ONE callback
        (data_received immediately followed by eof_received, as with a TLS record + close_notify or a FIN
        that is already queued when the socket is read) - the reader task cannot run in between."""
        if self.severed or self.server_gone or self.client_gone:
            return
        self.server_gone = True
        self._frames = []
        loop = self.net.loop
        when = max(self._s2c_t + EPS, loop.time() + self.net.latency("s2c", self))
        self._s2c_t = when
        self.net.call_at(when, self._client_receive_glued, data)

    def _client_receive_glued(self, data):
        if self.severed or self.transport is None:
            return
        self.transport._deliver("data", data)
        self.transport._deliver("eof", b"")

    def close(self):
        """Server closes (FIN): client sees EOF after data already queued."""
        if self.server_gone:
            return
        self.server_gone = True
        self._frames = []
        if not self.severed:
            self._s2c("eof", b"")

    def reset(self):
        if self.server_gone:
            return
        self.server_gone = True
        self._frames = []
        if not self.severed:
            self._s2c("reset", b"")


class SimNet:
    """Maps (host, port) -> listener. listener.accept(link) returns a handler with
    on_frame(link, frame) / on_disconnect(link), or raises OSError to refuse."""

    def __init__(self, seed=0, lat=(0.0005, 0.004), fragment=True):
        self.rng = random.Random(seed)
        self.loop = None
        self.listeners = {}
        self.lat = lat
        self.fragment = fragment
        self.connect_policy = {}   # (host,port) -> "ok" | "refuse" | "blackhole"
        self.links = []
        self.extra_delay = None    # callable(direction, link) -> extra seconds
        self.quantum = None        # seconds: server->client arrivals land on a global lattice (replies of several
        #                            brokers reach the client at the same virtual instant, in one loop pass)
        self.ctx = contextvars.copy_context()   # network/broker callbacks never run in a client's context

    def call_at(self, when, cb, *args):
        tok = OWNER.set("__net__")
        try:
            return self.loop.call_at(when, cb, *args, context=self.ctx)
        finally:
            OWNER.reset(tok)

    def call_later(self, delay, cb, *args):
        return self.call_at(self.loop.time() + delay, cb, *args)

    def listen(self, host, port, listener):
        self.listeners[(host, port)] = listener

    def latency(self, direction, link):
        lo, hi = self.lat
        v = lo + (hi - lo) * self.rng.random()
        if self.extra_delay is not None:
            v += self.extra_delay(direction, link) or 0.0
        if self.quantum and direction == "s2c":
            import math
            now = self.loop.time()
            v = max(0.0, math.ceil((now + v) / self.quantum - 1e-9) * self.quantum - now)
        return v

    def choose_cuts(self, n):
        if not self.fragment or n < 2:
            return []
        r = self.rng.random()
        if r < 0.5:
            return []
        k = self.rng.choice([1, 1, 2, 3])
        cuts = []
        for _ in range(k):
            m = self.rng.random()
            if m < 0.3:
                cuts.append(self.rng.randint(1, min(3, n - 1)))       # inside the 4-byte size
            elif m < 0.6:
                cuts.append(self.rng.randint(1, min(12, n - 1)))      # inside the header
            else:
                cuts.append(self.rng.randint(1, n - 1))
        return cuts

    async def connect(self, loop, protocol_factory, host, port):
        pol = self.connect_policy.get((host, port), "ok")
        if callable(pol):
            pol = pol()
        lst = self.listeners.get((host, port))
        await asyncio.sleep(self.latency("syn", None))
        if pol == "blackhole":
            await loop.create_future()  # never completes; the caller's own timeout fires
        if pol == "refuse" or lst is None:
            raise ConnectionRefusedError(f"[sim] connect to {host}:{port} refused")
        link = Link(self, host, port, None)
        handler = lst.accept(link)       # may raise OSError
        link.handler = handler
        protocol = protocol_factory()
        tr = SimTransport(loop, protocol, link)
        link.transport = tr
        self.links.append(link)
        if len(self.links) > 4096:
            self.links = [l for l in self.links if not (l.server_gone and l.client_gone)]
        protocol.connection_made(tr)
        return tr, protocol

    def sever_owner(self, owner):
        for l in self.links:
            if l.transport is not None and l.transport.owner == owner:
                l.transport.sever()


def kill_owner(loop: SimLoop, owner):
    """kill -9: sever transports silently, then cancel the owner's tasks and timers."""
    if loop.net is not None:
        loop.net.sever_owner(owner)
    for h, o, _cb in loop.timers:
        if o == owner:
            h.cancel()
    for t in list(loop.tasks):
        if getattr(t, "_vf_owner", None) == owner and not t.done():
            t.cancel()


def run_sim(main_factory, *, seed=0, net=None, max_virtual_s=3600.0, max_events=2_000_000):
    """Create loop+clock, bind time shims, run main_factory(loop) to completion, close."""
    clock = VClock()
    loop = SimLoop(net=net, clock=clock, max_virtual_s=max_virtual_s, max_events=max_events)
    bind_time(clock)
    random.seed(seed)
    asyncio.set_event_loop(loop)
    try:
        res = loop.run_until_complete(main_factory(loop))
        bad = [e for e in loop.callback_errors if e[2]]
        if bad:
            raise RuntimeError(f"harness callback raised: {bad[0]}")
        return res
    finally:
        try:
            pend = [t for t in asyncio.all_tasks(loop) if not t.done()]
            for t in pend:
                t.cancel()
            if pend:
                try:
                    loop._vsel.max_time = None
                    loop.max_events = None
                    loop.run_until_complete(asyncio.gather(*pend, return_exceptions=True))
                except BaseException:
                    pass
        finally:
            asyncio.set_event_loop(None)
            loop.close()
