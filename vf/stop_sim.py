"""stop() histories (C19): producer, group consumer and group-less consumer workloads with stop() issued at a chosen
loop event (network delivery or timer firing) while the cluster is healthy, partly unreachable or failing over.

run_history(P): P["workload"] in {"producer", "group_consumer", "simple_consumer"}, P["cluster"] in
{"healthy", "refuse", "blackhole", "failover", "restored"}, P["stop_at_event"] = k or None (reference run: stop at
the end of the horizon).  Everything the client creates runs under the ownership tag "client"; harness tasks run
under "harness".  After stop() returned the loop runs two more turns, then everything still alive under "client" is
listed (tasks, scheduled timer handles, open transports).
"""
from __future__ import annotations

import asyncio
import random

from vf import cluster as C
from vf import refrecords as rr
from vf.simharness import FaultPlan, make_cluster, owned, run_sim, idle_ms
from vf.simloop import OWNER

TOPIC = "t"
TOPIC_B = "tb"
GROUP = "g19"
HANG_FACTOR = 4          # a stop() still pending after HANG_FACTOR x B_stop (+ horizon + 20 s) is called "never returns"
WORKLOADS = ["producer", "group_consumer", "simple_consumer"]
CLUSTER_STATES = ["healthy", "healthy", "refuse", "blackhole", "failover", "restored", "refuse_listed", "blackhole_listed"]


def gen_params(rng, idx, tier="quick", force=None):
    wl = rng.choice(WORKLOADS)
    rebalance = rng.choice([2000, 3000])
    P = {
        "idx": idx, "seed": rng.randrange(2 ** 31), "workload": wl,
        "cluster": rng.choice(CLUSTER_STATES),
        "n_parts": rng.choice([1, 2, 3]),
        "request_timeout_ms": rebalance + rng.choice([1000, 2000]),
        "session_timeout_ms": rng.choice([3000, 4000]),
        "rebalance_timeout_ms": rebalance,
        "heartbeat_interval_ms": rng.choice([300, 1000]),
        "retry_backoff_ms": rng.choice([50, 100]),
        "metadata_max_age_ms": rng.choice([2000, 5000, 300000]),      # 300 s = the library's default: not part of the bound
        "horizon": rng.choice([3.0, 5.0]),
        "idempotent": rng.random() < 0.5,
        "acks": rng.choice([0, 1, -1]),
        "linger_ms": rng.choice([0, 20]),
        "n_senders": rng.choice([1, 2]),
        "auto_commit": rng.random() < 0.7,
        "second_member": rng.random() < 0.5,
        "fault_p": rng.choice([0.0, 0.0, 0.15]),
        "blocked_getmany": rng.random() < 0.5,      # a getmany()/send() call is in progress when stop() is issued
        # group-less consumer: static assign() | assign() replaced while running | subscribe(topic) with partitions
        # added while running | subscribe(pattern) with a matching topic created while running
        "simple_mode": rng.choice(["assign", "assign_twice", "subscribe_growth", "pattern"]),
        # group consumer: subscribe() only after start() returned, so that the member's FIRST join (member id not yet
        # known) is in flight while stop points are taken
        "late_subscribe": rng.random() < 0.35,
        # group consumer: the n-th Heartbeat / OffsetCommit is answered with a NON-retriable error (group authorization
        # revoked): the background task that sent it ends with that error, which waits for the application's next poll
        "fatal_group_error": ({"api": rng.choice(["Heartbeat", "Heartbeat", "OffsetCommit"]), "nth": rng.randint(1, 4)}
                              if rng.random() < 0.3 else None),
        # the application polls only now and then (sleeps this long between getmany() calls)
        "poll_pause": rng.choice([0.01, 0.01, 0.5, 2.0]),
        # group consumer: the coordinator is loading the group (answers every group request COORDINATOR_LOAD_IN_PROGRESS)
        # from the moment the consumer subscribes until long after the run
        "coordinator_loading": rng.random() < 0.12,
        # the 2nd..4th Metadata request of the run is answered late (in flight while the consumer subscribes after start())
        "md_slow_at_start": rng.random() < 0.15,
        # group consumer that subscribed after start(): a second subscribe() with a larger topic set this long afterwards
        # (the topic set is replaced while the metadata request for the first one may still be in flight)
        "resubscribe_after": rng.choice([None, None, None, 0.05, 0.3]),
        "stop_at_event": None,
        "unreachable_from_event": None,             # when the cluster state change happens (event index); None = with stop
    }
    if force:
        P.update(force)
    return P


def stop_bound(P):
    return 4 * (P["request_timeout_ms"] + P["session_timeout_ms"] + P["rebalance_timeout_ms"]) / 1000.0 \
        + 40 * P["retry_backoff_ms"] / 1000.0


def run_history(P):
    from aiokafka import AIOKafkaConsumer, AIOKafkaProducer
    from aiokafka.errors import ConsumerStoppedError, KafkaError, ProducerClosed
    from aiokafka.structs import TopicPartition

    rng = random.Random(P["seed"])
    net, cl = make_cluster(P["seed"], n_brokers=3)
    cl.create_topic(TOPIC, P["n_parts"])
    cl.create_topic(TOPIC_B, 1)
    for p in range(P["n_parts"]):
        pl = cl.plog(TOPIC, p)
        for i in range(10):
            pl.append_raw(rr.encode_batch_v2([(0, 1_650_000_000_000 + i, None, b"uid:p%do%d|" % (p, pl.leo), [])],
                                             base_offset=pl.leo), 0.0)
    plan = FaultPlan(random.Random(P["seed"] ^ 0x519), default_p=P["fault_p"],
                     default_kinds=["drop_before", "reset_after", "lose_reply", "delay"])
    plan.enabled = False
    cl.faults = plan
    fge = P.get("fatal_group_error") if P["workload"] == "group_consumer" else None
    fge_state = {"seen": 0, "fired_ev": None}
    if fge:
        def pred(ctx):
            if ctx["api"] != fge["api"] or ctx.get("client_id") != "client":
                return False
            fge_state["seen"] += 1
            if fge_state["seen"] == fge["nth"]:
                fge_state["fired_ev"] = getattr(net.loop, "events", None)
                return True
            return False
        plan.script(pred, C.Fate("error", C.GROUP_AUTHORIZATION_FAILED), once=True)
    if P.get("md_slow_at_start"):
        md_seen = {"n": 0}

        def md_pred(ctx):
            if ctx["api"] != "Metadata" or ctx.get("client_id") != "client":
                return False
            md_seen["n"] += 1
            return md_seen["n"] in (2, 3, 4)
        plan.script(md_pred, C.Fate("delay", delay=0.8), once=False)
    H = {"params": P, "events": [], "errors": [], "stop": {}, "leftovers": None, "after": {}}
    ev = H["events"]

    async def main(loop):
        t0 = loop.time()
        H["t0"] = t0

        def log(op, **kw):
            kw.update(n=len(ev), t=round(loop.time() - t0, 6), op=op)
            ev.append(kw)

        OWNER.set("harness")
        wl = P["workload"]
        client = None
        other = None
        with owned("client"):
            if wl == "producer":
                client = AIOKafkaProducer(
                    bootstrap_servers=cl.bootstrap(), client_id="client", acks=-1 if P["idempotent"] else P["acks"],
                    enable_idempotence=P["idempotent"], linger_ms=P["linger_ms"], max_batch_size=400,
                    request_timeout_ms=P["request_timeout_ms"], retry_backoff_ms=P["retry_backoff_ms"],
                    metadata_max_age_ms=P["metadata_max_age_ms"], connections_max_idle_ms=idle_ms(P))
            else:
                client = AIOKafkaConsumer(
                    bootstrap_servers=cl.bootstrap(), client_id="client",
                    group_id=GROUP if wl == "group_consumer" else None, auto_offset_reset="earliest",
                    enable_auto_commit=P["auto_commit"], auto_commit_interval_ms=300,
                    session_timeout_ms=P["session_timeout_ms"], heartbeat_interval_ms=P["heartbeat_interval_ms"],
                    rebalance_timeout_ms=P["rebalance_timeout_ms"], request_timeout_ms=P["request_timeout_ms"],
                    retry_backoff_ms=P["retry_backoff_ms"], metadata_max_age_ms=P["metadata_max_age_ms"],
                    fetch_max_wait_ms=200, connections_max_idle_ms=idle_ms(P))
                if wl == "group_consumer":
                    if not (P.get("late_subscribe") or P.get("coordinator_loading")):
                        client.subscribe([TOPIC])
                elif P.get("simple_mode") == "subscribe_growth":
                    client.subscribe([TOPIC])
                elif P.get("simple_mode") == "pattern":
                    client.subscribe(pattern="^t.*")
                else:
                    client.assign([TopicPartition(TOPIC, p) for p in range(P["n_parts"])])
            try:
                await client.start()
            except Exception as e:  # noqa: BLE001
                H["errors"].append(f"start failed: {type(e).__name__}: {e}")
                return
        log("started", events=loop.events)
        H["events_at_start"] = loop.events
        if wl == "group_consumer" and P.get("coordinator_loading"):
            cl.gc.loading_until[GROUP] = loop.time() + 3600.0
        if wl == "group_consumer" and (P.get("late_subscribe") or P.get("coordinator_loading")):
            with owned("client"):
                client.subscribe([TOPIC])
            if P.get("resubscribe_after") is not None:
                def resub():
                    tok = OWNER.set("client")
                    try:
                        client.subscribe([TOPIC, TOPIC_B])
                    except Exception:  # noqa: BLE001  (stopped meanwhile)
                        pass
                    finally:
                        OWNER.reset(tok)
                loop.call_later(P["resubscribe_after"], resub)
        plan.enabled = True
        stopping = {"flag": False}
        bg = []

        if wl == "producer":
            async def sender(ti):
                k = 0
                while not stopping["flag"]:
                    try:
                        with owned("client"):
                            fut = await client.send(TOPIC, b"uid:s%d.%d|" % (ti, k), partition=rng.randrange(P["n_parts"]))
                        k += 1
                        fut.add_done_callback(lambda f: f.exception() if not f.cancelled() else None)
                    except (ProducerClosed, KafkaError, AssertionError):
                        return
                    await asyncio.sleep(rng.choice([0.0, 0.01, 0.05]))
            bg = [asyncio.ensure_future(sender(i)) for i in range(P["n_senders"])]
        else:
            async def poller():
                while not stopping["flag"]:
                    try:
                        with owned("client"):
                            if P["blocked_getmany"]:
                                await client.getmany(timeout_ms=2000)
                            else:
                                await client.getmany(timeout_ms=50)
                    except ConsumerStoppedError:
                        return
                    except KafkaError:
                        await asyncio.sleep(0.05)
                    await asyncio.sleep(P.get("poll_pause", 0.01))

            async def feeder():
                while not stopping["flag"]:
                    await asyncio.sleep(rng.uniform(0.02, 0.2))
                    p = rng.randrange(P["n_parts"])
                    pl = cl.plog(TOPIC, p)
                    pl.append_raw(rr.encode_batch_v2([(0, 1_650_000_000_000, None, b"uid:p%do%d|" % (p, pl.leo), [])],
                                                     base_offset=pl.leo), loop.time())
            bg = [asyncio.ensure_future(poller()), asyncio.ensure_future(feeder())]
            if wl == "simple_consumer" and P.get("simple_mode", "assign") != "assign":
                async def reshaper():
                    mode = P["simple_mode"]
                    for step in range(3):
                        await asyncio.sleep(rng.uniform(0.05, P["horizon"] / 3))
                        if stopping["flag"]:
                            return
                        try:
                            if mode == "assign_twice":
                                keep = [TopicPartition(TOPIC, p) for p in range(P["n_parts"]) if rng.random() < 0.6] \
                                    or [TopicPartition(TOPIC, 0)]
                                with owned("client"):
                                    client.assign(keep)
                            elif mode == "subscribe_growth":
                                cl.add_partitions(TOPIC, len(cl.topics[TOPIC]) + 1)
                            else:
                                cl.create_topic(f"t{step}x", rng.choice([1, 2]))
                            log("reshape", mode=mode, step=step)
                        except Exception as e:  # noqa: BLE001
                            log("reshape_error", exc=type(e).__name__)
                bg.append(asyncio.ensure_future(reshaper()))
            if wl == "group_consumer" and P["second_member"]:
                async def other_member():
                    OWNER.set("other")
                    c2 = AIOKafkaConsumer(bootstrap_servers=cl.bootstrap(), client_id="other", group_id=GROUP,
                                          auto_offset_reset="earliest", session_timeout_ms=P["session_timeout_ms"],
                                          heartbeat_interval_ms=P["heartbeat_interval_ms"],
                                          rebalance_timeout_ms=P["rebalance_timeout_ms"],
                                          request_timeout_ms=P["request_timeout_ms"], retry_backoff_ms=P["retry_backoff_ms"])
                    c2.subscribe([TOPIC])
                    await asyncio.sleep(rng.uniform(0.0, P["horizon"] * 0.7))
                    try:
                        await c2.start()
                        while not stopping["flag"]:
                            await c2.getmany(timeout_ms=100)
                            await asyncio.sleep(0.01)
                    except Exception:  # noqa: BLE001
                        pass
                    finally:
                        try:
                            await asyncio.wait_for(c2.stop(), 30)
                        except Exception:  # noqa: BLE001
                            pass
                other = asyncio.ensure_future(other_member())

        def disturb():
            tok = OWNER.set("harness")      # at_event callbacks run in whatever context fired the event
            try:
                _disturb()
            finally:
                OWNER.reset(tok)

        def _disturb():
            st = P["cluster"]
            H["cluster_changed_at"] = round(loop.time() - t0, 6)
            victim = rng.choice(sorted(cl.brokers))
            if wl == "group_consumer" and rng.random() < 0.6:
                victim = cl.coordinator_for(GROUP, 0)
            elif rng.random() < 0.6:
                victim = cl.leaders[(TOPIC, 0)]
            H["victim"] = victim
            b = cl.brokers[victim]
            if st in ("refuse", "refuse_listed"):
                b.go_down()
                net.connect_policy[(b.host, b.port)] = "refuse"
            elif st in ("blackhole", "blackhole_listed"):
                b.go_down()
                net.connect_policy[(b.host, b.port)] = "blackhole"
            if st.endswith("_listed"):
                b.listed_while_down = True      # metadata keeps naming it as leader / coordinator host
            elif st == "failover":
                for p in range(P["n_parts"]):
                    cl.move_leader(TOPIC, p)
                if wl == "group_consumer":
                    cl.move_coordinator(GROUP, 0, with_state=rng.random() < 0.5)
            elif st == "restored":
                b.go_down()
                net.connect_policy[(b.host, b.port)] = "refuse"

                def up():
                    net.connect_policy.pop((b.host, b.port), None)
                    b.come_up()
                loop.call_later(rng.uniform(0.2, 2.0), up)

        stop_done = loop.create_future()
        stop_issued = loop.create_future()

        async def do_stop():
            stopping["flag"] = True
            if not stop_issued.done():
                stop_issued.set_result(None)
            coord_reachable = True
            gen = None
            if wl == "group_consumer":
                node = cl.coordinator_for(GROUP, 0)
                b = cl.brokers[node]
                coord_reachable = b.up and net.connect_policy.get((b.host, b.port), "ok") == "ok"
                g = cl.groups.get(GROUP)
                gen = [m for m in (g.members if g else {}) if m.startswith("client-")]
            H["stop"] = {"t_call": round(loop.time() - t0, 6), "event": loop.events, "coordinator_reachable": coord_reachable,
                         "member_ids_at_stop": gen, "t_ret": None, "exc": None}
            try:
                with owned("client"):
                    await client.stop()
            except asyncio.CancelledError:
                H["stop"]["exc"] = "CancelledError"
            except Exception as e:  # noqa: BLE001
                H["stop"]["exc"] = f"{type(e).__name__}: {str(e)[:160]}"
            H["stop"]["t_ret"] = round(loop.time() - t0, 6)
            if not stop_done.done():
                stop_done.set_result(None)

        k = P["stop_at_event"]
        if P["cluster"] != "healthy":
            uk = P.get("unreachable_from_event")
            if uk is not None:
                loop.at_event(uk, disturb)
            elif k is not None:
                loop.at_event(max(loop.events + 1, k - rng.choice([0, 1, 3, 10, 40])), disturb)
            else:
                loop.call_later(P["horizon"] * 0.5, disturb)
        def start_stop():
            tok = OWNER.set("harness")
            try:
                asyncio.ensure_future(do_stop())
            finally:
                OWNER.reset(tok)

        if k is not None:
            loop.at_event(k, start_stop)
        else:
            loop.call_later(P["horizon"], start_stop)
        bound = stop_bound(P)
        H["bound"] = bound
        # wait for stop() to be issued (event k may come late in an idle run), then - counted from that moment - for it
        # to return or HANG_FACTOR x bound to pass
        try:
            await asyncio.wait_for(asyncio.shield(stop_issued), P["horizon"] + 60.0 + 4 * bound)
        except asyncio.TimeoutError:
            pass
        if H["stop"]:
            try:
                await asyncio.wait_for(asyncio.shield(stop_done), HANG_FACTOR * bound)
            except asyncio.TimeoutError:
                H["stop"]["hung"] = True
        if not H["stop"]:
            # event k of the reference run was never reached in this run (the disturbance changed the event sequence)
            H["stop_not_issued"] = True
            for t in bg:
                t.cancel()
            return
        H["events_total"] = loop.events
        # API calls the application had in progress when it stopped the client (a send() waiting for metadata, a
        # getmany() in its timeout) are the application's, not something the client left behind.  They get a bounded
        # time to return on their own (whether they do is recorded as an observation: the statement speaks of LATER
        # calls only), then the application gives them up (cancels its own tasks), then two grace turns of the loop
        # with no virtual time, then the scan.
        if H["stop"].get("t_ret") is not None:
            mine = [t for t in bg if not t.done()]
            if wl != "producer":
                mine = mine[:1]          # the poller; the feeder only touches the simulated logs
            if mine:
                _d, pend = await asyncio.wait(mine, timeout=2 * P["request_timeout_ms"] / 1000.0 + 3.0)
                H["observations"] = {"calls_in_progress_at_stop": len(mine), "of_which_never_returned": len(pend)}
            for t in bg:
                t.cancel()
            await asyncio.wait(bg, timeout=1.0)
        await asyncio.sleep(0)
        await asyncio.sleep(0)
        if H["stop"].get("t_ret") is not None:
            tasks, timers, transports = loop.live_owned("client")
            H["leftovers"] = {
                "tasks": [repr(getattr(t.get_coro(), "__qualname__", t))[:120] for t in tasks],
                "timers": [getattr(cb, "__qualname__", repr(cb))[:120] for (_h, cb) in timers],
                "transports": [f"{tr.link.host}:{tr.link.port}" for tr in transports],
            }
            # later API calls
            try:
                with owned("client"):
                    if wl == "producer":
                        await asyncio.wait_for(client.send(TOPIC, b"late", partition=0), 5.0)
                    else:
                        await asyncio.wait_for(client.getmany(timeout_ms=100), 5.0)
                H["after"]["call"] = "returned normally"
            except asyncio.TimeoutError:
                H["after"]["call"] = "hung"
            except Exception as e:  # noqa: BLE001
                H["after"]["call"] = type(e).__name__
            if wl != "producer":
                try:
                    with owned("client"):
                        await asyncio.wait_for(client.getone(), 5.0)
                    H["after"]["getone"] = "returned normally"
                except asyncio.TimeoutError:
                    H["after"]["getone"] = "hung"
                except Exception as e:  # noqa: BLE001
                    H["after"]["getone"] = type(e).__name__
        for t in bg:
            t.cancel()
        if other is not None:
            try:
                await asyncio.wait_for(other, 60)
            except Exception:  # noqa: BLE001
                other.cancel()

    try:
        run_sim(main, seed=P["seed"], net=net, max_virtual_s=3600, max_events=600000)
    except Exception as e:  # noqa: BLE001
        H["errors"].append(f"{type(e).__name__}: {e}")
    t0 = H.get("t0", 0.0)
    H["leave_group"] = [{"t": round(e["t"] - t0, 6), "member": e.get("member"), "error": e.get("error")}
                        for e in cl.events if e["kind"] == "group" and e["op"] == "LeaveGroup" and e["client_id"] == "client"]
    H["joined"] = any(e["kind"] == "group" and e["op"] == "JoinGroup.reply" and e["client_id"] == "client" and e.get("error") == 0
                      for e in cl.events)
    # event windows of the reference run in which a JoinGroup of the client is waiting for its reply (for targeted stops)
    jw, open_at = [], None
    for e in cl.events:
        if e["kind"] == "group" and e.get("client_id") == "client" and e.get("ev") is not None:
            if e["op"] == "JoinGroup" and open_at is None:
                open_at = e["ev"]
            elif e["op"] == "JoinGroup.reply" and open_at is not None:
                jw.append((open_at, e["ev"]))
                open_at = None
    H["join_windows"] = jw
    H["fatal_group_error_at_event"] = fge_state["fired_ev"]
    H["fault_hits"] = dict(plan.hits)
    H["sim_errors"] = [e for e in cl.events if e["kind"] in ("SIM_ENCODE_ERROR", "undecodable_request", "bad_header",
                                                              "unsupported_request")]
    return H


def judge(H):
    P = H["params"]
    V = []
    st = {"stops_judged": 0, "stops_with_requests_in_flight": 0, "leftover_checks": 0, "later_api_calls_checked": 0,
          "leave_group_checked": 0, "max_stop_duration_ms": 0}
    s = H["stop"]
    if not s:
        return V, st
    st["stops_judged"] = 1
    cls = f"{P['workload']}/{P['cluster']}"
    detail = {"class": cls, "stop": s, "bound": H.get("bound"), "victim": H.get("victim"),
              "cluster_changed_at": H.get("cluster_changed_at"), "leftovers": H.get("leftovers"), "after": H.get("after")}
    if s.get("t_ret") is None or s.get("hung"):
        V.append((f"stop_never_returns:{P['workload']}:{'unreachable' if P['cluster'] in ('refuse', 'blackhole') else ('unreachable_but_listed' if P['cluster'].endswith('_listed') else P['cluster'])}"
                  + (":idempotent" if P["workload"] == "producer" and P["idempotent"] else ""),
                  f"[{cls}] stop() issued at t={s.get('t_call')} (event {s.get('event')}) had not returned after {HANG_FACTOR} x bound "
                  f"({HANG_FACTOR * H.get('bound', 0):.0f}s virtual)", detail))
        return V, st
    dur = s["t_ret"] - s["t_call"]
    st["max_stop_duration_ms"] = int(dur * 1000)
    if s.get("exc"):
        V.append((f"stop_raises_{s['exc'].split(':')[0]}", f"[{cls}] stop() raised {s['exc']}", detail))
    if dur > H["bound"]:
        V.append((f"stop_exceeds_bound:{P['workload']}", f"[{cls}] stop() took {dur:.1f}s of virtual time, bound {H['bound']:.1f}s "
                  f"(request {P['request_timeout_ms']} / session {P['session_timeout_ms']} / rebalance {P['rebalance_timeout_ms']} ms)",
                  detail))
    lo = H.get("leftovers")
    if lo is not None:
        st["leftover_checks"] = 1
        if lo["tasks"]:
            V.append(("task_alive_after_stop", f"[{cls}] tasks of the client still running after stop(): {lo['tasks'][:4]}", detail))
        if lo["timers"]:
            V.append(("timer_alive_after_stop", f"[{cls}] timer handles of the client still scheduled after stop(): {lo['timers'][:4]}",
                      detail))
        if lo["transports"]:
            V.append(("connection_open_after_stop", f"[{cls}] connections of the client still open after stop(): "
                      f"{lo['transports'][:4]}", detail))
    af = H.get("after") or {}
    if af:
        st["later_api_calls_checked"] = len(af)
        want = "ProducerClosed" if P["workload"] == "producer" else "ConsumerStoppedError"
        for name, got in af.items():
            if got != want:
                V.append((f"api_call_after_stop_{'hangs' if got == 'hung' else 'does_not_raise_' + want}",
                          f"[{cls}] {name} after stop(): {got} (expected {want})", detail))
    ob = H.get("observations") or {}
    st["obs_calls_in_progress_at_stop"] = ob.get("calls_in_progress_at_stop", 0)
    st["obs_calls_in_progress_that_never_returned"] = ob.get("of_which_never_returned", 0)
    if P["workload"] == "group_consumer" and H.get("joined") and s.get("coordinator_reachable") and s.get("member_ids_at_stop") \
            and P["cluster"] == "healthy" and not sum(H["fault_hits"].values()):
        st["leave_group_checked"] = 1
        if not [l for l in H["leave_group"] if l["t"] >= s["t_call"] - 1e-9]:
            V.append(("no_leavegroup_on_stop", f"[{cls}] the member {s['member_ids_at_stop']} was in the group and its coordinator "
                      "reachable, but no LeaveGroup arrived after stop() was called", detail))
    return V, st
