"""Program generators for the transactional checks."""
from __future__ import annotations

import itertools
import random

from vf import cluster as C
from vf import txn_sim as T

ALPHABET = ["begin", "send:0", "send:1", "burst:0+1:2", "offsets:7", "offsets:9:multi", "commit", "abort", "ctx_ok:0", "ctx_exc:0", "ctx_slow:1", "ctx_slow_exc:1"]


def c16_faults():
    """(label, fault dict) - one scripted error per transactional request type and class."""
    out = [("none", None)]
    for api, codes in T.ABORTABLE.items():
        out.append((f"abortable@{api}", {"api": api, "nth": 1, "kind": "error", "code": codes[0]}))
    for api, codes in T.FATAL.items():
        for c in codes[:2]:
            out.append((f"fatal{c}@{api}", {"api": api, "nth": 1, "kind": "error", "code": c}))
    for api in ("AddPartitionsToTxn", "AddOffsetsToTxn", "TxnOffsetCommit", "EndTxn", "Produce"):
        out.append((f"retriable@{api}", {"api": api, "nth": 1, "kind": "error", "code": T.RETRIABLE[api][0]}))
        out.append((f"lost_reply@{api}", {"api": api, "nth": 1, "kind": "lose_reply", "code": 0}))
    return out


def c16_sequences(max_len):
    for n in range(1, max_len + 1):
        yield from itertools.product(ALPHABET, repeat=n)


def c16_params(seq, fault, seed, fault_p=0.0):
    return {"seed": seed, "program": list(seq), "fault": fault, "fault_p": fault_p, "n_parts": 2, "request_timeout_ms": 1500,
            "retry_backoff_ms": 50, "settle": True, "marker_delay": 0.0}


def c07_program(rng: random.Random, tier="quick"):
    """-> params dict for one random transactional history."""
    prog = []
    n_txn = rng.choice([1, 2, 3, 4, 6])
    fault = None
    mode = rng.choices(["plain", "abortable", "replace", "kill", "zombie", "fatal_produce"], [6, 2, 1, 1, 1, 1])[0]
    special_at = rng.randrange(n_txn)
    for ti in range(n_txn):
        use_ctx = rng.random() < 0.15
        if use_ctx:
            prog.append(rng.choice(["ctx_ok:0", "ctx_ok:1", "ctx_exc:0", "ctx_slow:2", "ctx_slow_exc:2"]))
            continue
        prog.append("begin")
        for _ in range(rng.randint(0, 5)):
            r = rng.random()
            if r < 0.45:
                prog.append(f"send:{rng.randrange(3)}")
            elif r < 0.7:
                spread = rng.choice(["0+1", "0+1+2", "1+2"]) if rng.random() < 0.3 else str(rng.randrange(3))
                # "spray": the sends are not awaited, the call that ends the transaction may overtake some of them
                kind = "spray" if rng.random() < 0.25 else "burst"
                prog.append(f"{kind}:{spread}:{rng.choice([2, 5, 12, 30] if kind == 'spray' else [2, 5, 12])}")
            elif r < 0.85:
                prog.append(f"offsets:{rng.randint(1, 500)}" + (":multi" if rng.random() < 0.3 else ""))
            elif r < 0.95:
                prog.append(f"sleep:{rng.choice([0.01, 0.2, 1.0])}")
            else:
                prog.append(rng.choice(["move", "gmove"]))
        if ti == special_at and mode in ("replace", "zombie"):
            prog.append("replace")
            if mode == "zombie":
                prog += [rng.choice(["commit", "send:0", "offsets:3", "finish"])]
            prog += ["B.begin", f"B.send:{rng.randrange(3)}", "B.commit"]
            if mode == "zombie":
                prog += [rng.choice(["commit", "abort"])]
            break
        if ti == special_at and mode == "kill":
            prog += ["kill", "replace", "B.begin", f"B.send:{rng.randrange(3)}", "B.commit"]
            break
        prog.append(rng.choice(["commit", "commit", "finish", "abort"]) if mode != "abortable" else rng.choice(["finish", "finish", "abort"]))
    if mode == "fatal_produce":
        # a Produce request of a transaction that spans several partition leaders is rejected with a FATAL error while the
        # commit / abort that follows at once is already waiting for the batches: nothing may be written afterwards
        prog = []
        for ti in range(rng.choice([1, 2])):
            prog += ["begin", f"burst:{rng.choice(['0+1+2', '0+1', '1+2'])}:{rng.choice([3, 6])}"]
            if rng.random() < 0.3:
                prog.append(f"offsets:{rng.randint(1, 500)}")
            prog.append(rng.choice(["commit", "commit", "finish", "abort"]))
        fault = {"api": "Produce", "nth": rng.choice([1, 2, 3]), "kind": "error", "code": rng.choice(T.FATAL["Produce"])}
    if mode == "abortable":
        api = rng.choice(sorted(T.ABORTABLE))
        fault = {"api": api, "nth": rng.choice([1, 2, 3]), "kind": "error", "code": T.ABORTABLE[api][0]}
    return {"seed": rng.randrange(2 ** 31), "program": prog, "fault": fault, "mode": mode,
            "fault_p": rng.choice([0.0, 0.1, 0.25, 0.4]) if mode in ("plain", "replace", "kill", "zombie") else (0.0 if mode == "fatal_produce" else rng.choice([0.0, 0.1])),
            "n_parts": 3, "request_timeout_ms": rng.choice([1500, 3000]), "retry_backoff_ms": rng.choice([50, 100]),
            "settle": rng.random() < 0.3, "marker_delay": rng.choice([0.0, 0.0, 0.05, 0.3]), "linger_ms": rng.choice([0, 0, 20]),
            "max_batch_size": rng.choice([200, 600, 16384]), "coordinator_moves": rng.random() < 0.3}
