"""Independent reference codec for Kafka record formats (message format v0, v1, v2).

Written from the Kafka message-format definition (the protocol guide's "Record Batch" / "Message
sets" sections and KIP-32/KIP-31/KIP-98/KIP-82); it never imports aiokafka.  It serves the broker
simulator (parse produce payloads, assign offsets, build fetch payloads), the log generators and
the C09/C10 checks (independent decoder + strict validator + field locator).

Formats
-------
v0 message-set entry   offset:int64  size:int32  crc:uint32  magic:int8(0)  attributes:int8
                       key:int32-len bytes (-1 = null)  value:int32-len bytes (-1 = null)
v1 message-set entry   ... magic:int8(1) attributes:int8 timestamp:int64 key value
                       crc = CRC-32 (zlib polynomial) over magic..end of the message
                       attributes bits 0-2 codec (0 none, 1 gzip, 2 snappy, 3 lz4), bit 3 timestamp
                       type (v1 only: 0 CreateTime, 1 LogAppendTime)
   compressed wrapper  a message whose codec bits are non-zero; its value is the compressed inner
                       message set.  v1: inner offsets are relative (0..n-1) and the wrapper offset
                       is the absolute offset of the LAST inner message; wrapper timestamp = max
                       inner timestamp (CreateTime) or the append time (LogAppendTime, which then
                       overrides every inner timestamp).  v0: inner offsets are absolute.
v2 record batch        61-byte header: baseOffset:int64 batchLength:int32 partitionLeaderEpoch:int32
                       magic:int8(2) crc:uint32 attributes:int16 lastOffsetDelta:int32
                       firstTimestamp:int64 maxTimestamp:int64 producerId:int64 producerEpoch:int16
                       baseSequence:int32 recordCount:int32, then the records (compressed as one
                       blob when the codec bits are set).  crc = CRC-32C over attributes..end.
                       attributes bits 0-2 codec (4 = zstd), bit 3 timestamp type, bit 4
                       transactional, bit 5 control.
   record              length:varint attributes:int8 timestampDelta:varlong offsetDelta:varint
                       keyLen:varint key valueLen:varint value headerCount:varint
                       {hkeyLen:varint hkey(utf-8) hvalLen:varint hval}*     (zig-zag varints)
   control record      key = version:int16 type:int16 (0 abort, 1 commit); value = version:int16
                       coordinatorEpoch:int32

API (all buffers are bytes-like; all results are bytes)
-------------------------------------------------------
Records given to encoders are tuples ``(offset, timestamp, key, value, headers)``:
  * v2: ``offset`` is the offset DELTA inside the batch (None = position in the list);
  * v0/v1: ``offset`` is the message offset (None = base_offset + position; for v1 compressed
    inner messages the relative offset is always the position);
  * headers: list of (str, bytes|None); ignored for v0/v1; may be omitted (4-tuples accepted).

encode_batch_v2(records, base_offset=0, codec=0, pid=-1, epoch=-1, base_seq=-1,
                transactional=False, control=False, log_append_time=None,
                partition_leader_epoch=-1, snappy_framing="xerial", **overrides) -> bytes
    overrides (for building deliberately odd but decodable batches): first_timestamp,
    max_timestamp, last_offset_delta, record_count, magic.
encode_control_batch(base_offset, pid, epoch, commit, timestamp, coordinator_epoch=0,
                     transactional=True) -> bytes
encode_message(offset, magic, timestamp, key, value, attributes=0) -> bytes      one v0/v1 entry
encode_message_set(records, magic, codec=0, base_offset=0, log_append_time=None,
                   wrapper_offset=None, wrapper_timestamp=None, snappy_framing="xerial") -> bytes
parse_batches(buf, decompress=True) -> [BatchView]      trailing partial batch ignored; raises
    RefFormatError when a complete top-level batch is structurally broken.
validate_batch(buf, *, check_wrapper_offset=False, check_wrapper_timestamp=False) -> [str]
    problems of ONE complete top-level batch, each "code: detail"; [] = well-formed.
validate_buffer(buf, **kw) -> [str]   the same over every batch of a buffer (no partial allowed).
rewrite_base_offset(batch, base_offset) -> bytes        one top-level batch
set_log_append_time(batch, timestamp_ms) -> bytes       one top-level batch (v0: unchanged)
assign_offsets(buf, base_offset, log_append_time=None) -> (bytes, next_offset, n_records)
    what a partition leader does to a produce payload (all top-level batches of ``buf``).
locate_fields(batch) -> ([Field], inner|None)  position/size/kind of every length/count/varint
    field (C10); rewrap_inner(batch, new_inner) re-compresses a mutated inner payload.
Primitives: encode_varint, decode_varint, size_of_varint, zigzag, unzigzag, crc32c, crc32,
compress(codec, data, ...), decompress(codec, data).
"""
from __future__ import annotations

import gzip as _gzip
import struct
import zlib
from dataclasses import dataclass, field

try:  # compression libraries used directly; never through aiokafka.codec
    import cramjam as _cramjam
except ImportError:  # pragma: no cover
    _cramjam = None

CODEC_NONE, CODEC_GZIP, CODEC_SNAPPY, CODEC_LZ4, CODEC_ZSTD = 0, 1, 2, 3, 4
CODEC_NAMES = {0: "none", 1: "gzip", 2: "snappy", 3: "lz4", 4: "zstd"}

ATTR_CODEC_MASK = 0x07
ATTR_TIMESTAMP_TYPE = 0x08
ATTR_TRANSACTIONAL = 0x10
ATTR_CONTROL = 0x20

CREATE_TIME, LOG_APPEND_TIME = 0, 1

V2_HEADER = struct.Struct(">qiibIhiqqqhii")
V2_HEADER_SIZE = 61
assert V2_HEADER.size == V2_HEADER_SIZE
V2_CRC_OFFSET = 17
V2_ATTR_OFFSET = 21
V2_LAST_OFFSET_DELTA_OFFSET = 23
V2_FIRST_TS_OFFSET = 27
V2_MAX_TS_OFFSET = 35
V2_PID_OFFSET = 43
V2_EPOCH_OFFSET = 51
V2_BASE_SEQ_OFFSET = 53
V2_COUNT_OFFSET = 57

LOG_OVERHEAD = 12          # offset:int64 + size:int32, common to all formats
MAGIC_OFFSET = 16          # common to all formats
LEGACY_CRC_OFFSET = 12
LEGACY_ATTR_OFFSET = 17
LEGACY_TS_OFFSET = 18      # v1 only
LEGACY_KEY_OFFSET = {0: 18, 1: 26}
LEGACY_MIN_SIZE = {0: 14, 1: 22}     # value of the size field for null key and null value

XERIAL_MAGIC = b"\x82SNAPPY\x00"
XERIAL_HEADER = XERIAL_MAGIC + struct.pack(">ii", 1, 1)


class RefFormatError(ValueError):
    """The bytes are not a structurally valid batch."""


# --------------------------------------------------------------------------- primitives

def zigzag(n: int) -> int:
    """Signed -> unsigned zig-zag (64-bit)."""
    if n >= 0:
        return n * 2
    return -n * 2 - 1


def unzigzag(u: int) -> int:
    if u % 2 == 0:
        return u // 2
    return -((u + 1) // 2)


def encode_uvarint(u: int) -> bytes:
    if u < 0:
        raise ValueError("negative unsigned varint")
    out = bytearray()
    while True:
        low = u % 128
        u //= 128
        if u:
            out.append(low + 128)
        else:
            out.append(low)
            return bytes(out)


def encode_varint(n: int) -> bytes:
    """Zig-zag varint (Kafka VARINT/VARLONG)."""
    if not -(2 ** 63) <= n < 2 ** 63:
        raise ValueError("varint out of int64 range")
    return encode_uvarint(zigzag(n))


def size_of_varint(n: int) -> int:
    u = zigzag(n)
    size = 1
    while u >= 128:
        u //= 128
        size += 1
    return size


def decode_uvarint(buf, pos: int) -> tuple[int, int]:
    """-> (unsigned value, next pos).  Raises RefFormatError on truncation or > 10 bytes."""
    value = 0
    mult = 1
    n = len(buf)
    for i in range(10):
        if pos + i >= n:
            raise RefFormatError(f"varint truncated at {pos + i}")
        b = buf[pos + i]
        value += (b % 128) * mult
        if b < 128:
            if value >= 2 ** 64:
                raise RefFormatError(f"varint at {pos} exceeds 64 bits")
            return value, pos + i + 1
        mult *= 128
    raise RefFormatError(f"varint at {pos} longer than 10 bytes")


def decode_varint(buf, pos: int = 0) -> tuple[int, int]:
    u, pos = decode_uvarint(buf, pos)
    return unzigzag(u), pos


def _make_crc32c_table():
    poly = 0x82F63B78  # reflected Castagnoli polynomial 0x1EDC6F41
    table = []
    for i in range(256):
        c = i
        for _ in range(8):
            c = (c >> 1) ^ poly if c & 1 else c >> 1
        table.append(c)
    return table


_CRC32C_TABLE = _make_crc32c_table()


def crc32c(data, crc: int = 0) -> int:
    """CRC-32C (Castagnoli), reflected, init/xorout 0xFFFFFFFF; crc32c(b'123456789') = 0xE3069283."""
    c = crc ^ 0xFFFFFFFF
    table = _CRC32C_TABLE
    for b in bytes(data):
        c = table[(c ^ b) & 0xFF] ^ (c >> 8)
    return c ^ 0xFFFFFFFF


assert crc32c(b"123456789") == 0xE3069283


def crc32(data) -> int:
    return zlib.crc32(bytes(data)) & 0xFFFFFFFF


# --------------------------------------------------------------------------- compression

def _need_cramjam():
    if _cramjam is None:  # pragma: no cover
        raise RuntimeError("cramjam is required for snappy/lz4/zstd")


def snappy_xerial_encode(data: bytes, blocksize: int = 32 * 1024) -> bytes:
    _need_cramjam()
    out = bytearray(XERIAL_HEADER)
    for i in range(0, len(data), blocksize):
        block = bytes(_cramjam.snappy.compress_raw(data[i:i + blocksize]))
        out += struct.pack(">i", len(block))
        out += block
    return bytes(out)


def snappy_decode(data: bytes) -> bytes:
    """Accepts xerial-framed (snappy-java SnappyOutputStream) and raw snappy."""
    _need_cramjam()
    data = bytes(data)
    if data[:8] == XERIAL_MAGIC and len(data) >= 16:
        pos = 16
        out = bytearray()
        while pos < len(data):
            if pos + 4 > len(data):
                raise RefFormatError("xerial block length truncated")
            (n,) = struct.unpack_from(">i", data, pos)
            pos += 4
            if n < 0 or pos + n > len(data):
                raise RefFormatError("xerial block overruns payload")
            out += bytes(_cramjam.snappy.decompress_raw(data[pos:pos + n]))
            pos += n
        return bytes(out)
    return bytes(_cramjam.snappy.decompress_raw(data))


def compress(codec: int, data: bytes, snappy_framing: str = "xerial") -> bytes:
    data = bytes(data)
    if codec == CODEC_NONE:
        return data
    if codec == CODEC_GZIP:
        return _gzip.compress(data, compresslevel=6, mtime=0)
    _need_cramjam()
    if codec == CODEC_SNAPPY:
        if snappy_framing == "raw":
            return bytes(_cramjam.snappy.compress_raw(data))
        return snappy_xerial_encode(data)
    if codec == CODEC_LZ4:
        # LZ4 frame format with independent blocks (KIP-57), no content checksum
        c = _cramjam.lz4.Compressor(level=4, content_checksum=False, block_linked=False)
        c.compress(data)
        return bytes(c.finish())
    if codec == CODEC_ZSTD:
        return bytes(_cramjam.zstd.compress(data, level=3))
    raise ValueError(f"unknown codec {codec}")


def decompress(codec: int, data: bytes) -> bytes:
    data = bytes(data)
    try:
        if codec == CODEC_NONE:
            return data
        if codec == CODEC_GZIP:
            d = zlib.decompressobj(wbits=31)
            out = d.decompress(data)
            if not d.eof:
                raise RefFormatError("gzip stream truncated")
            return out
        _need_cramjam()
        if codec == CODEC_SNAPPY:
            return snappy_decode(data)
        if codec == CODEC_LZ4:
            return bytes(_cramjam.lz4.decompress(data))
        if codec == CODEC_ZSTD:
            return bytes(_cramjam.zstd.decompress(data))
    except RefFormatError:
        raise
    except Exception as e:  # library-specific error types
        raise RefFormatError(f"{CODEC_NAMES.get(codec, codec)} payload does not decompress: {e!r}") from e
    raise RefFormatError(f"unknown codec {codec}")


# --------------------------------------------------------------------------- views

@dataclass
class RecordView:
    offset: int
    timestamp: int | None          # None for v0
    key: bytes | None
    value: bytes | None
    headers: list = field(default_factory=list)     # [(str, bytes|None)]
    # raw detail (not part of the logical value)
    offset_delta: int | None = None
    timestamp_delta: int | None = None
    attributes: int = 0
    crc: int | None = None          # v0/v1 per-message crc


@dataclass
class BatchView:
    magic: int
    base_offset: int
    last_offset: int
    length: int                    # total bytes of this top-level batch (12 + size field)
    attributes: int
    codec: int
    is_transactional: bool
    is_control: bool
    timestamp_type: int | None     # None for v0
    pid: int
    epoch: int
    base_seq: int
    first_timestamp: int | None
    max_timestamp: int | None
    crc_ok: bool
    records: list
    raw: bytes
    # extra
    crc: int = 0
    partition_leader_epoch: int = -1
    last_offset_delta: int | None = None
    record_count: int | None = None
    start: int = 0                 # position of this batch inside the parsed buffer
    wrapper_timestamp: int | None = None   # v1 wrapper/message timestamp field

    @property
    def next_offset(self) -> int:
        return self.last_offset + 1

    def control_type(self):
        """(version, type) of a control batch's first record key, else None."""
        if not self.is_control or not self.records or self.records[0].key is None:
            return None
        k = self.records[0].key
        if len(k) < 4:
            return None
        return struct.unpack_from(">hh", k)


@dataclass
class Field:
    """A length/count/size field located inside one top-level batch (for hostile substitution)."""
    name: str
    pos: int          # byte position inside the container
    size: int         # encoded size in bytes
    kind: str         # "int32" | "int16" | "int64" | "varint"
    value: int
    container: str    # "outer" = the batch bytes themselves; "inner" = decompressed payload


# --------------------------------------------------------------------------- v2 encode

def _norm_record(rec):
    if len(rec) == 4:
        off, ts, key, value = rec
        headers = []
    else:
        off, ts, key, value, headers = rec
    return off, ts, key, value, list(headers or [])


def encode_record_v2(offset_delta: int, timestamp_delta: int, key, value, headers=(), attributes: int = 0) -> bytes:
    body = bytearray()
    body += struct.pack(">b", attributes)
    body += encode_varint(timestamp_delta)
    body += encode_varint(offset_delta)
    if key is None:
        body += encode_varint(-1)
    else:
        body += encode_varint(len(key))
        body += bytes(key)
    if value is None:
        body += encode_varint(-1)
    else:
        body += encode_varint(len(value))
        body += bytes(value)
    body += encode_varint(len(headers))
    for hk, hv in headers:
        hkb = hk.encode("utf-8") if isinstance(hk, str) else bytes(hk)
        body += encode_varint(len(hkb))
        body += hkb
        if hv is None:
            body += encode_varint(-1)
        else:
            body += encode_varint(len(hv))
            body += bytes(hv)
    return encode_varint(len(body)) + bytes(body)


def _assemble_v2(base_offset, partition_leader_epoch, magic, attributes, last_offset_delta, first_ts,
                 max_ts, pid, epoch, base_seq, count, payload: bytes) -> bytes:
    total = V2_HEADER_SIZE + len(payload)
    buf = bytearray(total)
    V2_HEADER.pack_into(buf, 0, base_offset, total - LOG_OVERHEAD, partition_leader_epoch, magic, 0,
                        attributes, last_offset_delta, first_ts, max_ts, pid, epoch, base_seq, count)
    buf[V2_HEADER_SIZE:] = payload
    struct.pack_into(">I", buf, V2_CRC_OFFSET, crc32c(buf[V2_ATTR_OFFSET:]))
    return bytes(buf)


def encode_batch_v2(records, base_offset=0, codec=0, pid=-1, epoch=-1, base_seq=-1, transactional=False,
                    control=False, log_append_time=None, partition_leader_epoch=-1,
                    snappy_framing="xerial", first_timestamp=None, max_timestamp=None,
                    last_offset_delta=None, record_count=None, magic=2) -> bytes:
    recs = [_norm_record(r) for r in records]
    deltas = [(i if r[0] is None else r[0]) for i, r in enumerate(recs)]
    tss = [r[1] for r in recs]
    if first_timestamp is None:
        first_timestamp = tss[0] if tss else -1
    if max_timestamp is None:
        if log_append_time is not None:
            max_timestamp = log_append_time
        else:
            max_timestamp = max(tss) if tss else -1
    if last_offset_delta is None:
        last_offset_delta = deltas[-1] if deltas else 0
    if record_count is None:
        record_count = len(recs)
    payload = b"".join(
        encode_record_v2(d, r[1] - first_timestamp, r[2], r[3], r[4]) for d, r in zip(deltas, recs))
    attributes = codec & ATTR_CODEC_MASK
    if log_append_time is not None:
        attributes |= ATTR_TIMESTAMP_TYPE
    if transactional:
        attributes |= ATTR_TRANSACTIONAL
    if control:
        attributes |= ATTR_CONTROL
    if codec:
        payload = compress(codec, payload, snappy_framing)
    return _assemble_v2(base_offset, partition_leader_epoch, magic, attributes, last_offset_delta,
                        first_timestamp, max_timestamp, pid, epoch, base_seq, record_count, payload)


def encode_control_batch(base_offset, pid, epoch, commit: bool, timestamp, coordinator_epoch=0,
                         transactional=True, partition_leader_epoch=-1) -> bytes:
    key = struct.pack(">hh", 0, 1 if commit else 0)
    value = struct.pack(">hi", 0, coordinator_epoch)
    return encode_batch_v2([(0, timestamp, key, value, [])], base_offset=base_offset, pid=pid, epoch=epoch,
                           base_seq=-1, transactional=transactional, control=True,
                           partition_leader_epoch=partition_leader_epoch)


# --------------------------------------------------------------------------- v0/v1 encode

def encode_message(offset, magic, timestamp, key, value, attributes=0) -> bytes:
    if magic not in (0, 1):
        raise ValueError("legacy magic must be 0 or 1")
    body = bytearray()
    body += struct.pack(">bb", magic, attributes)
    if magic == 1:
        body += struct.pack(">q", -1 if timestamp is None else timestamp)
    for blob in (key, value):
        if blob is None:
            body += struct.pack(">i", -1)
        else:
            body += struct.pack(">i", len(blob))
            body += bytes(blob)
    crc = crc32(body)
    return struct.pack(">qiI", offset, len(body) + 4, crc) + bytes(body)


def encode_message_set(records, magic, codec=0, base_offset=0, log_append_time=None, wrapper_offset=None,
                       wrapper_timestamp=None, snappy_framing="xerial") -> bytes:
    """Uncompressed: one entry per record.  Compressed: ONE wrapper message around all records."""
    recs = [_norm_record(r) for r in records]
    ts_attr = ATTR_TIMESTAMP_TYPE if (magic == 1 and log_append_time is not None) else 0
    if not codec:
        out = bytearray()
        for i, (off, ts, key, value, _h) in enumerate(recs):
            off = base_offset + i if off is None else off
            if ts_attr:
                ts = log_append_time
            out += encode_message(off, magic, ts, key, value, ts_attr)
        return bytes(out)
    inner = bytearray()
    abs_offsets = []
    for i, (off, ts, key, value, _h) in enumerate(recs):
        abs_off = base_offset + i if off is None else off
        abs_offsets.append(abs_off)
        inner_off = i if magic == 1 else abs_off
        inner += encode_message(inner_off, magic, ts, key, value, 0)
    if wrapper_offset is None:
        wrapper_offset = abs_offsets[-1] if abs_offsets else base_offset
    if wrapper_timestamp is None:
        if magic == 1:
            if log_append_time is not None:
                wrapper_timestamp = log_append_time
            else:
                tss = [r[1] for r in recs if r[1] is not None]
                wrapper_timestamp = max(tss) if tss else -1
    payload = compress(codec, bytes(inner), snappy_framing)
    return encode_message(wrapper_offset, magic, wrapper_timestamp, None, payload,
                          (codec & ATTR_CODEC_MASK) | ts_attr)


# --------------------------------------------------------------------------- parsing

def _parse_v2_records(payload, count, base_offset, first_ts, max_ts, log_append, problems=None,
                      fields=None, container="outer", pos0=0):
    """Parse ``count`` records from payload[pos0:].  With ``problems`` (a list) it is lenient and
    appends problem strings instead of raising where it can continue."""
    recs = []
    pos = pos0
    n = len(payload)

    def bad(code, detail):
        if problems is None:
            raise RefFormatError(f"{code}: {detail}")
        problems.append(f"{code}: {detail}")

    def fld(name, p0, p1, value):
        if fields is not None:
            fields.append(Field(name, p0, p1 - p0, "varint", value, container))

    for i in range(max(count, 0)):
        p0 = pos
        length, pos = decode_varint(payload, pos)
        fld(f"rec{i}.length", p0, pos, length)
        start = pos
        if length < 0 or start + length > n:
            raise RefFormatError(f"record_length: record {i} length {length} does not fit ({n - start} left)")
        end = start + length
        if pos >= end:
            raise RefFormatError(f"record_short: record {i} has no attributes byte")
        attrs = payload[pos]
        if attrs >= 128:
            attrs -= 256
        pos += 1
        if attrs != 0:
            bad("record_attributes", f"record {i} attributes {attrs} (must be 0)")
        p0 = pos
        ts_delta, pos = decode_varint(payload, pos)
        fld(f"rec{i}.timestamp_delta", p0, pos, ts_delta)
        p0 = pos
        off_delta, pos = decode_varint(payload, pos)
        fld(f"rec{i}.offset_delta", p0, pos, off_delta)
        p0 = pos
        klen, pos = decode_varint(payload, pos)
        fld(f"rec{i}.key_length", p0, pos, klen)
        if klen < -1:
            bad("key_length", f"record {i} key length {klen}")
            klen = -1
        key = None
        if klen >= 0:
            if pos + klen > end:
                raise RefFormatError(f"key_overrun: record {i} key length {klen} overruns the record")
            key = bytes(payload[pos:pos + klen])
            pos += klen
        p0 = pos
        vlen, pos = decode_varint(payload, pos)
        fld(f"rec{i}.value_length", p0, pos, vlen)
        if vlen < -1:
            bad("value_length", f"record {i} value length {vlen}")
            vlen = -1
        value = None
        if vlen >= 0:
            if pos + vlen > end:
                raise RefFormatError(f"value_overrun: record {i} value length {vlen} overruns the record")
            value = bytes(payload[pos:pos + vlen])
            pos += vlen
        p0 = pos
        hcount, pos = decode_varint(payload, pos)
        fld(f"rec{i}.header_count", p0, pos, hcount)
        if hcount < 0:
            raise RefFormatError(f"header_count: record {i} header count {hcount}")
        headers = []
        for h in range(hcount):
            p0 = pos
            hklen, pos = decode_varint(payload, pos)
            fld(f"rec{i}.h{h}.key_length", p0, pos, hklen)
            if hklen < 0:
                raise RefFormatError(f"header_key_length: record {i} header {h} key length {hklen}")
            if pos + hklen > end:
                raise RefFormatError(f"header_key_overrun: record {i} header {h}")
            raw = bytes(payload[pos:pos + hklen])
            pos += hklen
            try:
                hk = raw.decode("utf-8")
            except UnicodeDecodeError:
                bad("header_key_utf8", f"record {i} header {h} key is not UTF-8")
                hk = raw.decode("utf-8", "replace")
            p0 = pos
            hvlen, pos = decode_varint(payload, pos)
            fld(f"rec{i}.h{h}.value_length", p0, pos, hvlen)
            if hvlen < -1:
                bad("header_value_length", f"record {i} header {h} value length {hvlen}")
                hvlen = -1
            hv = None
            if hvlen >= 0:
                if pos + hvlen > end:
                    raise RefFormatError(f"header_value_overrun: record {i} header {h}")
                hv = bytes(payload[pos:pos + hvlen])
                pos += hvlen
            headers.append((hk, hv))
        if pos != end:
            raise RefFormatError(f"record_length_mismatch: record {i} declared {length} bytes, fields use {pos - start}")
        ts = max_ts if log_append else first_ts + ts_delta
        recs.append(RecordView(base_offset + off_delta, ts, key, value, headers, offset_delta=off_delta,
                               timestamp_delta=ts_delta, attributes=attrs))
    if pos != n:
        raise RefFormatError(f"trailing_bytes: {n - pos} bytes after the last record")
    return recs


def _parse_v2(buf, start, total, decompress_records=True):
    raw = bytes(buf[start:start + total])
    if total < V2_HEADER_SIZE:
        raise RefFormatError(f"v2_short: batch of {total} bytes is shorter than the 61-byte header")
    (base_offset, length, ple, magic, crc, attrs, lod, first_ts, max_ts, pid, epoch, base_seq,
     count) = V2_HEADER.unpack_from(raw, 0)
    codec = attrs & ATTR_CODEC_MASK
    log_append = bool(attrs & ATTR_TIMESTAMP_TYPE)
    bv = BatchView(
        magic=magic, base_offset=base_offset, last_offset=base_offset + lod, length=total, attributes=attrs,
        codec=codec, is_transactional=bool(attrs & ATTR_TRANSACTIONAL), is_control=bool(attrs & ATTR_CONTROL),
        timestamp_type=LOG_APPEND_TIME if log_append else CREATE_TIME, pid=pid, epoch=epoch, base_seq=base_seq,
        first_timestamp=first_ts, max_timestamp=max_ts, crc_ok=(crc32c(raw[V2_ATTR_OFFSET:]) == crc),
        records=[], raw=raw, crc=crc, partition_leader_epoch=ple, last_offset_delta=lod, record_count=count,
        start=start)
    if decompress_records:
        payload = raw[V2_HEADER_SIZE:]
        if codec:
            payload = decompress(codec, payload)
        bv.records = _parse_v2_records(payload, count, base_offset, first_ts, max_ts, log_append)
    return bv


def _parse_legacy_message(buf, pos, limit):
    """One message-set entry at buf[pos:]; returns (dict, next_pos).  Raises on structural errors."""
    if pos + LOG_OVERHEAD > limit:
        raise RefFormatError("legacy_truncated: entry header truncated")
    offset, size = struct.unpack_from(">qi", buf, pos)
    if size < LEGACY_MIN_SIZE[0]:
        raise RefFormatError(f"legacy_size: message size {size} below the minimum")
    end = pos + LOG_OVERHEAD + size
    if end > limit:
        raise RefFormatError("legacy_truncated: message overruns the buffer")
    crc, magic, attrs = struct.unpack_from(">Ibb", buf, pos + LEGACY_CRC_OFFSET)
    if magic not in (0, 1):
        raise RefFormatError(f"legacy_magic: magic {magic}")
    if size < LEGACY_MIN_SIZE[magic]:
        raise RefFormatError(f"legacy_size: message size {size} below the v{magic} minimum")
    ts = None
    if magic == 1:
        (ts,) = struct.unpack_from(">q", buf, pos + LEGACY_TS_OFFSET)
    p = pos + LEGACY_KEY_OFFSET[magic]
    key_pos = p
    (klen,) = struct.unpack_from(">i", buf, p)
    p += 4
    key = None
    if klen < -1:
        raise RefFormatError(f"legacy_key_length: {klen}")
    if klen >= 0:
        if p + klen + 4 > end:
            raise RefFormatError("legacy_key_overrun: key overruns the message")
        key = bytes(buf[p:p + klen])
        p += klen
    value_pos = p
    (vlen,) = struct.unpack_from(">i", buf, p)
    p += 4
    value = None
    if vlen < -1:
        raise RefFormatError(f"legacy_value_length: {vlen}")
    if vlen >= 0:
        if p + vlen > end:
            raise RefFormatError("legacy_value_overrun: value overruns the message")
        value = bytes(buf[p:p + vlen])
        p += vlen
    if p != end:
        raise RefFormatError(f"legacy_size_mismatch: size field {size}, fields use {p - pos - LOG_OVERHEAD}")
    msg = dict(offset=offset, size=size, crc=crc, magic=magic, attrs=attrs, timestamp=ts, key=key, value=value,
               crc_ok=(crc32(buf[pos + MAGIC_OFFSET:end]) == crc), pos=pos, end=end, key_pos=key_pos,
               value_pos=value_pos)
    return msg, end


def _parse_inner_set(inner, magic):
    msgs = []
    pos = 0
    while pos < len(inner):
        m, pos = _parse_legacy_message(inner, pos, len(inner))
        msgs.append(m)
    return msgs


def _parse_legacy(buf, start, total, decompress_records=True):
    raw = bytes(buf[start:start + total])
    m, end = _parse_legacy_message(raw, 0, total)
    magic = m["magic"]
    attrs = m["attrs"]
    codec = attrs & ATTR_CODEC_MASK
    ts_type = None if magic == 0 else (LOG_APPEND_TIME if attrs & ATTR_TIMESTAMP_TYPE else CREATE_TIME)
    bv = BatchView(
        magic=magic, base_offset=m["offset"], last_offset=m["offset"], length=total, attributes=attrs, codec=codec,
        is_transactional=False, is_control=False, timestamp_type=ts_type, pid=-1, epoch=-1, base_seq=-1,
        first_timestamp=m["timestamp"], max_timestamp=m["timestamp"], crc_ok=m["crc_ok"], records=[], raw=raw,
        crc=m["crc"], start=start, wrapper_timestamp=m["timestamp"])
    if not codec:
        bv.records = [RecordView(m["offset"], m["timestamp"], m["key"], m["value"], [], attributes=attrs,
                                 crc=m["crc"])]
        bv.record_count = 1
        return bv
    if not decompress_records:
        return bv
    if m["value"] is None:
        raise RefFormatError("wrapper_null_value: compressed wrapper has a null value")
    inner = decompress(codec, m["value"])
    msgs = _parse_inner_set(inner, magic)
    if not msgs:
        raise RefFormatError("wrapper_empty: compressed wrapper holds no message")
    abs_base = -1
    if magic == 1:
        abs_base = m["offset"] - msgs[-1]["offset"]
    recs = []
    for im in msgs:
        off = im["offset"] + abs_base if abs_base >= 0 else im["offset"]
        ts = im["timestamp"]
        if ts_type == LOG_APPEND_TIME:
            ts = m["timestamp"]
        recs.append(RecordView(off, ts, im["key"], im["value"], [], offset_delta=im["offset"],
                               attributes=im["attrs"], crc=im["crc"]))
    bv.records = recs
    bv.record_count = len(recs)
    bv.base_offset = recs[0].offset
    bv.last_offset = m["offset"] if abs_base >= 0 or magic == 0 else recs[-1].offset
    tss = [r.timestamp for r in recs if r.timestamp is not None]
    if tss:
        bv.first_timestamp = tss[0]
        bv.max_timestamp = max(tss)
    return bv


def split_batches(buf) -> list[tuple[int, int, int]]:
    """[(start, total_length, magic)] of every COMPLETE top-level batch; trailing partial ignored."""
    out = []
    pos = 0
    n = len(buf)
    while n - pos >= LOG_OVERHEAD:
        (size,) = struct.unpack_from(">i", buf, pos + 8)
        if size < LEGACY_MIN_SIZE[0]:
            raise RefFormatError(f"batch_size: size field {size} at {pos} below the minimum record overhead")
        total = LOG_OVERHEAD + size
        if pos + total > n:
            break
        magic = buf[pos + MAGIC_OFFSET]
        if magic >= 128:
            magic -= 256
        out.append((pos, total, magic))
        pos += total
    return out


def parse_batches(buf, decompress=True) -> list[BatchView]:
    buf = bytes(buf)
    views = []
    for start, total, magic in split_batches(buf):
        if magic >= 2:
            views.append(_parse_v2(buf, start, total, decompress))
        else:
            views.append(_parse_legacy(buf, start, total, decompress))
    return views


# --------------------------------------------------------------------------- validation

_INT32_MAX = 2 ** 31 - 1


def _validate_v2(raw, problems):
    if len(raw) < V2_HEADER_SIZE:
        problems.append(f"v2_short: {len(raw)} bytes, header needs 61")
        return
    (base_offset, length, ple, magic, crc, attrs, lod, first_ts, max_ts, pid, epoch, base_seq,
     count) = V2_HEADER.unpack_from(raw, 0)
    if length != len(raw) - LOG_OVERHEAD:
        problems.append(f"batch_length: length field {length}, actual {len(raw) - LOG_OVERHEAD}")
    if magic != 2:
        problems.append(f"magic: {magic}")
    if crc32c(raw[V2_ATTR_OFFSET:]) != crc:
        problems.append(f"crc: stored {crc:#010x}, CRC-32C(attributes..end) = {crc32c(raw[V2_ATTR_OFFSET:]):#010x}")
    if attrs & ~0x3F:
        problems.append(f"attributes_unused_bits: {attrs:#06x}")
    codec = attrs & ATTR_CODEC_MASK
    if codec > CODEC_ZSTD:
        problems.append(f"codec: {codec}")
        return
    if base_offset < 0:
        problems.append(f"base_offset: {base_offset}")
    if count < 0:
        problems.append(f"record_count: {count}")
        return
    transactional = bool(attrs & ATTR_TRANSACTIONAL)
    control = bool(attrs & ATTR_CONTROL)
    if pid < -1:
        problems.append(f"producer_id: {pid}")
    if pid == -1 and transactional:
        problems.append("producer_fields: transactional batch without a producer id")
    if pid >= 0 and epoch < 0:
        problems.append(f"producer_fields: producer id {pid} with epoch {epoch}")
    if base_seq < -1:
        problems.append(f"base_sequence: {base_seq}")
    payload = raw[V2_HEADER_SIZE:]
    if codec:
        try:
            payload = decompress(codec, payload)
        except RefFormatError as e:
            problems.append(f"compressed_payload: {e}")
            return
    log_append = bool(attrs & ATTR_TIMESTAMP_TYPE)
    try:
        recs = _parse_v2_records(payload, count, base_offset, first_ts, max_ts, log_append, problems)
    except RefFormatError as e:
        problems.append(str(e))
        return
    if recs:
        deltas = [r.offset_delta for r in recs]
        if deltas[-1] != lod:
            problems.append(f"last_offset_delta: header {lod}, last record has {deltas[-1]}")
        if any(d < 0 or d > _INT32_MAX for d in deltas):
            problems.append(f"offset_delta_range: {deltas[:8]}")
        if any(b <= a for a, b in zip(deltas, deltas[1:])):
            problems.append(f"offset_delta_order: not strictly increasing {deltas[:8]}")
        if recs[0].timestamp_delta != 0:
            problems.append(f"first_timestamp: header {first_ts}, first record is at delta {recs[0].timestamp_delta}")
        if not log_append:
            mx = max(first_ts + r.timestamp_delta for r in recs)
            if mx != max_ts:
                problems.append(f"max_timestamp: header {max_ts}, records give {mx}")
    else:
        if lod != 0 and count == 0:
            pass  # empty (compacted-away) batches keep their last offset delta
    if lod < 0:
        problems.append(f"last_offset_delta: {lod}")
    if control:
        if not recs:
            problems.append("control_empty: control batch without record")
        for i, r in enumerate(recs):
            if r.key is None or len(r.key) < 4:
                problems.append(f"control_key: record {i} key is not version:int16 type:int16")


def _validate_legacy(raw, problems, check_wrapper_offset, check_wrapper_timestamp):
    try:
        m, end = _parse_legacy_message(raw, 0, len(raw))
    except RefFormatError as e:
        problems.append(str(e))
        return
    if end != len(raw):
        problems.append(f"batch_length: size field covers {end} of {len(raw)} bytes")
    magic, attrs = m["magic"], m["attrs"]
    if not m["crc_ok"]:
        problems.append(f"crc: stored {m['crc']:#010x} does not match CRC-32(magic..end)")
    if attrs & ~0x0F:
        problems.append(f"attributes_unused_bits: {attrs:#04x}")
    if magic == 0 and attrs & ATTR_TIMESTAMP_TYPE:
        problems.append("attributes_timestamp_type_v0: timestamp-type bit set on a v0 message")
    codec = attrs & ATTR_CODEC_MASK
    if codec > CODEC_LZ4:
        problems.append(f"codec: {codec}")
        return
    if magic == 1 and m["timestamp"] < -1:
        problems.append(f"timestamp: {m['timestamp']}")
    if not codec:
        return
    if m["value"] is None:
        problems.append("wrapper_null_value: compressed wrapper with null value")
        return
    try:
        inner = decompress(codec, m["value"])
    except RefFormatError as e:
        problems.append(f"compressed_payload: {e}")
        return
    try:
        msgs = _parse_inner_set(inner, magic)
    except RefFormatError as e:
        problems.append(f"inner: {e}")
        return
    if not msgs:
        problems.append("wrapper_empty: no inner message")
        return
    for i, im in enumerate(msgs):
        if im["magic"] != magic:
            problems.append(f"inner_magic: inner message {i} magic {im['magic']} in a v{magic} wrapper")
        if im["attrs"] & ATTR_CODEC_MASK:
            problems.append(f"inner_compressed: inner message {i} is itself compressed")
        if not im["crc_ok"]:
            problems.append(f"inner_crc: inner message {i}")
    offs = [im["offset"] for im in msgs]
    if any(b <= a for a, b in zip(offs, offs[1:])):
        problems.append(f"inner_offset_order: {offs[:8]}")
    if magic == 1:
        if offs != list(range(len(offs))):
            problems.append(f"inner_relative_offsets: expected 0..{len(offs) - 1}, got {offs[:8]}")
        if check_wrapper_offset and m["offset"] < offs[-1]:
            problems.append(f"wrapper_offset: {m['offset']} below the last relative offset {offs[-1]}")
        if check_wrapper_timestamp and not attrs & ATTR_TIMESTAMP_TYPE:
            mx = max(im["timestamp"] for im in msgs)
            if m["timestamp"] != mx:
                problems.append(f"wrapper_timestamp: {m['timestamp']}, max inner timestamp {mx}")
    elif check_wrapper_offset and m["offset"] != offs[-1]:
        problems.append(f"wrapper_offset: {m['offset']}, last inner offset {offs[-1]}")


def validate_batch(buf, *, check_wrapper_offset=False, check_wrapper_timestamp=False) -> list[str]:
    """Well-formedness problems of ONE complete top-level batch; each entry is 'code: detail'."""
    raw = bytes(buf)
    problems: list[str] = []
    if len(raw) < LOG_OVERHEAD + LEGACY_MIN_SIZE[0]:
        return [f"too_short: {len(raw)} bytes"]
    (size,) = struct.unpack_from(">i", raw, 8)
    if LOG_OVERHEAD + size != len(raw):
        problems.append(f"batch_length: size field {size}, actual {len(raw) - LOG_OVERHEAD}")
        return problems
    magic = raw[MAGIC_OFFSET]
    if magic == 2:
        _validate_v2(raw, problems)
    elif magic in (0, 1):
        _validate_legacy(raw, problems, check_wrapper_offset, check_wrapper_timestamp)
    else:
        problems.append(f"magic: {magic}")
    return problems


def validate_buffer(buf, **kw) -> list[str]:
    raw = bytes(buf)
    problems = []
    pos = 0
    idx = 0
    while pos < len(raw):
        if len(raw) - pos < LOG_OVERHEAD:
            problems.append(f"trailing_partial: {len(raw) - pos} bytes at {pos}")
            break
        (size,) = struct.unpack_from(">i", raw, pos + 8)
        total = LOG_OVERHEAD + size
        if size < LEGACY_MIN_SIZE[0] or pos + total > len(raw):
            problems.append(f"batch_length: batch {idx} at {pos} size field {size}, {len(raw) - pos} bytes left")
            break
        problems.extend(f"batch {idx}: {p}" for p in validate_batch(raw[pos:pos + total], **kw))
        pos += total
        idx += 1
    return problems


# --------------------------------------------------------------------------- broker-side rewriting

def _only_batch(batch) -> tuple[bytes, int]:
    raw = bytes(batch)
    if len(raw) < LOG_OVERHEAD + LEGACY_MIN_SIZE[0]:
        raise RefFormatError("batch too short")
    (size,) = struct.unpack_from(">i", raw, 8)
    if LOG_OVERHEAD + size != len(raw):
        raise RefFormatError("not exactly one top-level batch")
    return raw, raw[MAGIC_OFFSET]


def _reseal_legacy(raw: bytearray) -> bytes:
    struct.pack_into(">I", raw, LEGACY_CRC_OFFSET, crc32(raw[MAGIC_OFFSET:]))
    return bytes(raw)


def rewrite_base_offset(batch, base_offset: int) -> bytes:
    """Give one top-level batch the offsets base_offset.. as a partition leader would.

    v2: patch baseOffset (outside the CRC region).  v0/v1 plain message: patch its offset.
    v1 wrapper: wrapper offset = base_offset + last relative offset (inner stays relative).
    v0 wrapper: inner offsets are absolute, so the inner set is rewritten and re-compressed."""
    raw, magic = _only_batch(batch)
    out = bytearray(raw)
    if magic >= 2:
        struct.pack_into(">q", out, 0, base_offset)
        return bytes(out)
    attrs = raw[LEGACY_ATTR_OFFSET]
    codec = attrs & ATTR_CODEC_MASK
    if not codec:
        struct.pack_into(">q", out, 0, base_offset)
        return bytes(out)
    m, _ = _parse_legacy_message(raw, 0, len(raw))
    inner = decompress(codec, m["value"])
    msgs = _parse_inner_set(inner, magic)
    if magic == 1:
        struct.pack_into(">q", out, 0, base_offset + msgs[-1]["offset"])
        return bytes(out)
    new_inner = bytearray(inner)
    for i, im in enumerate(msgs):
        struct.pack_into(">q", new_inner, im["pos"], base_offset + i)
    framing = "xerial" if m["value"][:8] == XERIAL_MAGIC else "raw"
    payload = compress(codec, bytes(new_inner), framing)
    return encode_message(base_offset + len(msgs) - 1, 0, None, m["key"], payload, attrs)


def set_log_append_time(batch, timestamp_ms: int) -> bytes:
    raw, magic = _only_batch(batch)
    out = bytearray(raw)
    if magic >= 2:
        (attrs,) = struct.unpack_from(">h", out, V2_ATTR_OFFSET)
        struct.pack_into(">h", out, V2_ATTR_OFFSET, attrs | ATTR_TIMESTAMP_TYPE)
        struct.pack_into(">q", out, V2_MAX_TS_OFFSET, timestamp_ms)
        struct.pack_into(">I", out, V2_CRC_OFFSET, crc32c(out[V2_ATTR_OFFSET:]))
        return bytes(out)
    if magic == 0:
        return raw
    out[LEGACY_ATTR_OFFSET] = raw[LEGACY_ATTR_OFFSET] | ATTR_TIMESTAMP_TYPE
    struct.pack_into(">q", out, LEGACY_TS_OFFSET, timestamp_ms)
    return _reseal_legacy(out)


def count_records(batch) -> int:
    raw, magic = _only_batch(batch)
    if magic >= 2:
        (lod,) = struct.unpack_from(">i", raw, V2_LAST_OFFSET_DELTA_OFFSET)
        return lod + 1          # offsets consumed by the batch
    if not raw[LEGACY_ATTR_OFFSET] & ATTR_CODEC_MASK:
        return 1
    m, _ = _parse_legacy_message(raw, 0, len(raw))
    return len(_parse_inner_set(decompress(raw[LEGACY_ATTR_OFFSET] & ATTR_CODEC_MASK, m["value"]), magic))


def assign_offsets(buf, base_offset: int, log_append_time=None) -> tuple[bytes, int, int]:
    """Assign consecutive offsets to every top-level batch of a produce payload.
    -> (rewritten bytes, next offset after the payload, number of offsets consumed)."""
    raw = bytes(buf)
    out = bytearray()
    nxt = base_offset
    for start, total, _magic in split_batches(raw):
        b = raw[start:start + total]
        n = count_records(b)
        b = rewrite_base_offset(b, nxt)
        if log_append_time is not None:
            b = set_log_append_time(b, log_append_time)
        out += b
        nxt += n
    return bytes(out), nxt, nxt - base_offset


# --------------------------------------------------------------------------- field locator (C10)

def locate_fields(batch) -> tuple[list[Field], bytes | None]:
    """Length/count/varint fields of one well-formed top-level batch.

    -> (fields, inner) where ``inner`` is the decompressed payload when the batch is compressed
    (fields with container == "inner" index into it), else None."""
    raw, magic = _only_batch(batch)
    fields: list[Field] = [Field("size", 8, 4, "int32", struct.unpack_from(">i", raw, 8)[0], "outer")]
    inner = None
    if magic >= 2:
        (attrs,) = struct.unpack_from(">h", raw, V2_ATTR_OFFSET)
        fields.append(Field("attributes", V2_ATTR_OFFSET, 2, "int16", attrs, "outer"))
        fields.append(Field("last_offset_delta", V2_LAST_OFFSET_DELTA_OFFSET, 4, "int32",
                            struct.unpack_from(">i", raw, V2_LAST_OFFSET_DELTA_OFFSET)[0], "outer"))
        count = struct.unpack_from(">i", raw, V2_COUNT_OFFSET)[0]
        fields.append(Field("record_count", V2_COUNT_OFFSET, 4, "int32", count, "outer"))
        codec = attrs & ATTR_CODEC_MASK
        first_ts, max_ts = struct.unpack_from(">qq", raw, V2_FIRST_TS_OFFSET)
        if codec:
            inner = decompress(codec, raw[V2_HEADER_SIZE:])
            _parse_v2_records(inner, count, 0, first_ts, max_ts, False, problems=[], fields=fields,
                              container="inner")
        else:
            _parse_v2_records(raw, count, 0, first_ts, max_ts, False, problems=[], fields=fields,
                              container="outer", pos0=V2_HEADER_SIZE)
        return fields, inner
    m, _ = _parse_legacy_message(raw, 0, len(raw))
    fields.append(Field("attributes", LEGACY_ATTR_OFFSET, 1, "int8", m["attrs"], "outer"))
    fields.append(Field("key_length", m["key_pos"], 4, "int32", struct.unpack_from(">i", raw, m["key_pos"])[0], "outer"))
    fields.append(Field("value_length", m["value_pos"], 4, "int32",
                        struct.unpack_from(">i", raw, m["value_pos"])[0], "outer"))
    codec = m["attrs"] & ATTR_CODEC_MASK
    if codec and m["value"] is not None:
        inner = decompress(codec, m["value"])
        for i, im in enumerate(_parse_inner_set(inner, magic)):
            fields.append(Field(f"inner{i}.size", im["pos"] + 8, 4, "int32", im["size"], "inner"))
            fields.append(Field(f"inner{i}.key_length", im["key_pos"], 4, "int32",
                                struct.unpack_from(">i", inner, im["key_pos"])[0], "inner"))
            fields.append(Field(f"inner{i}.value_length", im["value_pos"], 4, "int32",
                                struct.unpack_from(">i", inner, im["value_pos"])[0], "inner"))
    return fields, inner


def rewrap_inner(batch, new_inner: bytes, fix_crc: bool = True) -> bytes:
    """Replace the decompressed payload of a compressed batch/wrapper by ``new_inner`` (compressed
    again with the same codec); outer lengths and (optionally) CRC are made consistent, so the
    hostile content is only reachable after decompression."""
    raw, magic = _only_batch(batch)
    if magic >= 2:
        (attrs,) = struct.unpack_from(">h", raw, V2_ATTR_OFFSET)
        codec = attrs & ATTR_CODEC_MASK
        framing = "xerial" if raw[V2_HEADER_SIZE:V2_HEADER_SIZE + 8] == XERIAL_MAGIC else "raw"
        payload = compress(codec, new_inner, framing)
        out = bytearray(raw[:V2_HEADER_SIZE] + payload)
        struct.pack_into(">i", out, 8, len(out) - LOG_OVERHEAD)
        if fix_crc:
            struct.pack_into(">I", out, V2_CRC_OFFSET, crc32c(out[V2_ATTR_OFFSET:]))
        return bytes(out)
    m, _ = _parse_legacy_message(raw, 0, len(raw))
    codec = m["attrs"] & ATTR_CODEC_MASK
    framing = "xerial" if (m["value"] or b"")[:8] == XERIAL_MAGIC else "raw"
    payload = compress(codec, new_inner, framing)
    out = encode_message(m["offset"], magic, m["timestamp"], m["key"], payload, m["attrs"])
    if not fix_crc:
        out = bytearray(out)
        struct.pack_into(">I", out, LEGACY_CRC_OFFSET, m["crc"])
        out = bytes(out)
    return out
