"""Termination monitor for the real StickyAssignmentExecutor (installed from the harness, no repo change).

`StickyAssignmentExecutor._move_partition` is the only place where the balancing loops change the
assignment.  The wrapper counts the moves of one executor and keeps the tail of the move trace.
A terminating run makes few moves (every justified move lowers the sum of squared loads, which is
<= P^2 for P partitions); once the count passes BOUND(P) = 2000 + 4*P^2 the run is declared
non-terminating and `StickyNonTermination` is raised out of assign() with the period of the trace
tail in hand.  The verdict is taken on the logical move count, never on wall-clock time.

Mechanism names (used by known_findings.json):
  sticky_assign_does_not_terminate_pingpong_via_reverse_pair
        the tail has period 2 and consists of ONE partition going back and forth between two
        members while `PartitionMovements.get_partition_to_be_moved` substituted it for the
        partition whose owner is overloaded (requested partition != moved partition)
  sticky_assign_does_not_terminate
        anything else
"""
from __future__ import annotations


class StickyNonTermination(Exception):
    def __init__(self, mechanism, detail):
        super().__init__(detail)
        self.mechanism = mechanism
        self.detail = detail


STATS = {"executors": 0, "moves": 0, "max_moves": 0, "nonterminating": 0}
_installed = {}


def bound(n_partitions: int) -> int:
    return 2000 + 4 * n_partitions * n_partitions


def _period(trace, max_period=12):
    for k in range(1, max_period + 1):
        if len(trace) < 4 * k:
            break
        tail = trace[-4 * k:]
        if all(tail[i] == tail[i + k] for i in range(3 * k)):
            return k
    return None


def install(sa_module):
    """sa_module = aiokafka.coordinator.assignors.sticky.sticky_assignor of the checkout under test."""
    if id(sa_module) in _installed:
        return
    ex = sa_module.StickyAssignmentExecutor
    orig_move = ex._move_partition
    orig_reassign_to = ex._reassign_partition_to_consumer
    orig_init = ex.__init__

    def __init__(self, *a, **kw):
        self._vf_moves = 0
        self._vf_trace = []
        self._vf_requested = None
        self._vf_substituted = 0
        STATS["executors"] += 1
        orig_init(self, *a, **kw)

    def _reassign_partition_to_consumer(self, partition, new_consumer):
        self._vf_requested = partition
        try:
            return orig_reassign_to(self, partition, new_consumer)
        finally:
            self._vf_requested = None

    def _move_partition(self, partition, new_consumer):
        self._vf_moves += 1
        STATS["moves"] += 1
        if self._vf_moves > STATS["max_moves"]:
            STATS["max_moves"] = self._vf_moves
        old = self.current_partition_consumer.get(partition)
        req = self._vf_requested
        subst = req is not None and req != partition
        self._vf_trace.append((tuple(partition), old, new_consumer, tuple(req) if req is not None else None))
        if len(self._vf_trace) > 64:
            del self._vf_trace[:16]
        if self._vf_moves > bound(len(self.partition_to_all_potential_consumers)):
            STATS["nonterminating"] += 1
            k = _period(self._vf_trace)
            tail = self._vf_trace[-(2 * (k or 4)):]
            mech = "sticky_assign_does_not_terminate"
            if k == 2:
                a, b = self._vf_trace[-2], self._vf_trace[-1]
                if a[0] == b[0] and a[1] == b[2] and a[2] == b[1] and (a[3] != a[0] or b[3] != b[0]):
                    mech = "sticky_assign_does_not_terminate_pingpong_via_reverse_pair"
            raise StickyNonTermination(
                mech, f"{self._vf_moves} partition moves (bound {bound(len(self.partition_to_all_potential_consumers))}), "
                      f"trace tail period {k}: {tail} [(moved partition, from, to, partition the balancer asked to move)]; "
                      f"loads {sorted((c, len(p)) for c, p in self.current_assignment.items())}")
        return orig_move(self, partition, new_consumer)

    ex.__init__ = __init__
    ex._move_partition = _move_partition
    ex._reassign_partition_to_consumer = _reassign_partition_to_consumer
    _installed[id(sa_module)] = True
