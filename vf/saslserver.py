"""SASL server side for the simulated brokers (PLAIN and SCRAM). Filled in for C18's full-handshake runs."""


def authenticate(cluster, ctx):
    link = ctx["link"]
    mech = link.state.get("sasl_mech")
    data = ctx["req"]["auth_bytes"] or b""
    conf = cluster.sasl or {}
    if mech == "PLAIN":
        parts = data.split(b"\x00")
        ok = len(parts) == 3 and conf.get("users", {}).get(parts[1].decode()) == parts[2].decode()
        if ok:
            link.state["authenticated"] = True
            return {"error_code": 0, "error_message": None, "auth_bytes": b"", "session_lifetime_ms": 0}
        return {"error_code": 58, "error_message": "Authentication failed", "auth_bytes": b""}
    if mech and mech.startswith("SCRAM-SHA-"):
        from vf.refmodels_direct import scram_server_for_link
        return scram_server_for_link(cluster, ctx)
    return {"error_code": 34, "error_message": "illegal SASL state", "auth_bytes": b""}
