"""Transactional producer histories on the simulated cluster (C07, C16).

run_history(P) executes a *program* - a list of API operations - on one real transactional AIOKafkaProducer (and
optionally a second instance with the same transactional id that replaces / fences the first) against SimCluster's
transaction coordinator, under scripted or seeded fault fates.  Returned (JSON-able):

  ops       one entry per API call: op, t_call, t_ret, outcome ("ok" | "exc:<Type>" | "hung"), the number of
            transactional-class requests (Produce, AddPartitionsToTxn, AddOffsetsToTxn, TxnOffsetCommit, EndTxn) the
            cluster had seen at call time, at return and after the settle period that follows every call
  sends     uid -> {txn (index of the API-level transaction), tp, future outcome}
  txn_log   coordinator-side log of every transactional request with its verdict
  arrivals  broker-side log of every produce arrival (transactional flag, pid/epoch, uids, whether the partition was
            registered in an ongoing transaction of that producer at that moment)
  markers   control batches written
  client    client-boundary call/return times of AddPartitionsToTxn / Produce / EndTxn requests (tap on AIOKafkaClient.send)
  rc        tp -> uids a read_committed reader sees, ru -> uids in the log; class of every uid
  group_offsets  committed offsets of the consumer group used with send_offsets_to_transaction

Program ops: "begin", "send:<p>", "burst:<p>[+<q>..]:<n>" (n concurrent send() calls, spread over the listed partitions), "spray:<p>[+<q>..]:<n>" (n send() calls started as tasks and not awaited), "offsets:<o>", "commit", "abort",
"move" / "gmove" (transaction / group coordinator moves to another broker), "ctx_ok:<p>", "ctx_exc:<p>", "ctx_slow:<p>" (fire-and-forget send, body runs 0.6 s more), "sleep:<s>", "replace" (start instance B with the same transactional id; later ops with
prefix "B." go to it, unprefixed ones to A), "kill" (kill -9 of instance A).
Partition "u" is a partition of an unauthorized topic (TopicAuthorizationFailed at AddPartitionsToTxn).
"""
from __future__ import annotations

import asyncio
import random

from vf import cluster as C
from vf.simharness import ClientSendTap, FaultPlan, Fate, make_cluster, owned, run_sim, idle_ms
from vf.simloop import OWNER, kill_owner

TOPIC = "t"
UTOPIC = "tu"          # unauthorized topic
GROUP = "gtx"
UGROUP = "gtx-denied"  # unauthorized group
TXN_ID = "tx1"
TXN_APIS = ("Produce", "AddPartitionsToTxn", "AddOffsetsToTxn", "TxnOffsetCommit", "EndTxn")

RETRIABLE = {
    "InitProducerId": [C.COORDINATOR_LOAD_IN_PROGRESS, C.NOT_COORDINATOR, C.COORDINATOR_NOT_AVAILABLE, C.CONCURRENT_TRANSACTIONS],
    "AddPartitionsToTxn": [C.COORDINATOR_LOAD_IN_PROGRESS, C.NOT_COORDINATOR, C.COORDINATOR_NOT_AVAILABLE, C.CONCURRENT_TRANSACTIONS,
                           C.UNKNOWN_TOPIC_OR_PARTITION],
    "AddOffsetsToTxn": [C.COORDINATOR_LOAD_IN_PROGRESS, C.NOT_COORDINATOR, C.COORDINATOR_NOT_AVAILABLE, C.CONCURRENT_TRANSACTIONS],
    "TxnOffsetCommit": [C.COORDINATOR_LOAD_IN_PROGRESS, C.NOT_COORDINATOR, C.COORDINATOR_NOT_AVAILABLE, C.REQUEST_TIMED_OUT,
                        C.UNKNOWN_TOPIC_OR_PARTITION],
    "EndTxn": [C.COORDINATOR_LOAD_IN_PROGRESS, C.NOT_COORDINATOR, C.COORDINATOR_NOT_AVAILABLE, C.CONCURRENT_TRANSACTIONS],
    "Produce": [C.NOT_LEADER_FOR_PARTITION, C.LEADER_NOT_AVAILABLE, C.REQUEST_TIMED_OUT, C.NOT_ENOUGH_REPLICAS],
    "FindCoordinator": [C.COORDINATOR_NOT_AVAILABLE],
}
FATAL = {"AddPartitionsToTxn": [C.INVALID_PRODUCER_EPOCH, C.TRANSACTIONAL_ID_AUTHORIZATION_FAILED, C.INVALID_PRODUCER_ID_MAPPING],
         "AddOffsetsToTxn": [C.INVALID_PRODUCER_EPOCH, C.TRANSACTIONAL_ID_AUTHORIZATION_FAILED],
         "TxnOffsetCommit": [C.INVALID_PRODUCER_EPOCH, C.TRANSACTIONAL_ID_AUTHORIZATION_FAILED],
         "EndTxn": [C.INVALID_PRODUCER_EPOCH, C.INVALID_TXN_STATE],
         "Produce": [C.INVALID_PRODUCER_EPOCH, C.OUT_OF_ORDER_SEQUENCE_NUMBER]}
ABORTABLE = {"AddPartitionsToTxn": [C.TOPIC_AUTHORIZATION_FAILED], "AddOffsetsToTxn": [C.GROUP_AUTHORIZATION_FAILED],
             "TxnOffsetCommit": [C.GROUP_AUTHORIZATION_FAILED]}


def txn_bound(P):
    return 4 * P["request_timeout_ms"] / 1000.0 + 60 * P["retry_backoff_ms"] / 1000.0


def run_history(P):
    """P: program (list of op strings), fault (None | {"api", "nth", "kind": "error"|<fate kind>, "code"}),
    fault_p (seeded retriable faults on every transactional request type), n_parts, seed, settle (bool),
    coordinator_moves (count), marker_delay (hi), request_timeout_ms, retry_backoff_ms, linger_ms."""
    from aiokafka import AIOKafkaProducer
    from aiokafka.structs import TopicPartition

    rng = random.Random(P["seed"])
    net, cl = make_cluster(P["seed"], n_brokers=3)
    cl.create_topic(TOPIC, P.get("n_parts", 2))
    cl.create_topic(UTOPIC, 1)
    cl.unauthorized_topics.add(UTOPIC)
    cl.unauthorized_groups.add(UGROUP)
    cl.tc.marker_delay = (0.0, P.get("marker_delay", 0.0))
    fp = P.get("fault_p", 0.0)
    plan = FaultPlan(random.Random(P["seed"] ^ 0x7A1), p={a: fp for a in RETRIABLE},
                     kinds={a: ["drop_before", "reset_after", "lose_reply", "delay"] + [("error", c) for c in codes]
                            for a, codes in RETRIABLE.items()})
    plan.enabled = False
    cl.faults = plan
    fault = P.get("fault")
    fault_state = {"seen": 0, "fired_at": None}
    if fault:
        def pred(ctx):
            if ctx["api"] != fault["api"]:
                return False
            fault_state["seen"] += 1
            if fault_state["seen"] == fault.get("nth", 1):
                fault_state["fired_at"] = ctx["time"]
                fault_state["fired_n"] = len(cl.events)
                return True
            return False
        plan.script(pred, Fate(fault["kind"], fault.get("code", 0)), once=True)
    H = {"params": P, "ops": [], "sends": {}, "errors": [], "offsets_sent": [], "sprayed": []}

    def txn_requests():
        return sum(1 for e in cl.events if e["kind"] == "request" and e["api"] in TXN_APIS)

    async def main(loop):
        t0 = loop.time()
        H["t0"] = t0
        tap = ClientSendTap(loop)
        tap.install()
        OWNER.set("harness")
        prods = {}

        async def make(name):
            with owned(name):
                p = AIOKafkaProducer(bootstrap_servers=cl.bootstrap(), client_id=name, transactional_id=TXN_ID,
                                     request_timeout_ms=P["request_timeout_ms"], retry_backoff_ms=P["retry_backoff_ms"],
                                     linger_ms=P.get("linger_ms", 0), max_batch_size=P.get("max_batch_size", 600),
                                     metadata_max_age_ms=5000, connections_max_idle_ms=idle_ms(P))
                await asyncio.wait_for(p.start(), 20 * txn_bound(P))
            prods[name] = p
            return p

        try:
            await make("A")
            H["pid_epoch"] = {"A": [prods["A"]._txn_manager.producer_id, prods["A"]._txn_manager.producer_epoch]}
            plan.enabled = True
            txn_index = {"A": 0, "B": 0}
            in_txn = {"A": None, "B": None}
            counter = {"n": 0}
            call_bound = 10 * txn_bound(P)

            def on_done(uid, fut):
                rec = H["sends"][uid]
                rec["t_done"] = round(loop.time() - t0, 6)
                if fut.cancelled():
                    rec["outcome"] = "cancelled"
                elif fut.exception() is not None:
                    rec["outcome"] = "exc:" + type(fut.exception()).__name__
                else:
                    r = fut.result()
                    rec["outcome"] = "ok"
                    rec["offset"] = r.offset

            async def do_send(who, pname, txn_no):
                counter["n"] += 1
                uid = f"{who}{txn_no}.{counter['n']}"
                topic, part = (UTOPIC, 0) if pname == "u" else (TOPIC, int(pname))
                with owned(who):
                    fut = await prods[who].send(topic, b"uid:%s|" % uid.encode(), partition=part)
                if txn_no is None:
                    # a send() that was not awaited by the program belongs to the transaction that is open at the moment
                    # the producer ACCEPTS it (it may have waited for room in a batch across a commit and the next begin)
                    txn_no = in_txn[who] if in_txn[who] is not None else -1
                    uid2 = f"{who}{txn_no}.{counter['n']}"
                    assert uid2 == uid or True
                H["sends"][uid] = {"who": who, "txn": txn_no, "tp": f"{topic}:{part}", "outcome": "pending",
                                   "t_acc": round(loop.time() - t0, 6)}
                fut.add_done_callback(lambda f, u=uid: on_done(u, f))
                return uid

            async def quiesce():
                # wait until the cluster has seen no transactional-class request for longer than a request whose
                # reply was lost needs to be retried (request timeout + back-off), bounded
                quiet = P["request_timeout_ms"] / 1000.0 + 4 * P["retry_backoff_ms"] / 1000.0 + 0.1 \
                    if (P.get("fault") or P.get("fault_p")) else 0.4
                t_lim = loop.time() + 6 * txn_bound(P)
                last = txn_requests()
                quiet_since = loop.time()
                while loop.time() < t_lim:
                    await asyncio.sleep(0.1)
                    now = txn_requests()
                    if now != last:
                        last, quiet_since = now, loop.time()
                    elif loop.time() - quiet_since >= quiet:
                        return

            sprayed = []
            for raw in P["program"]:
                who, op = ("B", raw[2:]) if raw.startswith("B.") else ("A", raw)
                name, *args = op.split(":")
                rec = {"op": raw, "who": who, "t_call": round(loop.time() - t0, 6), "req_at_call": txn_requests(),
                       "n_at_call": len(cl.events), "outcome": None, "txn": None}
                H["ops"].append(rec)
                prod = prods.get(who)

                async def run_op():
                    if name == "begin":
                        await prod.begin_transaction()
                        txn_index[who] += 1
                        in_txn[who] = txn_index[who]
                    elif name == "send":
                        rec["uid"] = await do_send(who, args[0], in_txn[who] if in_txn[who] is not None else -1)
                    elif name == "burst":
                        n = int(args[1])
                        tn = in_txn[who] if in_txn[who] is not None else -1
                        parts = args[0].split("+")       # "burst:0+1:4": concurrent sends spread over partitions 0 and 1
                        res = await asyncio.gather(*[do_send(who, parts[i % len(parts)], tn) for i in range(n)],
                                                   return_exceptions=True)
                        rec["uids"] = [r for r in res if isinstance(r, str)]
                        errs = [r for r in res if isinstance(r, BaseException)]
                        if errs:
                            raise errs[0]
                    elif name == "spray":
                        # n send() calls started as tasks of their own and NOT awaited: the next call of the program (commit,
                        # abort) runs while some of them may still be waiting for room in a full batch
                        n = int(args[1])
                        tn = in_txn[who] if in_txn[who] is not None else -1
                        parts = args[0].split("+")

                        async def one(i):
                            try:
                                u = await do_send(who, parts[i % len(parts)], None)
                                H["sprayed"].append(u)
                            except Exception as e:  # noqa: BLE001  (refused because the transaction is ending: fine)
                                rec.setdefault("spray_errors", []).append(type(e).__name__)
                        for i in range(n):
                            t = asyncio.ensure_future(one(i))
                            sprayed.append(t)
                        await asyncio.sleep(0)
                    elif name == "offsets":
                        o = int(args[0])
                        grp = UGROUP if (len(args) > 1 and args[1] == "denied") else GROUP
                        tn = in_txn[who]
                        H["offsets_sent"].append({"txn": tn, "who": who, "group": grp, "tp": f"{TOPIC}:0", "offset": o,
                                                  "t": round(loop.time() - t0, 6)})
                        offs = {TopicPartition(TOPIC, 0): o}
                        if len(args) > 1 and args[1] == "multi":      # offsets of two partitions in one call
                            offs[TopicPartition(TOPIC, 1)] = o + 1
                            H["offsets_sent"].append({"txn": tn, "who": who, "group": grp, "tp": f"{TOPIC}:1", "offset": o + 1,
                                                      "t": round(loop.time() - t0, 6)})
                        await prod.send_offsets_to_transaction(offs, grp)
                    elif name == "commit":
                        rec["txn"] = in_txn[who]
                        await prod.commit_transaction()
                        in_txn[who] = None
                    elif name == "abort":
                        rec["txn"] = in_txn[who]
                        await prod.abort_transaction()
                        in_txn[who] = None
                    elif name == "finish":
                        # what an application does: commit, and abort when the commit fails with a recoverable error
                        rec["txn"] = in_txn[who]
                        try:
                            await prod.commit_transaction()
                            rec["finished"] = "commit"
                        except Exception as e:  # noqa: BLE001
                            rec["commit_exc"] = type(e).__name__
                            await prod.abort_transaction()
                            rec["finished"] = "abort"
                        in_txn[who] = None
                    elif name in ("ctx_ok", "ctx_exc", "ctx_slow", "ctx_slow_exc"):
                        async with prod.transaction():
                            txn_index[who] += 1
                            in_txn[who] = txn_index[who]
                            rec["txn"] = in_txn[who]
                            rec["uid"] = await do_send(who, args[0], in_txn[who])
                            if name == "ctx_exc":
                                raise RuntimeError("application error inside the transaction")
                            if name in ("ctx_slow", "ctx_slow_exc"):
                                # fire-and-forget send, the body goes on for a while (errors land while it runs)
                                await asyncio.sleep(0.6)
                            if name == "ctx_slow_exc":
                                raise RuntimeError("application error after the body ran for a while")
                        in_txn[who] = None
                    elif name == "sleep":
                        await asyncio.sleep(float(args[0]))
                    elif name == "replace":
                        await make("B")
                        H["pid_epoch"]["B"] = [prods["B"]._txn_manager.producer_id, prods["B"]._txn_manager.producer_epoch]
                    elif name == "kill":
                        kill_owner(loop, "A")
                    elif name == "move":
                        cl.move_coordinator(TXN_ID, 1)
                    elif name == "gmove":
                        # the GROUP coordinator (TxnOffsetCommit goes there) moves; the old node keeps answering NOT_COORDINATOR
                        cl.move_coordinator(GROUP, 0)
                    else:
                        raise ValueError("harness: unknown op " + raw)

                rec["txn"] = in_txn[who] if name in ("send", "burst", "spray", "offsets") else rec["txn"]
                try:
                    with owned(who if name not in ("replace", "kill", "move", "gmove", "sleep") else "harness"):
                        await asyncio.wait_for(run_op(), call_bound)
                    rec["outcome"] = "ok"
                except asyncio.TimeoutError:
                    rec["outcome"] = "hung"
                except asyncio.CancelledError:
                    rec["outcome"] = "exc:CancelledError"
                except BaseException as e:  # noqa: BLE001
                    rec["outcome"] = "exc:" + type(e).__name__
                    rec["msg"] = str(e)[:160]
                if name in ("ctx_ok", "ctx_exc", "ctx_slow", "ctx_slow_exc") and rec["outcome"] != "ok":
                    # the context manager left the transaction one way or the other unless begin itself failed
                    in_txn[who] = None if rec.get("txn") else in_txn[who]
                rec["t_ret"] = round(loop.time() - t0, 6)
                rec["req_at_ret"] = txn_requests()
                rec["state_after"] = {w: (prods[w]._txn_manager.state.name if w in prods else None) for w in ("A", "B")}
                if P.get("settle", True):
                    await quiesce()
                rec["req_after_settle"] = txn_requests()
                rec["n_after_settle"] = len(cl.events)
                rec["t_settled"] = round(loop.time() - t0, 6)
                if P.get("coordinator_moves") and rng.random() < 0.25:
                    if rng.random() < 0.5:
                        cl.move_coordinator(TXN_ID, 1)
                    else:
                        cl.move_coordinator(GROUP, 0)
            # ---- end: quiet, then let everything finish
            plan.enabled = False
            H["t_quiet"] = round(loop.time() - t0, 6)
            await asyncio.sleep(txn_bound(P))
            H["pending_sends_at_end"] = [u for u, r in H["sends"].items() if r["outcome"] == "pending"]
            H["req_at_end"] = txn_requests()
            await asyncio.sleep(1.0)
            H["req_after_end"] = txn_requests()
            for w, p in prods.items():
                if w == "A" and any(o["op"] == "kill" for o in H["ops"]):
                    continue
                try:
                    with owned(w):
                        await asyncio.wait_for(p.stop(), 6 * txn_bound(P))
                except BaseException as e:  # noqa: BLE001
                    H.setdefault("stop_errors", []).append(f"{w}: {type(e).__name__}")
            await asyncio.sleep(P.get("marker_delay", 0.0) + 0.5)
        finally:
            tap.uninstall()
        H["client"] = []
        for r in tap.records:
            if r["req"] in ("ProduceRequest", "AddPartitionsToTxnRequest", "EndTxnRequest", "AddOffsetsToTxnRequest",
                            "TxnOffsetCommitRequest"):
                d = {"client": r["client"], "req": r["req"], "t_call": round(r["t_call"] - t0, 6),
                     "t_ret": None if r["t_ret"] is None else round(r["t_ret"] - t0, 6), "outcome": r["outcome"]}
                q = r["request"]
                if r["req"] == "ProduceRequest":
                    d["tps"] = [f"{t}:{part[0]}" for t, parts in q._topics for part in parts]
                    d["transactional"] = q._transactional_id is not None
                elif r["req"] == "AddPartitionsToTxnRequest":
                    d["tps"] = [f"{t}:{p}" for t, ps in q._topics for p in ps]
                H["client"].append(d)

    try:
        run_sim(main, seed=P["seed"], net=net, max_virtual_s=7200, max_events=800000)
    except Exception as e:  # noqa: BLE001
        H["errors"].append(f"{type(e).__name__}: {e}")
    t0 = H.get("t0", 0.0)
    H["txn_log"] = [dict({k: v for k, v in e.items() if k not in ("kind",)}, t=round(e["t"] - t0, 6))
                    for e in cl.events if e["kind"] == "txn"]
    H["arrivals"] = [{"t": round(e["t"] - t0, 6), "n": e["n"], "tp": f"{e['topic']}:{e['partition']}", "error": e.get("error"),
                      "appended": bool(e.get("appended")), "txn_ongoing": e.get("txn_ongoing_for_partition"),
                      "batches": e.get("batches"), "txn_id": e.get("txn_id")}
                     for e in cl.events if e["kind"] == "produce_arrival"]
    H["markers"] = [{"t": round(e["t"] - t0, 6), "n": e["n"], "tp": f"{e['topic']}:{e['partition']}", "commit": e["commit"],
                     "pid": e["pid"], "epoch": e["epoch"], "txn_seq": e["txn_seq"], "offset": e["offset"]}
                    for e in cl.events if e["kind"] == "marker"]
    H["txn_complete"] = [{"t": round(e["t"] - t0, 6), "n": e["n"], "commit": e["commit"], "txn_seq": e["txn_seq"], "by": e["by"]}
                         for e in cl.events if e["kind"] == "txn_complete"]
    H["requests"] = [{"t": round(e["t"] - t0, 6), "n": e["n"], "api": e["api"], "client_id": e["client_id"], "fate": e["fate"]}
                     for e in cl.events if e["kind"] == "request" and e["api"] in TXN_APIS + ("InitProducerId",)]
    H["fault_fired"] = None if not fault else ({"t": None if fault_state["fired_at"] is None else round(fault_state["fired_at"] - t0, 6),
                                                "n": fault_state.get("fired_n")} if fault_state["fired_at"] is not None else None)
    from vf.consume_sim import record_classes
    H["rc"], H["ru"], H["classes"] = {}, {}, {}
    for topic, logs in cl.topics.items():
        for pl in logs:
            k = f"{topic}:{pl.partition}"
            H["rc"][k] = [C.uid_of(r.value) for (_o, r, _sb) in pl.visible_records(1)]
            H["ru"][k] = [C.uid_of(r.value) for (_o, r, _sb) in pl.visible_records(0)]
            cls = record_classes(pl)
            for sb in pl.batches:
                for r in sb.view.records:
                    if not sb.view.is_control:
                        H["classes"].setdefault(C.uid_of(r.value), []).append(cls[str(r.offset)])
    g = cl.groups.get(GROUP)
    H["group_offsets"] = {f"{t}:{p}": o for (t, p), (o, _m) in (g.offsets.items() if g else [])}
    H["group_pending_txn_offsets"] = {str(pid): {f"{t}:{p}": o for (t, p), (o, _m) in d.items()}
                                      for pid, d in (g.pending_txn.items() if g else [])}
    H["coordinator_state"] = {tid: {"state": t.state, "epoch": t.epoch, "partitions": sorted(f"{a}:{b}" for a, b in t.partitions)}
                              for tid, t in cl.txns.items()}
    H["fault_hits"] = dict(plan.hits)
    H["sim_errors"] = [e for e in cl.events if e["kind"] in ("SIM_ENCODE_ERROR", "undecodable_request", "bad_header",
                                                              "unsupported_request")]
    return H
