"""Shard worker: python -m vf.worker <PROP> <params.json> <out.json>."""
import faulthandler
import importlib
import json
import sys
import traceback


def main():
    faulthandler.enable()
    prop, pfile, ofile = sys.argv[1:4]
    with open(pfile) as f:
        params = json.load(f)
    mod = importlib.import_module(f"vf.props.{prop.lower()}")
    try:
        res = mod.run_shard(params)
    except BaseException:
        res = {"evaluations": 0,
               "inconclusive": ["worker crashed outside any case: " + traceback.format_exc()[-3000:]]}
    sh = sys.modules.get("vf.simharness")
    if sh is not None and getattr(sh, "CLOSE_REASONS", None) and isinstance(res.get("counters"), dict):
        for k, v in sh.CLOSE_REASONS.items():
            res["counters"][f"obs_connections_closed_{k}"] = v
    with open(ofile + ".tmp", "w") as f:
        json.dump(res, f, default=str)
    import os
    os.replace(ofile + ".tmp", ofile)


if __name__ == "__main__":
    main()
