"""Shard worker: python -m vf.worker <PROP> <params.json> <out.json>."""
import faulthandler
import importlib
import json
import sys
import traceback


def run_corpus(mod, params):
    """Replay every witness of the regression corpus (vf/props/corpus/<PROP>.json) through the module's own replay()."""
    if params.get("ext_dir"):
        from vf.simharness import setup_codec
        setup_codec(params, False)
    with open(params["corpus_file"]) as f:
        corpus = json.load(f)
    res = {"evaluations": 0, "nontrivial": [], "violations": [], "inconclusive": [], "counters": {}, "sets": {}, "samples": []}
    seen = set()
    for ent in corpus:
        try:
            r = mod.replay(ent["witness"])
        except Exception:  # noqa: BLE001
            res["inconclusive"].append(f"corpus entry {ent.get('seeded')}/{ent.get('mechanism')}: replay raised "
                                       + traceback.format_exc()[-600:])
            continue
        res["evaluations"] += r.get("evaluations", 1)
        res["counters"]["corpus_witnesses_replayed"] = res["counters"].get("corpus_witnesses_replayed", 0) + 1
        for v in r.get("violations", []):
            if v["mechanism"] in seen:
                continue
            seen.add(v["mechanism"])
            res["violations"].append(v)
    return res


def main():
    faulthandler.enable()
    prop, pfile, ofile = sys.argv[1:4]
    with open(pfile) as f:
        params = json.load(f)
    mod = importlib.import_module(f"vf.props.{prop.lower()}")
    try:
        res = run_corpus(mod, params) if params.get("corpus_file") else mod.run_shard(params)
    except BaseException:
        res = {"evaluations": 0,
               "inconclusive": ["worker crashed outside any case: " + traceback.format_exc()[-3000:]]}
    sh = sys.modules.get("vf.simharness")
    if sh is not None and getattr(sh, "CLOSE_REASONS", None) and isinstance(res.get("counters"), dict):
        for k, v in sh.CLOSE_REASONS.items():
            res["counters"][f"obs_connections_closed_{k}"] = v
    with open(ofile + ".tmp", "w") as f:
        json.dump(res, f, default=str)
    import os
    os.replace(ofile + ".tmp", ofile)


if __name__ == "__main__":
    main()
