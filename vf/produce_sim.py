"""Producer histories on the simulated cluster (shared by C01, C02 and the producer part of C19).

run_history(params) drives a real AIOKafkaProducer with several sending tasks against SimCluster under a
seeded fault plan and returns everything the monitors need (all JSON-able):
  accepted:  per task, in program order: {uid, tp, t, key, ts, headers}
  futures:   uid -> {outcome: result|exception|pending|cancelled, meta..., t_done, callbacks}
  calls:     flush/stop call and return times
  inflight:  client-boundary intervals of every ProduceRequest with the partitions it carried
  arrivals:  broker-side ProduceRequest arrival log (pid, epoch, base_seq, count, uids, verdict)
  logs:      tp -> [(offset, uid, timestamp, ts_type, key_hex, headers, batch_base)]
"""
from __future__ import annotations

import asyncio
import random

from vf import cluster as C
from vf.simharness import ClientSendTap, FaultPlan, Fate, make_cluster, owned, run_sim, idle_ms

RETRIABLE_PRODUCE_ERRORS = [C.NOT_LEADER_FOR_PARTITION, C.LEADER_NOT_AVAILABLE, C.UNKNOWN_TOPIC_OR_PARTITION,
                            C.REQUEST_TIMED_OUT, C.NOT_ENOUGH_REPLICAS]


def gen_params(rng: random.Random, idx, tier="quick", force=None):
    idem = rng.random() < 0.6
    acks = -1 if idem else rng.choice([0, 1, -1, -1])
    p = {
        "idx": idx,
        "seed": rng.randrange(2**31),
        "n_tasks": rng.choice([1, 2, 2, 3, 4]),
        "n_parts": rng.choice([1, 2, 3]),
        "n_records": rng.choice([20, 40, 80, 150, 300]) if tier == "thorough" else rng.choice([15, 30, 60, 100]),
        "max_batch_size": rng.choice([200, 300, 500, 1000, 2000]),
        "linger_ms": rng.choice([0, 0, 5, 50]),
        "compression": rng.choice([None, None, "gzip", "snappy", "lz4", "zstd"]),
        "acks": acks,
        "idempotent": idem,
        "fault_p": rng.choice([0.0, 0.1, 0.2, 0.3, 0.4]),
        "md_fault_p": rng.choice([0.0, 0.1, 0.3]),
        "n_leader_moves": rng.choice([0, 0, 1, 2, 4]),
        "stale_md": rng.random() < 0.3,
        "produce_max_version": rng.choice([3, 4, 5, 6, 7, 7, 7]) if idem else rng.choice([0, 1, 2, 3, 4, 5, 6, 7, 7]),
        "log_append_time": rng.random() < 0.35,
        "request_timeout_ms": rng.choice([2000, 3000, 5000]),
        "retry_backoff_ms": rng.choice([50, 100, 200]),
        "metadata_max_age_ms": rng.choice([3000, 10000, 30000]),
        "start_seq": None,
        "use_send_batch": rng.random() < 0.15,
        "end_call": rng.choice(["flush", "stop", "flush_then_stop"]),
        "end_at_frac": rng.choice([None, None, 0.3, 0.6, 0.9]),   # issue flush()/stop() while tasks still send
        "value_pad": rng.choice([0, 10, 50, 120]),
        "pure_python_codec": False,
        # a partition leader is down (the metadata names no leader for its partitions) for a while: shorter or LONGER than
        # the request timeout, which is also how long a batch may wait for a leader before it is given up
        "leader_outage": None,
        "app_cancels": False,
    }
    if rng.random() < 0.25:
        p["leader_outage"] = {"at": round(rng.uniform(0.05, 3.0), 3),
                              "for": round(rng.choice([0.4, 1.0, p["request_timeout_ms"] / 1000.0 + rng.choice([0.5, 2.0])]), 3)}
    if idem:
        r = rng.random()
        if r < 0.25:
            p["start_seq"] = 2**31 - rng.choice([1, 2, 3, 5, 10, 40])
        elif r < 0.45:
            p["start_seq"] = rng.randrange(1, 2**31 - 1000)
    if force:
        p.update(force)
    return p


def run_history(P):
    from aiokafka import AIOKafkaProducer
    from aiokafka.structs import TopicPartition

    rng = random.Random(P["seed"])
    versions = {0: (0, P["produce_max_version"])}
    net, cl = make_cluster(P["seed"], n_brokers=3, versions=versions)
    topic = "t"
    cl.create_topic(topic, P["n_parts"], ts_type=1 if P["log_append_time"] else 0)
    quiet_at_rel = P.get("quiet_after", 20.0)
    H = {"params": P, "accepted": {}, "futures": {}, "calls": [], "inflight": [], "errors": [], "send_errors": [],
         "notes": []}

    kinds = ["drop_before", "reset_after", "lose_reply", "delay"] + [("error", c) for c in RETRIABLE_PRODUCE_ERRORS] \
        + [("error_after", C.NOT_ENOUGH_REPLICAS_AFTER_APPEND)]
    plan = FaultPlan(random.Random(P["seed"] ^ 0xFA17), p={"Produce": P["fault_p"], "Metadata": P["md_fault_p"]},
                     kinds={"Produce": kinds, "Metadata": ["drop_before", "lose_reply", "delay"]})
    cl.faults = plan

    async def main(loop):
        t0 = loop.time()
        H["t0"] = t0
        plan.quiet_at = t0 + quiet_at_rel
        tap = ClientSendTap(loop)
        tap.install()
        try:
            with owned("producer"):
                prod = AIOKafkaProducer(
                    bootstrap_servers=cl.bootstrap(), acks=P["acks"] if not P["idempotent"] else -1,
                    enable_idempotence=P["idempotent"], max_batch_size=P["max_batch_size"], linger_ms=P["linger_ms"],
                    compression_type=P["compression"], request_timeout_ms=P["request_timeout_ms"],
                    retry_backoff_ms=P["retry_backoff_ms"], metadata_max_age_ms=P["metadata_max_age_ms"],
                    connections_max_idle_ms=idle_ms(P))
                plan.enabled = False
                await prod.start()
                await prod.partitions_for(topic)
                plan.enabled = True
            pid = prod._txn_manager.producer_id if P["idempotent"] else None
            H["pid"] = pid
            if P["start_seq"] is not None:
                for p in range(P["n_parts"]):
                    prod._txn_manager._sequence_numbers[TopicPartition(topic, p)] = P["start_seq"]
                    st = C.ProducerState()
                    st.epoch = prod._txn_manager.producer_epoch
                    st.last_seq = P["start_seq"] - 1
                    cl.plog(topic, p).producers[pid] = st

            # background cluster mischief
            async def mischief():
                for _ in range(P["n_leader_moves"]):
                    await asyncio.sleep(rng.uniform(0.01, quiet_at_rel * 0.5))
                    if loop.time() - t0 >= quiet_at_rel:
                        break
                    p = rng.randrange(P["n_parts"])
                    if P["stale_md"] and rng.random() < 0.5:
                        b = cl.brokers[rng.choice(sorted(cl.brokers))]
                        b.stale_md = cl.metadata_view()
                        loop.call_later(rng.uniform(0.1, 2.0), setattr, b, "stale_md", None)
                    cl.move_leader(topic, p)

            if P.get("leader_outage"):
                lo = P["leader_outage"]

                def outage():
                    b = cl.brokers[cl.leaders[(topic, rng.randrange(P["n_parts"]))]]
                    b.go_down()
                    H["notes"].append({"leader_outage": b.node_id, "t": round(loop.time() - t0, 6), "for": lo["for"]})
                    loop.call_later(lo["for"], b.come_up)
                loop.call_later(lo["at"], outage)
            mis = asyncio.ensure_future(mischief())
            total = P["n_records"]
            per_task = [total // P["n_tasks"] + (1 if i < total % P["n_tasks"] else 0) for i in range(P["n_tasks"])]
            sent_so_far = {"n": 0}
            end_trigger = loop.create_future()

            def on_done(uid, fut):
                rec = H["futures"][uid]
                rec["callbacks"] += 1
                if rec["callbacks"] > 1:
                    return
                rec["t_done"] = loop.time() - t0
                if fut.cancelled():
                    rec["outcome"] = "cancelled"
                elif fut.exception() is not None:
                    e = fut.exception()
                    rec["outcome"] = "exception"
                    rec["exc"] = type(e).__name__
                    rec["retriable"] = bool(getattr(e, "retriable", False))
                else:
                    r = fut.result()
                    rec["outcome"] = "result"
                    if r is None:
                        rec["meta"] = None
                    else:
                        rec["meta"] = {"topic": r.topic, "partition": r.partition, "offset": r.offset,
                                       "timestamp": r.timestamp, "timestamp_type": r.timestamp_type,
                                       "log_start_offset": r.log_start_offset}

            async def sender(ti, n):
                trng = random.Random(P["seed"] * 31 + ti)
                acc = H["accepted"].setdefault(str(ti), [])
                k = 0
                while k < n:
                    if trng.random() < 0.4:
                        await asyncio.sleep(trng.choice([0.0, 0.001, 0.01, 0.05, 0.3]))
                    p = trng.randrange(P["n_parts"])
                    if P["use_send_batch"] and trng.random() < 0.3 and n - k >= 2:
                        m = min(n - k, trng.randint(2, 4))
                        b = prod.create_batch()
                        uids = []
                        for j in range(m):
                            uid = f"{ti}:{k + j}"
                            ts = trng.choice([None, 1_600_000_000_000 + trng.randrange(10**6)])
                            md = b.append(key=None, value=b"uid:%s|" % uid.encode() + b"x" * P["value_pad"], timestamp=ts)
                            if md is None:
                                break
                            uids.append((uid, ts))
                        try:
                            with owned("producer"):
                                fut = await prod.send_batch(b, topic, partition=p)
                        except Exception as e:
                            H["send_errors"].append({"task": ti, "k": k, "exc": type(e).__name__, "t": loop.time() - t0})
                            return
                        buid = f"B{ti}:{k}"
                        for j, (uid, ts) in enumerate(uids):
                            acc.append({"uid": uid, "tp": p, "t": loop.time() - t0, "ts": ts, "key": None,
                                        "headers": [], "batch": buid, "batch_pos": j})
                        H["futures"][buid] = {"outcome": "pending", "callbacks": 0, "kind": "batch", "tp": p,
                                              "uids": [u for u, _ in uids], "t_acc": loop.time() - t0}
                        fut.add_done_callback(lambda f, u=buid: on_done(u, f))
                        if P.get("app_cancels") and trng.random() < 0.4:
                            # the application gives up waiting for this batch (asyncio.wait_for timeout, cancelled task): the
                            # future it was handed is cancelled; the batch itself and everything else must go on as before
                            H["futures"][buid]["app_cancelled"] = True
                            loop.call_later(trng.choice([0.0, 0.002, 0.05, 0.3]), fut.cancel)
                        k += len(uids)
                        sent_so_far["n"] += len(uids)
                    else:
                        uid = f"{ti}:{k}"
                        ts = trng.choice([None, None, 1_600_000_000_000 + trng.randrange(10**6), trng.randrange(1000)])
                        key = trng.choice([None, b"k%d" % trng.randrange(5)])
                        headers = [] if trng.random() < 0.7 else [("h", b"v%d" % k), ("n", None)]
                        try:
                            with owned("producer"):
                                fut = await prod.send(topic, value=b"uid:%s|" % uid.encode() + b"x" * P["value_pad"],
                                                      key=key, partition=p, timestamp_ms=ts, headers=headers)
                        except Exception as e:
                            H["send_errors"].append({"task": ti, "k": k, "exc": type(e).__name__, "t": loop.time() - t0})
                            return
                        acc.append({"uid": uid, "tp": p, "t": loop.time() - t0, "ts": ts,
                                    "key": key.hex() if key is not None else None,
                                    "headers": [(h, v.hex() if v is not None else None) for h, v in headers]})
                        H["futures"][uid] = {"outcome": "pending", "callbacks": 0, "kind": "record", "tp": p,
                                             "t_acc": loop.time() - t0}
                        fut.add_done_callback(lambda f, u=uid: on_done(u, f))
                        if P.get("app_cancels_records") and trng.random() < 0.15:
                            # same for the future of a single record (wait_for(fut, t) timing out cancels it)
                            H["futures"][uid]["app_cancelled"] = True
                            loop.call_later(trng.choice([0.0, 0.002, 0.05, 0.3]), fut.cancel)
                        k += 1
                        sent_so_far["n"] += 1
                    if P["end_at_frac"] is not None and not end_trigger.done() \
                            and sent_so_far["n"] >= total * P["end_at_frac"]:
                        end_trigger.set_result(None)

            tasks = [asyncio.ensure_future(sender(i, n)) for i, n in enumerate(per_task)]

            async def call(name, coro):
                rec = {"name": name, "t_call": loop.time() - t0, "t_ret": None, "exc": None,
                       "accepted_before": [u for u, f in H["futures"].items()]}
                H["calls"].append(rec)
                try:
                    with owned("producer"):
                        await coro
                except Exception as e:
                    rec["exc"] = type(e).__name__
                rec["t_ret"] = loop.time() - t0
                rec["pending_at_return"] = [u for u in rec["accepted_before"] if H["futures"][u]["outcome"] == "pending"]

            if P["end_at_frac"] is not None:
                await asyncio.wait([end_trigger, *tasks], return_when=asyncio.FIRST_COMPLETED)
                if P["end_call"] == "stop":
                    await call("stop", prod.stop())
                else:
                    await call("flush", prod.flush())
            await asyncio.wait(tasks)
            # quiet period, then final flush + stop
            now = loop.time() - t0
            if now < quiet_at_rel:
                await asyncio.sleep(quiet_at_rel - now + 0.01)
            mis.cancel()
            H["t_quiet"] = loop.time() - t0
            bound = produce_bound(P)
            H["bound"] = bound

            async def final():
                await call("flush", prod.flush())
                await call("stop", prod.stop())
            ft = asyncio.ensure_future(final())
            done, pend = await asyncio.wait([ft], timeout=10 * bound)
            if pend:
                H["notes"].append("final flush/stop did not return within 10x bound")
                ft.cancel()
            H["t_end"] = loop.time() - t0
        finally:
            tap.uninstall()
        for r in tap.records:
            if r["req"] == "ProduceRequest":
                tps = []
                seqs = {}
                for t, parts in r["request"]._topics:
                    for part in parts:
                        tps.append(part[0])
                        try:      # v2 batch header as the client put it on the wire: baseSequence @53, record count @57
                            buf = bytes(part[1])
                            if len(buf) >= 61 and buf[16] == 2:
                                seqs[str(part[0])] = [int.from_bytes(buf[53:57], "big", signed=True),
                                                      int.from_bytes(buf[57:61], "big", signed=True)]
                        except Exception:  # noqa: BLE001
                            pass
                H["inflight"].append({"node": r["node"], "t_call": r["t_call"] - t0,
                                      "t_ret": (r["t_ret"] - t0) if r["t_ret"] is not None else None,
                                      "outcome": r["outcome"], "tps": tps, "seqs": seqs})

    try:
        run_sim(main, seed=P["seed"], net=net, max_virtual_s=3600, max_events=400000)
    except Exception as e:
        H["errors"].append(f"{type(e).__name__}: {e}")
    # ground truth
    H["logs"] = {}
    for p in range(P["n_parts"]):
        pl = cl.plog(topic, p)
        rows = []
        for sb in pl.batches:
            v = sb.view
            for r in v.records:
                rows.append({"offset": r.offset, "uid": C.uid_of(r.value), "ts": r.timestamp,
                             "ts_type": v.timestamp_type, "key": r.key.hex() if r.key is not None else None,
                             "headers": [(h, x.hex() if x is not None else None) for h, x in r.headers],
                             "batch_base": v.base_offset, "batch_uids_sig": hash(tuple(C.uid_of(x.value) for x in v.records)),
                             "append_time": sb.append_time - H.get("t0", 0)})
        H["logs"][str(p)] = rows
    from vf import simharness as _sh
    H["active_idle_drops"] = [d for d in _sh.ACTIVE_IDLE_DROPS if d["t"] >= H.get("t0", 0)]
    del _sh.ACTIVE_IDLE_DROPS[:]
    H["arrivals"] = [{k: v for k, v in e.items() if k not in ("kind",)} for e in cl.events if e["kind"] == "produce_arrival"]
    for a in H["arrivals"]:
        a["t"] = a["t"] - H.get("t0", 0)
    H["conn_overlaps"] = [{k: v for k, v in e.items() if k != "kind"} for e in cl.events
                          if e["kind"] == "produce_behind_unanswered_produce"]
    H["lost_produce_replies"] = sum(1 for e in cl.events if e["kind"] == "request" and e.get("api") == "Produce"
                                    and "lose_reply" in str(e.get("fate")))
    H["fault_hits"] = dict(plan.hits)
    H["leader_moves"] = sum(1 for e in cl.events if e["kind"] == "leader_move")
    H["topic_ts_type"] = 1 if P["log_append_time"] else 0
    H["sim_errors"] = [e for e in cl.events if e["kind"] in ("SIM_ENCODE_ERROR", "undecodable_request", "bad_header",
                                                              "unsupported_request")]
    return H


def produce_bound(P):
    """B_produce (DESIGN Appendix B), virtual seconds."""
    return 4 * (P["request_timeout_ms"] + P["metadata_max_age_ms"]) / 1000.0 + 40 * P["retry_backoff_ms"] / 1000.0


LEADERLESS_EXPIRY_ERRORS = ("LeaderNotAvailableError", "NotLeaderForPartitionError")


def sent_batch_expired_without_leader(H, partition, missing_seq, before_t):
    """Classifier for the known finding "a batch of an idempotent producer that had already been sent (it carries
    sequence numbers) is given up after waiting longer than its ttl for a partition leader": True iff
      (1) the client itself put a batch with base sequence `missing_seq` for this partition on the wire (client-boundary
          tap) before `before_t`, and
      (2) before `before_t` a record future of this partition failed with the error the accumulator's leaderless expiry
          raises (LeaderNotAvailableError / NotLeaderForPartitionError; for an idempotent producer the sender never
          fails a batch with a retriable error, so nothing else raises them).
    A sequence that was handed to a batch which never left the client does not qualify (that was defect c9f2f2c)."""
    sent = any(iv["t_call"] <= before_t + 1e-9 and (iv.get("seqs") or {}).get(str(partition), [None])[0] == missing_seq
               for iv in H["inflight"])
    if not sent:
        return False
    return any(f.get("tp") == partition and f.get("outcome") == "exception" and f.get("exc") in LEADERLESS_EXPIRY_ERRORS
               and f.get("t_done") is not None and f["t_done"] <= before_t + 1e-9 for f in H["futures"].values())


def first_sequence_gap(H):
    """partition -> (expected, arrived, t) of the first sequence gap the brokers saw (idempotent producers)."""
    P = H["params"]
    out, seen = {}, {}
    for a in H["arrivals"]:
        bs = a.get("batches") or []
        if not bs or a["partition"] in out:
            continue
        b = bs[0]
        prev = seen.setdefault(a["partition"], [])
        if any(x[0] == b["base_seq"] for x in prev):
            continue
        exp = (prev[-1][0] + prev[-1][1]) % 2**31 if prev else (P["start_seq"] if P["start_seq"] is not None else 0)
        if b["base_seq"] != exp:
            out[a["partition"]] = (exp, b["base_seq"], a["t"])
        prev.append((b["base_seq"], b["count"]))
    return out
