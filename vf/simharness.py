"""Shared harness helpers for simulated-cluster histories."""
from __future__ import annotations

import contextlib
import logging
import random

from vf.simloop import OWNER, SimNet, kill_owner, run_sim  # noqa: F401
from vf.cluster import SimCluster, FaultPlan, Fate  # noqa: F401


@contextlib.contextmanager
def owned(name):
    tok = OWNER.set(name)
    try:
        yield
    finally:
        OWNER.reset(tok)


def quiet_logging():
    logging.disable(logging.CRITICAL)


ACTIVE_IDLE_DROPS = []  # connections closed with reason IDLE_DROP less than max_idle_ms after the client's last write to them
CLOSE_REASONS = {}     # why the library closed its connections, counted over the whole shard (observation only)


def tap_connection_close():
    """Count AIOKafkaConnection.close(reason) calls by reason (harness-side wrapper, nothing in the repository changes)."""
    try:
        from aiokafka import conn as _conn
    except Exception:  # noqa: BLE001
        return
    if getattr(_conn.AIOKafkaConnection.close, "_vf_tapped", False):
        return
    orig = _conn.AIOKafkaConnection.close

    import time as _time
    orig_send = _conn.AIOKafkaConnection.send

    def send(self, request, expect_response=True):
        self._vf_last_write = _time.monotonic()
        return orig_send(self, request, expect_response=expect_response)

    def close(self, reason=None, exc=None):
        if self._reader is not None:          # first close of a live connection
            k = getattr(reason, "name", None) or str(reason)
            CLOSE_REASONS[k] = CLOSE_REASONS.get(k, 0) + 1
            lw = getattr(self, "_vf_last_write", None)
            if k == "IDLE_DROP" and lw is not None and self._max_idle_ms is not None \
                    and _time.monotonic() - lw < self._max_idle_ms / 1000.0 - 1e-6:
                # closed as idle although the client itself wrote to it less than max_idle_ms ago
                ACTIVE_IDLE_DROPS.append({"host": self._host, "t": _time.monotonic(), "since_last_write": _time.monotonic() - lw})
        return orig(self, reason=reason, exc=exc)
    close._vf_tapped = True
    _conn.AIOKafkaConnection.close = close
    _conn.AIOKafkaConnection.send = send


def make_cluster(seed, n_brokers=3, versions=None, lat=(0.0005, 0.004), fragment=True):
    tap_connection_close()
    net = SimNet(seed=seed, lat=lat, fragment=fragment)
    cl = SimCluster(net, seed=seed, n_brokers=n_brokers, versions=versions)
    return net, cl


def jsonable(x):
    if isinstance(x, bytes):
        return x.hex() if len(x) <= 64 else x[:64].hex() + "..."
    if isinstance(x, dict):
        return {str(k): jsonable(v) for k, v in x.items()}
    if isinstance(x, (list, tuple, set, frozenset)):
        return [jsonable(v) for v in x]
    if isinstance(x, (int, float, str, bool)) or x is None:
        return x
    return repr(x)


class ClientSendTap:
    """Wraps AIOKafkaClient.send (class attribute, from the harness) to record call/return of every
    request at the client boundary: the only place where 'in flight from the client's view' is defined."""

    def __init__(self, loop):
        self.loop = loop
        self.records = []
        self._orig = None

    def install(self):
        from aiokafka.client import AIOKafkaClient
        tap = self
        orig = AIOKafkaClient.send
        self._orig = orig

        async def send(client_self, node_id, request, *a, **kw):
            rec = {"client": client_self._client_id, "node": node_id, "req": type(request).__name__,
                   "t_call": tap.loop.time(), "t_ret": None, "outcome": None, "request": request}
            tap.records.append(rec)
            try:
                r = await orig(client_self, node_id, request, *a, **kw)
                rec["outcome"] = "ok"
                return r
            except BaseException as e:
                rec["outcome"] = type(e).__name__
                raise
            finally:
                rec["t_ret"] = tap.loop.time()

        AIOKafkaClient.send = send

    def uninstall(self):
        from aiokafka.client import AIOKafkaClient
        if self._orig is not None:
            AIOKafkaClient.send = self._orig
            self._orig = None


def prepare_codec(scratch):
    """runner prepare() hook for sim checks: build the compiled codec from the working tree's .pyx once."""
    import os
    from vf import extbuild
    d = os.path.join(scratch, "ext-plain")
    try:
        lib = extbuild.build("plain", d)
        return {"ext_dir": lib}
    except Exception as e:  # no compiler / build failure: the compiled codec cannot be judged
        return {"ext_dir": None, "ext_build_error": repr(e)[:500]}


def setup_codec(params, pure_python=False):
    """Call before importing aiokafka in a shard worker."""
    import os
    if pure_python:
        os.environ["AIOKAFKA_NO_EXTENSIONS"] = "1"
        return "pure-python"
    if params.get("ext_dir"):
        from vf import extbuild
        extbuild.install_finder(params["ext_dir"])
        return "compiled(from working tree)"
    return "compiled(in-tree .so)"


def idle_ms(P):
    """connections_max_idle_ms of the clients of a history: the library default (9 min: never reached in a run) in three of
    five histories, else short enough for idle connections to be dropped and re-opened inside the run.  Derived from
    the history's seed unless the parameters name it (pinned witnesses do)."""
    v = P.get("connections_max_idle_ms")
    if v is not None:
        return v
    # (longer than the longest injected broker-side delay of 1.5 s: a request without reply (acks=0) that is still queued at
    # the broker when the client legitimately drops the idle connection has no ordering guarantee against the next connection)
    return [540000, 540000, 540000, 2000, 4000][(P.get("seed", 0) // 7) % 5]
