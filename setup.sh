#!/bin/sh
# Offline setup: install contract libraries beside the repo's interpreter (git-ignored .deps).
HERE="$(cd "$(dirname "$0")" && pwd)"
cd "$HERE"
if [ ! -d .deps/icontract ]; then
  /venv/bin/pip install -q --no-index --find-links /opt/veriftools/wheels --target .deps icontract deal >/dev/null 2>&1 || \
  /venv/bin/pip install --no-index --find-links /opt/veriftools/wheels --target .deps icontract deal
fi
mkdir -p evidence
exit 0
