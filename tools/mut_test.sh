#!/bin/sh
# usage: mut_test.sh <patch.diff> <PROP> [tier] [lines] -- run a check against a scratch worktree with the patch applied
PATCH=$1; PROP=$2; TIER=${3:-quick}
cd /tmp/vfmut && git checkout -q -- . && git checkout -q --detach main && git apply "$PATCH" || { echo "patch failed"; exit 2; }
cd /verif && VERIF_REPO_ROOT=/tmp/vfmut ./check $PROP --tier $TIER | grep -E "mechanism|VIOLATED|held|INCONCL" | cut -c1-230 | sort | uniq -c | sort -rn | head -${4:-4}
cd /tmp/vfmut && git checkout -q -- .
