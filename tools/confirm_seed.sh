#!/bin/sh
# usage: confirm_seed.sh C12 1 [3]   (third arg: index to store it under; default = second) -- confirm a seeded change in its scratch worktree /tmp/seed/<P> and store it
# Checks: patch applies; pinned suite still passes with it; demo fails with it and passes without it.
P=$1; K=$2; DK=${3:-$K}
WT=/tmp/seed/$P; OUT=/tmp/seed/$P-out/$K; DST=/verif/seeded/$P-$DK
cd $WT || exit 2
git checkout -q -- . 
if ! ls aiokafka/record/_crecords/*.so >/dev/null 2>&1; then
  /venv/bin/python setup.py build_ext --inplace >/tmp/seed/$P.build.log 2>&1
  git checkout -q -- . 
fi
DEMO=$(ls $OUT/demo.py $OUT/test_demo.py 2>/dev/null | head -1)
run_demo() { case "$DEMO" in *test_demo.py) /venv/bin/python -m pytest -q -p no:cacheprovider -x "$DEMO" ;; *) /venv/bin/python "$DEMO" ;; esac; }
run_demo >/tmp/seed/$P-$K.demo_clean.log 2>&1; CLEAN=$?
git apply $OUT/patch.diff || { echo "patch does not apply"; exit 2; }
if git diff --name-only | grep -q '\.pyx$'; then /venv/bin/python setup.py build_ext --inplace >>/tmp/seed/$P.build.log 2>&1; fi
SUITE=$(/venv/bin/python -m pytest -q -p no:cacheprovider --timeout=900 2>&1 | tail -1)
run_demo >/tmp/seed/$P-$K.demo_mut.log 2>&1; MUT=$?
git checkout -q -- .
if git -C $WT status --short | grep -q '\.pyx'; then :; fi
echo "$P-$DK suite='$SUITE' demo_clean_rc=$CLEAN demo_mutated_rc=$MUT"
case "$SUITE" in *"749 passed"*) ;; *) echo "REJECT: suite changed"; exit 1;; esac
[ $CLEAN -eq 0 ] && [ $MUT -ne 0 ] || { echo "REJECT: demo does not discriminate"; exit 1; }
mkdir -p $DST && cp $OUT/patch.diff $DST/ && cp $DEMO $DST/ && cp $OUT/notes.md $DST/ 2>/dev/null
python3 - "$P" "$K" "$SUITE" "$CLEAN" "$MUT" "$DK" <<'PY'
import json,sys
P,K,suite,clean,mut,DK=sys.argv[1:]
notes=open(f"/tmp/seed/{P}-out/{K}/notes.md").read() if __import__('os').path.exists(f"/tmp/seed/{P}-out/{K}/notes.md") else ""
json.dump({"property":P,"id":f"{P}-{DK}","needs_to_manifest":"see notes.md","confirmed":{"pinned_suite_with_patch":suite,"demo_rc_unchanged_tree":int(clean),"demo_rc_with_patch":int(mut),"how":"tools/confirm_seed.sh in a scratch worktree under /tmp/seed (compiled extensions built in place)"},"detected_by":"(filled in after running the checks)","notes":notes}, open(f"/verif/seeded/{P}-{DK}/meta.json","w"), indent=1)
PY
echo "KEPT $DST"
